"""K4 bounded monitor for C14 (lookup and reference functions return the addressed element).
Runs under /venv/bin/python on the real code.

Contract monitored (executable form of the property statement, independent of the library):
  * a key column is a list of cells; the KEYS are the cells of the same kind as the lookup value (number: int/float,
    compared exactly as rationals; text: equal strings).  Blank cells and cells of another kind (a text header in a
    numeric column, numbers in a text column, dates) hold no key and are passed over.
  * exact matching: VLOOKUP / MATCH / XMATCH address the FIRST row whose key equals the lookup value (XMATCH with
    search mode -1 the LAST such row), '#N/A' when there is none.
  * approximate matching, keys ascending (duplicates allowed): VLOOKUP / MATCH address the LAST row whose key is not
    greater than the lookup value - the last key row when the value exceeds every key, '#N/A' when it is below all.
  * INDEX(area, r, c) is the element in row r, column c of the area, '#REF!' when r or c lies outside it;
    INDEX(values, MATCH(k, keys, 0)) is the partner of k.
  * COLUMN(ref) is the 1-based number of the (first) column of ref, COLUMN() that of the formula's own cell;
    ADDRESS(r, c) = '$' + letters(c) + '$' + r where letters enumerates A..Z, AA..ZZ, AAA..XFD in order.
No clause (skipped, not counted): blank / boolean / date lookup values, texts that differ from a key only by case,
approximate matching on keys that are not ascending (or on texts with upper-case letters), boolean cells next to a
numeric lookup value, XMATCH's own approximate modes, INDEX with row/column 0 or negative, horizontal MATCH.
"""
import datetime
import itertools
import multiprocessing
import random
import time
from fractions import Fraction

from pv import codec
from pv.nat import lib

DATE = datetime.datetime(2020, 1, 1)
NA, REF = '#N/A', '#REF!'
NPROC = 16


# ------------------------------------------------------------------ oracle (from the property statement)
def _letters_table():
    az = [chr(65 + i) for i in range(26)]
    out = list(az)
    out += [a + b for a in az for b in az]
    out += [a + b + c for a in az for b in az for c in az]
    return out[:16384]


COLS = _letters_table()                 # COLS[c-1] = letters of column c, by enumeration of the Excel column sequence
assert COLS[0] == 'A' and COLS[25] == 'Z' and COLS[26] == 'AA' and COLS[701] == 'ZZ' and COLS[702] == 'AAA' \
    and COLS[-1] == 'XFD'


def L(c):
    return COLS[c - 1]


def kind(v):
    if v is None:
        return 'blank'
    if isinstance(v, bool):
        return 'bool'
    if isinstance(v, (int, float)):
        return 'num'
    if isinstance(v, str):
        return 'text'
    return 'date'


def _key_rows(keys, v):
    kv = kind(v)
    return [(i, k) for i, k in enumerate(keys) if kind(k) == kv]


def _eq(k, v):
    return k == v            # same kind; Python compares an int with a float exactly (no rounding of the int)


def _le(a, b):
    return a <= b


def has_exact_clause(keys, v):
    kv = kind(v)
    if kv not in ('num', 'text'):
        return False
    if kv == 'num' and any(kind(k) == 'bool' for k in keys):
        return False
    if (v == 0 or v == '') and any(k is None for k in keys):
        return False             # "a blank cell equals 0 and the empty text" (C10): whether it is a key for 0 is left open
    if kv == 'text' and any(kind(k) == 'text' and k != v and k.lower() == v.lower() for k in keys):
        return False
    return True


def has_approx_clause(keys, v):
    if not has_exact_clause(keys, v):
        return False
    ks = [k for _, k in _key_rows(keys, v)]
    if kind(v) == 'text' and any(s != s.lower() for s in ks + [v]):
        return False
    return all(_le(a, b) for a, b in zip(ks, ks[1:]))


def exact_row(keys, v, last=False):
    """0-based row addressed by exact matching or None"""
    rows = [i for i, k in _key_rows(keys, v) if _eq(k, v)]
    if not rows:
        return None
    return rows[-1] if last else rows[0]


def approx_row(keys, v):
    rows = [i for i, k in _key_rows(keys, v) if _le(k, v)]
    return rows[-1] if rows else None


def feature(keys, v):
    """root-cause class of an input (first that applies)"""
    kv = kind(v)
    ks = [k for _, k in _key_rows(keys, v)]
    if any(k is None for k in keys):
        return 'blank_in_keys'
    if any(kind(k) != kv for k in keys):
        return 'other_typed_in_keys'
    if kv == 'num' and (any(type(k) is not type(v) for k in ks)):
        return 'int_vs_float'
    if len(set(map(repr, ks))) < len(ks):
        return 'duplicates'
    if ks and all(_le(k, v) and not _eq(k, v) for k in ks):
        return 'above_all'
    if ks and all(not _le(k, v) for k in ks):
        return 'below_all'
    if len(keys) > 1000:
        return 'long'
    return 'plain'


def short(x, n=12):
    x = list(x)
    return repr(x) if len(x) <= n else f'{x[:5]!r}..{x[-3:]!r} (len {len(x)})'


def strict_same(got, exp, Empty):
    """exp: oracle value (None = blank cell)."""
    if exp is None:
        return isinstance(got, Empty)
    if isinstance(got, Empty):
        return False
    return codec.same(got, exp)


def dedupe(fails, cap=25, keep_size=False):
    """one failure per root-cause key: the smallest witness"""
    best = {}
    for f in fails:
        f.pop('meta', None)
        k = f['key']
        if k not in best or f.get('size', 0) < best[k].get('size', 0):
            best[k] = f
    out = sorted(best.values(), key=lambda f: f['key'])[:cap]
    if not keep_size:
        for f in out:
            f.pop('size', None)
    return out


# ------------------------------------------------------------------ helper level: _vlookup / _match / _xmatch
def _helper_tests(inst, Empty, keys, v):
    """-> list of (fn, mode, thunk, expected) for which the statement has a clause"""
    conv = [Empty() if k is None else k for k in keys]
    n = len(keys)
    table = [[conv[i], f'v{i + 1}', 100 + i] for i in range(n)]
    arr = [[k] for k in conv]
    out = []
    if has_exact_clause(keys, v):
        e, el = exact_row(keys, v), exact_row(keys, v, last=True)
        out.append(('vlookup', 'exact', lambda: inst._vlookup(v, table, 2, False), NA if e is None else f'v{e + 1}'))
        out.append(('vlookup', 'exact', lambda: inst._vlookup(v, table, 3, 0), NA if e is None else 100 + e))
        out.append(('match', 'exact', lambda: inst._match(v, arr, 0), NA if e is None else e + 1))
        out.append(('xmatch', 'exact', lambda: inst._xmatch(v, arr, 0, 1), NA if e is None else e + 1))
        out.append(('xmatch', 'exact_from_end', lambda: inst._xmatch(v, arr, 0, -1), NA if el is None else el + 1))
    if has_approx_clause(keys, v):
        a = approx_row(keys, v)
        out.append(('vlookup', 'approx', lambda: inst._vlookup(v, table, 2, True), NA if a is None else f'v{a + 1}'))
        out.append(('vlookup', 'approx', lambda: inst._vlookup(v, table, 3, 1), NA if a is None else 100 + a))
        out.append(('match', 'approx', lambda: inst._match(v, arr, 1), NA if a is None else a + 1))
    return out


def _helper_fails(inst, Empty, keys, v, fn, mode):
    """does (fn, mode) still fail on this input?"""
    for f, m, th, exp in _helper_tests(inst, Empty, keys, v):
        if f == fn and m == mode and not strict_same(lib.call_catch(th), exp, Empty):
            return True
    return False


def _minimise(inst, Empty, keys, v, fn, mode):
    """delta debugging on the rows of the key column"""
    keys = list(keys)
    chunk = max(1, len(keys) // 2)
    while chunk >= 1 and len(keys) > 1:
        i, shrunk = 0, False
        while i < len(keys) and len(keys) > 1:
            cand = keys[:i] + keys[i + chunk:]
            if cand and _helper_fails(inst, Empty, cand, v, fn, mode):
                keys, shrunk = cand, True
            else:
                i += chunk
        if not shrunk or chunk > 1:
            chunk //= 2
    return keys


def _enc_keys(keys):
    return [codec.enc(k) for k in keys]


def _helper_one(which, inst, Empty, keys, v, fails, stats):
    tests = _helper_tests(inst, Empty, keys, v)
    nontrivial = bool(_key_rows(keys, v))
    for fn, mode, th, exp in tests:
        stats['evaluations'] += 1
        stats['nontrivial'] += nontrivial and which == 'runtime'
        got = lib.call_catch(th)
        if strict_same(got, exp, Empty):
            continue
        if len(keys) <= 12 or stats['long_minimisations'] < 6:
            stats['long_minimisations'] += len(keys) > 12
            mk = _minimise(inst, Empty, keys, v, fn, mode)
        else:
            mk = list(keys)
        key = f'C14.{fn}.{mode}.{feature(mk, v)}'
        again = [(lib.call_catch(t), e) for f, m, t, e in _helper_tests(inst, Empty, mk, v) if (f, m) == (fn, mode)]
        fails.append({'key': key, 'size': len(mk) * 10 + (which != 'runtime'),
                      'what': f'{which}._{fn} [{mode}] lookup {v!r} in key column {short(mk)} -> {[g for g, _ in again]!r}, '
                              f'expected {[e for _, e in again]!r} (partner columns v1.. / 100..; positions 1-based)',
                      'replay': {'kind': 'helper', 'which': which, 'fn': fn, 'mode': mode, 'keys': _enc_keys(mk),
                                 'v': codec.enc(v)}})


NUM_ALPHA = [None, 1, 2, 3, 2.0, 2.5, 'hdr', DATE]
NUM_LOOK = [0, 0.5, 1, 2, 2.0, 2.5, 3, 3.0, 3.5, 4, -1]
TXT_ALPHA = [None, 'a', 'b', 'bb', 'c', 'B', 5, True]
TXT_LOOK = ['a', 'b', 'bb', 'c', 'd', '0', 'B', 'A', 'ab']


def _long_columns(rng, tier):
    """sampled long key columns (ascending, duplicates, blanks, header), lengths around the 100 / 1000 thresholds"""
    out = []
    lens = [99, 100, 101, 150, 999, 1000, 1001, 1500] if tier == 'quick' else \
        [99, 100, 101, 102, 150, 255, 256, 257, 999, 1000, 1001, 1002, 1500, 4096, 5000]
    for n in lens:
        for variant in range(3 if tier == 'quick' else 6):
            keys, cur = [], rng.randint(-5, 5)
            for i in range(n):
                step = rng.choice([0, 0, 1, 1, 2, 3])
                cur += step
                keys.append(cur if rng.random() < 0.8 else float(cur))
            if variant % 3 == 1:
                keys[0] = 'header'
                for i in rng.sample(range(1, n), 3):
                    keys[i] = None
            if variant % 3 == 2:
                for i in range(n - rng.randint(1, 4), n):
                    keys[i] = None
                keys[rng.randrange(0, n // 2)] = DATE
            nums = [k for k in keys if kind(k) == 'num']
            looks = {nums[0], nums[-1], nums[0] - 1, nums[-1] + 1, nums[-1] + 0.5, nums[len(nums) // 2] + 0.5,
                     float(nums[-1]), nums[min(len(nums) - 1, 99)], nums[min(len(nums) - 1, 100)],
                     nums[min(len(nums) - 1, 999)], nums[min(len(nums) - 1, 1000)], nums[-2]}
            for _ in range(4):
                looks.add(rng.choice(nums))
            out.append((keys, sorted(looks, key=lambda x: (x, repr(x)))))
        # text column
        words = sorted({''.join(rng.choice('abcxyz') for _ in range(rng.randint(1, 4))) for _ in range(n)})
        words = (words * (n // len(words) + 1))[:n]
        words.sort()
        out.append((words, ['a', words[0], words[-1], words[len(words) // 2], 'zzzzz', 'm', words[-1] + 'a', '0']))
    return out


def _helper_chunk(arg):
    """top-level worker: all key columns of length 1..maxlen over one alphabet whose FIRST cell is alpha[first]"""
    ai, first, maxlen_rt, maxlen_ab = arg
    alpha, looks = ((NUM_ALPHA, NUM_LOOK), (TXT_ALPHA, TXT_LOOK))[ai]
    fails, stats = [], {'evaluations': 0, 'nontrivial': 0, 'long_minimisations': 0}
    for which in ('runtime', 'abstract'):
        cls = lib.get_class(which)
        inst, Empty = cls(), cls.EmptyCell
        for n in range(0, maxlen_rt if which == 'runtime' else maxlen_ab):
            for rest in itertools.product(alpha, repeat=n):
                keys = (alpha[first],) + rest
                for v in looks:
                    _helper_one(which, inst, Empty, keys, v, fails, stats)
    return stats, dedupe(fails, cap=200, keep_size=True)


def _check_helpers(tier, seed):
    t0 = time.time()
    fails, stats = [], {'evaluations': 0, 'nontrivial': 0, 'long_minimisations': 0}
    maxlen, maxlen_ab = (4, 3) if tier == 'quick' else (5, 5)
    args = [(ai, first, maxlen, maxlen_ab) for ai in (0, 1) for first in range(len(NUM_ALPHA))]
    with multiprocessing.Pool(min(NPROC, len(args))) as pool:
        for st, fl in pool.map(_helper_chunk, args, chunksize=1):
            stats['evaluations'] += st['evaluations']
            stats['nontrivial'] += st['nontrivial']
            fails += fl
    long_cols = _long_columns(random.Random(seed + 1), tier)
    for which in ('runtime', 'abstract'):
        cls = lib.get_class(which)
        inst, Empty = cls(), cls.EmptyCell
        for keys, looks in long_cols:
            for v in looks:
                _helper_one(which, inst, Empty, keys, v, fails, stats)
        # binary-search modes of XMATCH: strictly monotonic keys of one kind, exact matching -> the unique row
        uni = [1, 2, 2.5, 3, 4, 7, 11]
        sets = [c for n in range(1, 7) for c in itertools.combinations(uni, n)]
        rb = random.Random(seed + 5)
        sets += [tuple(sorted(rb.sample(range(-3000, 3000), n))) for n in (100, 101, 1000, 1001, 1025)]
        sets += [('a', 'b', 'bb', 'c'), ('b',), ('a', 'c')]
        for ks in sets:
            if kind(ks[0]) == 'num':
                looks = [0, 1, 2, 2.0, 2.5, 3, 3.5, 4, 7, 7.0, 11, 12, ks[0], ks[-1], ks[len(ks) // 2], ks[-1] + 1,
                         ks[0] - 1]
            else:
                looks = ['a', 'b', 'bb', 'c', 'd', '0', 'ab']
            for v in looks:
                e = exact_row(ks, v)
                exp_up = NA if e is None else e + 1
                exp_dn = NA if e is None else len(ks) - e
                up = [[k] for k in ks]
                for mode, arr, exp in (('binary_ascending', up, exp_up), ('binary_descending', up[::-1], exp_dn)):
                    stats['evaluations'] += 1
                    stats['nontrivial'] += which == 'runtime'
                    got = lib.call_catch(inst._xmatch, v, arr, 0, 2 if mode == 'binary_ascending' else -2)
                    if not strict_same(got, exp, Empty):
                        fails.append({'key': f'C14.xmatch.{mode}', 'size': len(ks),
                                      'what': f'{which}._xmatch({v!r}, {short([a[0] for a in arr])}, 0, '
                                              f'{2 if mode == "binary_ascending" else -2}) -> {got!r}, expected {exp!r}',
                                      'replay': {'kind': 'binary', 'which': which, 'mode': mode, 'v': codec.enc(v),
                                                 'keys': _enc_keys([a[0] for a in arr])}})
    return {'name': 'C14.monitor.helper_search',
            'bound': f'_vlookup/_match/_xmatch: EVERY key column of length 1..{maxlen} (emitted runtime; 1..{maxlen_ab} importable base class) over '
                     f'{len(NUM_ALPHA)} cell values (blank, 1, 2, 3, 2.0, 2.5, text header, date) x {len(NUM_LOOK)} numeric '
                     f'lookup values (present/between/below/above, int and float forms) and over {len(TXT_ALPHA)} cell '
                     f'values (blank, a, b, bb, c, B, 5, TRUE) x {len(TXT_LOOK)} text lookup values; seeded long columns '
                     '(lengths 99..1500 quick / ..5000 thorough; ascending with duplicates, header, blanks inside and at '
                     'the end, a date, int/float mix; text); XMATCH binary modes 2/-2 on every subset of 7 numbers up to '
                     'size 6 and on sampled strictly monotonic columns of 100..1025 keys',
            'rule': 'one evaluation = one call (function, match mode, result column) compared with the independent search; '
                    'exact: vlookup cols 2,3 / match 0 / xmatch (0,1) / xmatch (0,-1); approximate (only when the keys are '
                    'ascending): vlookup cols 2,3 / match 1; inputs without a clause are skipped; non-trivial = the column '
                    'holds at least one key of the kind of the lookup value (counted once, on the emitted runtime); failing inputs '
                    'are minimised by deleting rows',
            'exhaustive': True, 'evaluations': stats['evaluations'], 'distinct_nontrivial': int(stats['nontrivial']),
            'failures': dedupe(fails), 'seconds': time.time() - t0,
            'samples': [{'fn': 'match', 'mode': 'approx', 'keys': [1, 2, 2, 3], 'v': 2.5, 'expected': 3},
                        {'fn': 'vlookup', 'mode': 'exact', 'keys': ['hdr', None, 2, 2.0], 'v': 2.0, 'expected': 'v3'},
                        {'fn': 'xmatch', 'mode': 'exact_from_end', 'keys': [2, 1, 2], 'v': 2, 'expected': 3}]}


# ------------------------------------------------------------------ pipeline jobs (workbook -> Parser -> Executor)
def _cell_args(ref):
    """[title, letters, row(int, 1-based)] -> Cell arguments"""
    return ref[0], ref[1], str(ref[2])


def run_job(job):
    """Top-level worker.  job = {'sheets': [...], 'entry': None|[title, letters, row], 'rounds': [{'set': [[title,
    letters, row, enc]], 'reads': [[title, letters, row, enc expected, key, desc, size]]}]}"""
    from excel2pycl import Cell
    res = {'n': 0, 'fails': []}
    with lib.scratch() as d:
        entry = job.get('entry')
        p = lib.Pipe({'sheets': job['sheets']}, d, entry=_cell_args(entry) if entry else None,
                     safety=job.get('safety', True))
        if p.error is not None:
            slim = dict(job)
            slim['rounds'] = [{'set': x.get('set', []), 'reads': [list(q[:7]) for q in x['reads'][:1]]} for x in job['rounds'][:1]]
            res['fails'].append({'key': job.get('errkey', 'C14.pipeline.translate'), 'size': 0,
                                 'what': f'{job.get("name", "")}: translation failed: {p.error!r}',
                                 'replay': {'kind': 'job', 'job': slim}})
            return res
        Empty = p.cls.EmptyCell
        for ri, rnd in enumerate(job['rounds']):
            if rnd.get('set'):
                cells = [Cell(t, c, str(r), codec.dec(v, make_empty=Empty)) for t, c, r, v in rnd['set']]
                p.executor.set_cells(cells)
            for qi, (t, c, r, exp, key, desc, size, *meta) in enumerate(rnd['reads']):
                got = p.value(t, c, str(r))
                res['n'] += 1
                e = codec.dec(exp, make_empty=lambda: None)
                if isinstance(got, codec.Raised) or not strict_same(got, e, Empty):
                    small = dict(job)
                    small['rounds'] = [{'set': x.get('set', []), 'reads': []} for x in job['rounds'][:ri + 1]]
                    small['rounds'][-1]['reads'] = [list(rnd['reads'][qi][:7])]
                    res['fails'].append({'key': key, 'size': size + (1000 if e == NA else 500 if e is None else 0), 'meta': meta[0] if meta else None,
                                         'what': f'{desc} -> {got!r}, expected {"blank" if e is None else repr(e)}',
                                         'replay': {'kind': 'job', 'job': small}})
    return res


def run_jobs(jobs):
    if not jobs:
        return 0, []
    if len(jobs) == 1:
        results = [run_job(jobs[0])]
    else:
        with multiprocessing.Pool(min(NPROC, len(jobs))) as pool:
            results = pool.map(run_job, jobs, chunksize=1)
    n, fails = 0, []
    for r in results:
        n += r['n']
        fails += r['fails']
    return n, fails


def lit(v):
    if isinstance(v, str):
        return '"' + v + '"'
    if isinstance(v, float):
        return repr(v)
    return str(v)


class Table:
    """A planted table: key column + (width-1) partner columns at (c0, r0) of sheet `title`."""

    def __init__(self, title, c0, r0, keys, width=3, tag='p'):
        self.title, self.c0, self.r0, self.keys, self.width, self.tag = title, c0, r0, list(keys), width, tag
        n = len(self.keys)
        self.cols = [self.keys]
        for j in range(2, width + 1):
            if j % 3 == 2:
                col = [f'{tag}{i + 1}c{j}' for i in range(n)]
            elif j % 3 == 0:
                col = [1000 * j + i for i in range(n)]
            else:
                col = [i + 0.5 if i % 4 else None for i in range(n)]
            self.cols.append(col)

    def cells(self):
        out = []
        for j, col in enumerate(self.cols):
            for i, v in enumerate(col):
                if v is not None:
                    out.append([self.c0 + j, self.r0 + i, codec.enc(v)])
        return out

    def rng(self, j1, j2, qual='', absolute=False):
        d = '$' if absolute else ''
        n = len(self.keys)
        return f'{qual}{d}{L(self.c0 + j1 - 1)}{d}{self.r0}:{d}{L(self.c0 + j2 - 1)}{d}{self.r0 + n - 1}'

    def at(self, i, j):
        return self.cols[j - 1][i]


def lookup_formulas(tb, v, vtext, scen, qual='', rich=True, keys=None, alljs=True):
    """-> [(formula, expected, key, size)] for lookup value v (written as vtext) against table tb.
    keys = effective key column (after overrides), default the planted one."""
    keys = tb.keys if keys is None else keys
    out = []
    n, w = len(keys), tb.width
    T, K = tb.rng(1, w, qual), tb.rng(1, 1, qual)
    Ta = tb.rng(1, w, qual, absolute=True)
    feat = feature(keys, v) if n <= 2000 else 'long'
    size = (n, {'keys': keys, 'v': v})       # witness size + the searched input (used to attribute a failure to the helper)

    def k(fn, mode):
        return f'C14.pipe.{fn}.{mode}.{feat}.{scen}'

    def val(row, j):
        return NA if row is None else tb.at(row, j)
    if has_exact_clause(keys, v):
        e, el = exact_row(keys, v), exact_row(keys, v, last=True)
        pos, posl = (NA if e is None else e + 1), (NA if el is None else el + 1)
        js = range(1, w + 1) if (rich and alljs) else [1, w] if rich else [w]
        for j in js:
            out.append((f'=VLOOKUP({vtext},{T},{j},FALSE)', val(e, j), k('vlookup', 'exact'), size))
        out.append((f'=VLOOKUP({vtext},{Ta},{min(2, w)},0)', val(e, min(2, w)), k('vlookup', 'exact'), size))
        out.append((f'=MATCH({vtext},{K},0)', pos, k('match', 'exact'), size))
        out.append((f'=XMATCH({vtext},{K})', pos, k('xmatch', 'exact_default'), size))
        out.append((f'=XMATCH({vtext},{K},0,-1)', posl, k('xmatch', 'exact_from_end'), size))
        if rich:
            out.append((f'=XMATCH({vtext},{K},0)', pos, k('xmatch', 'exact'), size))
            out.append((f'=XMATCH({vtext},{K},0,1)', pos, k('xmatch', 'exact'), size))
        if e is not None and w >= 2:
            out.append((f'=INDEX({tb.rng(2, 2, qual)},MATCH({vtext},{K},0))', val(e, 2), k('index_match', 'exact'), size))
            out.append((f'=INDEX({T},MATCH({vtext},{K},0),{w})', val(e, w), k('index_match', 'exact'), size))
    if has_approx_clause(keys, v):
        a = approx_row(keys, v)
        posa = NA if a is None else a + 1
        out.append((f'=VLOOKUP({vtext},{T},{w},TRUE)', val(a, w), k('vlookup', 'approx'), size))
        out.append((f'=VLOOKUP({vtext},{T},{min(2, w)})', val(a, min(2, w)), k('vlookup', 'approx_default'), size))
        out.append((f'=MATCH({vtext},{K},1)', posa, k('match', 'approx'), size))
        out.append((f'=MATCH({vtext},{K})', posa, k('match', 'approx_default'), size))
        if rich:
            out.append((f'=VLOOKUP({vtext},{Ta},1,1)', val(a, 1), k('vlookup', 'approx'), size))
    return out


def job_from(name, sheets_tables, placed, rounds_extra=None, entry=None):
    """sheets_tables: {title: [Table]} in sheet order; placed: [(title, colnum, row, formula, expected, key, size, note)]"""
    sheets = []
    for title, tables in sheets_tables.items():
        cells = []
        for tb in tables:
            cells += tb.cells()
        sheets.append({'title': title, 'cells': cells})
    idx = {s['title']: s for s in sheets}
    reads = []
    for (title, c, r, f, exp, key, size, note) in placed:
        idx[title]['cells'].append([c, r, f])
        if key is not None:
            sz, meta = size if isinstance(size, tuple) else (size, None)
            reads.append([title, L(c), r, codec.enc(exp) if exp is not None else {'$e': 1}, key,
                          f'{name}: {title}!{L(c)}{r} {f} ({note})', sz, meta])
    rounds = [{'set': [], 'reads': reads}] + (rounds_extra or [])
    return {'name': name, 'sheets': sheets, 'entry': entry, 'rounds': rounds}


SMALL_COLUMNS = [
    ('asc', [10, 20, 30, 40, 50]),
    ('asc_dup', [10, 20, 20, 20, 30, 30, 40]),
    ('unsorted_dup', [30, 10, 40, 10, 30, 20]),
    ('int_float', [1, 2, 2.5, 3, 4.75, 10]),
    ('negatives', [-7, -2.5, 0, 3]),
    ('single', [20]),
    ('header_trailing_blanks', ['key', 10, 20, 30, None, None]),
    ('leading_blanks', [None, None, 10, 20, 30]),
    ('blank_inside', [10, None, 20, 'note', 30, DATE, 40]),
    ('text_asc', ['apple', 'banana', 'cherry', 'cherry', 'kiwi']),
    ('text_unsorted', ['pear', 'Apple', 'fig', 'pear', 'x' * 60, 'apple pie']),
    ('text_mixed', ['id', 7, 'b', None, 'c', 12, 'd']),
]


def lookups_for(keys):
    ks_num = sorted({k for k in keys if kind(k) == 'num'}, key=Fraction)
    ks_txt = sorted({k for k in keys if kind(k) == 'text'})
    out = []
    if ks_num and len(ks_num) >= len(ks_txt):
        for i, k in enumerate(ks_num):
            out.append(k)
            if isinstance(k, int) and (i < 2 or i == len(ks_num) - 1):
                out.append(float(k))                     # float lookup value against an int key
        out += [int(k) + 1 for k in ks_num if isinstance(k, float)][:2]     # int lookup value between float keys
        out += [ks_num[0] - 1, ks_num[-1] + 1, ks_num[-1] + 0.5, ks_num[0] - 0.25]
        for a, b in zip(ks_num, ks_num[1:]):
            out.append((a + b) / 2)
            break
        if len(ks_num) > 2:
            out.append((ks_num[-2] + ks_num[-1]) / 2)
        out.append(ks_num[0] + 1 if ks_num[0] + 1 not in ks_num else ks_num[0] + 0.5)
    else:
        out += ks_txt
        out += ['a', 'zzz', 'banan', 'cherry pie', '7', 'c1']
    seen, uniq = set(), []
    for v in out:
        if repr(v) not in seen:
            seen.add(repr(v))
            uniq.append(v)
    return uniq


def _place(formulas, title, c, r0, note, rows=None):
    """formulas go down column c from row r0; with rows=k they fill a k-row band leftwards-to-rightwards from c
    (keeps the used range small when the table sits in the last columns)"""
    if rows is None:
        return [(title, c, r0 + i, f, exp, key, size, note) for i, (f, exp, key, size) in enumerate(formulas)]
    return [(title, c + i // rows, r0 + i % rows, f, exp, key, size, note) for i, (f, exp, key, size) in enumerate(formulas)]


def _table_jobs(tier, seed):
    rng = random.Random(seed + 2)
    jobs = []
    # S1 base: every small key column at A1 of sheet S, formulas in column H
    for name, keys in SMALL_COLUMNS:
        tb = Table('S', 1, 1, keys, width=4, tag='p')
        fs = []
        looks = lookups_for(keys)
        if tier == 'quick' and len(looks) > 10:
            looks = looks[:6] + looks[-4:]
        for vi, v in enumerate(looks):
            full = vi < 2 or tier == 'thorough'
            fs += lookup_formulas(tb, v, lit(v), 'base', rich=full or vi % 3 == 0, alljs=full)
        jobs.append(job_from(f'base/{name}', {'S': [tb]}, _place(fs, 'S', 8, 1, f'keys {short(keys)}')))
    # S2 placements: column boundaries Z/AA, ZZ/AAA (and XFD in thorough), rows around 100, formulas left of the table
    places = [(25, 98), (701, 99)] + ([(16382, 1), (26, 1000)] if tier == 'thorough' else [])
    for (c0, r0) in places:
        for name, keys in (SMALL_COLUMNS[1], SMALL_COLUMNS[3], SMALL_COLUMNS[6], SMALL_COLUMNS[9])[:4 if tier == 'thorough' else 3]:
            tb = Table('Data 1', c0, r0, keys, width=3, tag='q')
            fs = []
            looks = lookups_for(keys)
            for v in (looks if tier == 'thorough' else looks[::2] + looks[-1:]):
                fs += lookup_formulas(tb, v, lit(v), 'placed', rich=False)
            jobs.append(job_from(f'placed@{L(c0)}{r0}/{name}', {'Data 1': [tb]},
                                 _place(fs, 'Data 1', 1, 1, f'keys {short(keys)} at {L(c0)}{r0}',
                                        rows=8 if c0 > 1000 else None)))
    # S3 long tables (> 100 and > 1000 rows)
    for n, r0 in ([(150, 1), (1100, 3)] if tier == 'quick' else [(150, 1), (101, 1), (1100, 3), (1001, 1), (2500, 2)]):
        for variant in range(2):
            if tier == 'quick' and n > 1000 and variant == 0:
                continue
            keys, q = [], 0                      # keys in quarter units; a whole number is planted as int (a workbook
            for i in range(n):                   # cannot hold a whole float: openpyxl reads 14.0 back as 14)
                q += rng.choice([0, 4, 4, 8, 20, 2, 1])
                keys.append(q // 4 if q % 4 == 0 else q / 4)
            if variant == 1:
                keys[0] = 'key'
                keys[n // 3] = None
                for i in range(n - 3, n):
                    keys[i] = None
            nums = [k for k in keys if kind(k) == 'num']
            looks = [nums[0], nums[-1], nums[-1] + 3, nums[0] - 1, nums[min(99, len(nums) - 1)],
                     nums[min(100, len(nums) - 1)], nums[min(999, len(nums) - 1)],
                     nums[min(1000, len(nums) - 1)], nums[len(nums) // 2] + 0.5, float(nums[-2])]
            if tier == 'thorough':
                looks += [nums[min(101, len(nums) - 1)], nums[min(1001, len(nums) - 1)], nums[-1] + 0.5]
            tb = Table('Big', 2, r0, keys, width=3, tag='b')
            fs, seen = [], set()
            for v in looks:
                if repr(v) in seen:
                    continue
                seen.add(repr(v))
                fs += lookup_formulas(tb, v, lit(v), 'long_table', rich=False)
            jobs.append(job_from(f'long{n}/{variant}', {'Big': [tb]}, _place(fs, 'Big', 7, 1, f'keys {short(keys)}')))
    # S4 two sheets: the same formula text in the same cell of two sheets with unqualified references, and
    #    qualified references to the other sheet
    for name, keys in (SMALL_COLUMNS[2], SMALL_COLUMNS[10], SMALL_COLUMNS[0])[:2 if tier == 'quick' else 3]:
        keys2 = list(reversed(keys))
        t1, t2 = Table('S', 1, 1, keys, 3, 'one'), Table('T 2', 1, 1, keys2, 3, 'two')
        placed = []
        r = 1
        for v in lookups_for(keys)[:(5 if tier == 'quick' else 10)]:
            own1 = lookup_formulas(t1, v, lit(v), 'two_sheets', rich=False)
            own2 = lookup_formulas(t2, v, lit(v), 'two_sheets', rich=False)
            d2 = {f: (exp, key, size) for f, exp, key, size in own2}
            for f, exp, key, size in own1:
                if f in d2:                      # same text on both sheets, each must read its own table
                    placed.append(('S', 6, r, f, exp, key, size, f'own sheet, keys {short(keys)}'))
                    placed.append(('T 2', 6, r, f, d2[f][0], d2[f][1], d2[f][2], f'own sheet, keys {short(keys2)}'))
                    r += 1
            for f, exp, key, size in lookup_formulas(t2, v, lit(v), 'cross_sheet', qual="'T 2'!", rich=False):
                placed.append(('S', 7, r, f, exp, key, size, f"other sheet's keys {short(keys2)}"))
                r += 1
            for f, exp, key, size in lookup_formulas(t1, v, lit(v), 'cross_sheet', qual='S!', rich=False)[:4]:
                placed.append(('T 2', 7, r, f, exp, key, size, f"other sheet's keys {short(keys)}"))
                r += 1
        jobs.append(job_from(f'two_sheets/{name}', {'S': [t1], 'T 2': [t2]}, placed))
    # S5 overrides (Executor.set_cells): lookup value cell far beyond the used range, keys / partners of the table,
    #    blank cells inside the range, most recent override wins
    jobs += _override_jobs(tier, rng)
    # S7 seeded random tables: kind, length 1..12, order, duplicates, blanks / header / other-typed cells, placement, width
    for ti in range(12 if tier == 'quick' else 128):
        n = rng.randint(1, 12)
        if rng.random() < 0.7:
            pool = [rng.randint(-5, 40) if rng.random() < 0.75 else rng.randint(-10, 80) / 4 for _ in range(n)]
            pool = [int(x) if x == int(x) else x for x in pool]      # a workbook cannot hold a whole float
            filler = ['hdr', None, None, DATE, 'x']
        else:
            pool = [''.join(rng.choice('abcdk') for _ in range(rng.randint(1, 3))) for _ in range(n)]
            filler = [None, None, 7, 3.5, True, DATE]
        if rng.random() < 0.4:
            pool = [rng.choice(pool) for _ in range(n)]          # duplicates
        if rng.random() < 0.6:
            pool.sort()
        keys = list(pool)
        for _ in range(rng.choice([0, 0, 1, 2, 3])):
            pos_ = rng.choice([0, len(keys), len(keys), rng.randint(0, len(keys))])
            keys.insert(pos_, rng.choice(filler))
        if not any(kind(k) in ('num', 'text') for k in keys):
            continue
        c0 = rng.choice([1, 2, 3, 25, 26, 27, 52, 100, 255, 256, 701, 702])
        r0 = rng.choice([r for r in (1, 1, 2, 3, 50, 98, 99, 100, 101, 999, 1000) if (r + 12) * (c0 + 8) <= (10000 if tier == 'quick' else 30000)])
        width = rng.randint(2, 5)
        tb = Table('R nd', c0, r0, keys, width, f't{ti}_')
        fs = []
        looks = lookups_for(keys)
        for v in (looks if tier == 'thorough' else looks[:5] + looks[-2:]):
            fs += lookup_formulas(tb, v, lit(v), 'random', rich=rng.random() < 0.5, alljs=rng.random() < 0.3)
        fc = c0 + width + 1 + rng.randint(0, 2)
        jobs.append(job_from(f'random{ti}', {'R nd': [tb]},
                             _place(fs, 'R nd', fc, rng.choice([1, r0, max(1, r0 - 1)]),
                                    f'keys {short(keys)} at {L(c0)}{r0}, width {width}', rows=10 if c0 > 100 else None)))
    # S6 entry-point translation
    for name, keys in (SMALL_COLUMNS[1], SMALL_COLUMNS[6], SMALL_COLUMNS[10]):
        tb = Table('S', 3, 2, keys, 3, 'e')
        v = [k for k in keys if kind(k) in ('num', 'text') and k != 'key'][-1]
        cands = lookup_formulas(tb, v, lit(v), 'entry_point', rich=False)
        v2 = 25 if kind(v) == 'num' else 'zzz'
        cands += lookup_formulas(tb, v2, lit(v2), 'entry_point', rich=False)
        for i, (f, exp, key, size) in enumerate(cands):
            if tier == 'quick' and i % 3:
                continue
            # the entry cell refers to the lookup through one more cell (dependency chain)
            placed = [('S', 9, 5, f, None, None, size, ''),
                      ('S', 10, 6, '=I5', exp, key, size, f'entry point J6 = I5 = {f}, keys {short(keys)}')]
            jobs.append(job_from(f'entry/{name}/{i}', {'S': [tb]}, placed, entry=['S', 'J', 6]))
    return jobs


def _override_jobs(tier, rng):
    jobs = []
    scen = 'override'
    for name, keys in (SMALL_COLUMNS[0], SMALL_COLUMNS[2], SMALL_COLUMNS[9], SMALL_COLUMNS[3]):
        n0 = len(keys)
        tb = Table('S', 1, 1, keys + [None] * 14, 3, 'o')      # the range extends 14 blank rows below the data,
        for j in (1, 2):                                       # the last ones lie beyond the used range of the sheet
            for i in range(n0, n0 + 14):
                tb.cols[j][i] = None
        is_num = kind(keys[0]) == 'num'
        # the formula texts are fixed at translation time; the lookup value is the cell AZ300 (blank, far beyond the
        # used range); a probe with both clauses yields every formula shape
        probe = lookup_formulas(tb, keys[0], 'AZ300', scen, rich=False, keys=[keys[0]] * len(tb.keys))
        texts = list(dict.fromkeys(f for f, _, _, _ in probe))
        pos = {f: 1 + i for i, f in enumerate(texts)}
        job = job_from(f'override/{name}', {'S': [tb]}, [('S', 6, pos[f], f, None, None, 0, '') for f in texts])
        if is_num:
            hi = max(keys)
            steps = [
                ([('L', keys[1])], 'lookup cell overridden'),
                ([('L', float(keys[1]) if isinstance(keys[1], int) else keys[1] + 0.25)], 'lookup cell overridden again'),
                ([('L', hi + 100)], 'lookup above every key, blank rows below the data'),
                ([('K', n0, hi + 5), ('P', n0, 'new6'), ('L', hi + 5)], 'blank row of the range filled by override'),
                ([('K', n0 + 1, hi + 5), ('P', n0 + 1, 'dup7'), ('L', hi + 5)], 'duplicate of the new key added below'),
                ([('L', hi + 7.5)], 'lookup above every key incl. the overridden ones'),
                ([('K', n0 + 12, hi + 20), ('P', n0 + 12, 'far'), ('L', hi + 20)],
                 'row of the range beyond the used range of the sheet filled by override'),
                ([('K', 1, keys[1] + 0.5), ('L', keys[1] + 0.5)], 'existing key replaced by a fraction'),
                ([('L', keys[1])], 'old key value looked up after it was replaced'),
                ([('K', 0, None), ('L', keys[0])], 'first key blanked by override'),
                ([('K', 0, keys[0]), ('K', 0, None), ('K', 0, keys[0] - 1), ('L', keys[0] - 1)],
                 'three overrides of one cell in one call: the last wins'),
                ([('L', keys[0] - 2)], 'lookup below every key'),
            ]
        else:
            steps = [
                ([('L', keys[1])], 'lookup cell overridden'),
                ([('L', 'zzzz')], 'lookup above every key, blank rows below the data'),
                ([('K', n0, 'zebra'), ('P', n0, 'new6'), ('L', 'zebra')], 'blank row of the range filled by override'),
                ([('K', n0 + 12, 'zoo'), ('P', n0 + 12, 'far'), ('L', 'zoo')],
                 'row of the range beyond the used range of the sheet filled by override'),
                ([('K', 1, 'avocado'), ('L', 'avocado')], 'existing key replaced'),
                ([('L', keys[1])], 'old key value looked up after it was replaced'),
                ([('K', 0, None), ('L', keys[0])], 'first key blanked by override'),
                ([('K', 0, 7), ('L', 'aaa')], 'first key replaced by a number; lookup below every key'),
            ]
        state = list(tb.keys)
        cur_v = None
        for sets, note in steps:
            enc_sets = []
            for s in sets:
                if s[0] == 'L':
                    cur_v = s[1]
                    enc_sets.append(['S', 'AZ', 300, codec.enc(cur_v)])
                elif s[0] == 'K':
                    state[s[1]] = s[2]
                    enc_sets.append(['S', 'A', 1 + s[1], codec.enc(s[2]) if s[2] is not None else {'$e': 1}])
                else:
                    tb.cols[1][s[1]] = s[2]
                    enc_sets.append(['S', 'B', 1 + s[1], codec.enc(s[2])])
            snapshot = Table('S', 1, 1, list(state), 3, 'o')
            snapshot.cols = [list(state)] + [list(c) for c in tb.cols[1:]]
            reads = []
            for f, exp, key, size in lookup_formulas(snapshot, cur_v, 'AZ300', scen, rich=False):
                if f in pos:
                    reads.append(['S', 'F', pos[f], codec.enc(exp) if exp is not None else {'$e': 1}, key,
                                  f'override/{name}: {f} with AZ300={cur_v!r}, keys now {short(state)} ({note})',
                                  len(state) + 50, size[1]])
            job['rounds'].append({'set': enc_sets, 'reads': reads})
        jobs.append(job)
    return jobs


def _parser_reuse(fails):
    """one Parser object translating two workbooks with the same layout and different tables, then an entry point"""
    from excel2pycl import Parser, Executor, Cell
    import os
    n = 0
    with lib.scratch() as d:
        parser = Parser()
        datasets = [([10, 20, 30], 'first'), ([20, 30, 10], 'second'), ([5, 20, 20], 'third')]
        ex = Executor()
        for step, (keys, tag) in enumerate(datasets):
            tb = Table('S', 1, 1, keys, 3, tag)
            fs = lookup_formulas(tb, 20, '20', 'parser_reuse', rich=False)
            cells = tb.cells() + [[6, 1 + i, f] for i, (f, _, _, _) in enumerate(fs)]
            path = os.path.join(d, f'wb{step}.xlsx')
            lib.write_workbook({'sheets': [{'title': 'S', 'cells': cells}]}, path)
            parser.set_excel_file_path(path)
            if step == 2:
                parser.set_entrypoint_cell(Cell('S', 'F', '1'))
            text = lib.call_catch(parser.get_translation)
            if isinstance(text, codec.Raised):
                fails.append({'key': 'C14.pipe.parser_reuse.translate', 'size': 0,
                              'what': f're-used Parser, workbook {step}: {text!r}', 'replay': {'kind': 'parser_reuse'}})
                return n
            cls = lib.load_class_from_text(text)
            ex.set_executed_class(class_object=cls)
            for i, (f, exp, key, size) in enumerate(fs):
                if step == 2 and i > 0:
                    break
                got = lib.call_catch(ex.get_cell, Cell('S', 'F', str(1 + i)))
                got = got if isinstance(got, codec.Raised) else got.value
                n += 1
                if not strict_same(got, exp, cls.EmptyCell):
                    fails.append({'key': key, 'size': 3, 'meta': size[1],
                                  'what': f're-used Parser/Executor, workbook {step} keys {keys}: {f} -> {got!r}, expected {exp!r}',
                                  'replay': {'kind': 'parser_reuse'}})
    return n


HELPER_MODE = {'exact': 'exact', 'exact_default': 'exact', 'exact_from_end': 'exact_from_end', 'approx': 'approx',
               'approx_default': 'approx'}


def _attribute(fails):
    """A pipeline failure whose input also fails when given directly to the emitted runtime helper has its root cause in
    the helper: it is re-keyed to the helper key (minimised input), so that one defect is reported once and not once per
    scenario.  Everything else keeps the pipeline key C14.pipe.<fn>.<mode>.<feature>.<scenario>."""
    cls = lib.get_class('runtime')
    inst, Empty = cls(), cls.EmptyCell
    budget = 40
    for f in fails:
        meta = f.pop('meta', None)
        parts = f['key'].split('.')
        if not meta or len(parts) < 5 or parts[1] != 'pipe':
            continue
        fn, mode = parts[2], HELPER_MODE.get(parts[3])
        if fn == 'index_match':
            fn, mode = 'match', 'exact'
        if mode is None:
            continue
        keys, v = meta['keys'], meta['v']
        if _helper_fails(inst, Empty, keys, v, fn, mode):
            budget -= 1
            mk = _minimise(inst, Empty, keys, v, fn, mode) if (len(keys) <= 200 and budget > 0) else keys
            f['key'] = f'C14.{fn}.{mode}.{feature(mk, v)}'
            f['what'] += f'  [root cause in the helper: _{fn} fails on lookup {v!r} in {short(mk)}]'


def _check_tables(tier, seed):
    t0 = time.time()
    jobs = _table_jobs(tier, seed)
    n, fails = run_jobs(jobs)
    n += _parser_reuse(fails)
    fails.sort(key=lambda f: f.get('size', 0))
    _attribute(fails)
    nform = sum(len(r['reads']) for j in jobs for r in j['rounds'])
    return {'name': 'C14.monitor.pipeline_tables',
            'bound': f'{len(jobs)} workbooks through Parser -> generated class -> Executor: {len(SMALL_COLUMNS)} planted key '
                     'columns (ascending, duplicates, unsorted, int/float mix, negatives, single row, text header + trailing '
                     'blanks, leading blanks, blank/text/date inside, texts incl. a 60-character one and case variants, '
                     'text column with numbers) x lookup literals (every key in int and float form, between, below, above) x '
                     'VLOOKUP (every result column 1..width, FALSE/0/TRUE/1/omitted), MATCH (0/1/omitted), XMATCH (omitted/0/'
                     '0,1/0,-1), INDEX(MATCH); tables placed at A1, Y98 (Z/AA boundary), ZY99 (ZZ/AAA), XFB1 and Z1000 '
                     '(thorough); tables of 150 and 1100 rows (101..2500 thorough); two sheets holding the same formula text '
                     'and cross-sheet references; override rounds with Executor.set_cells on the lookup cell AZ300 (beyond '
                     'the used range), key cells, blank rows of the range (14, the last ones beyond the used range), repeated '
                     f'overrides; {12 if tier == "quick" else 128} seeded random tables (length 1..12, random placement/width); entry-point translation '
                     'through a dependency; one Parser/Executor re-used for three workbooks',
            'rule': 'one evaluation = the value of one formula cell compared with the independent search over the planted '
                    '(or overridden) table; formulas whose input has no clause are not generated',
            'exhaustive': False, 'evaluations': n, 'distinct_nontrivial': nform,
            'failures': dedupe(fails), 'seconds': time.time() - t0,
            'samples': [{'formula': '=VLOOKUP(25.0,A1:D7,4,TRUE)', 'keys': [10, 20, 20, 20, 30, 30, 40], 'expected_row': 4},
                        {'formula': "=XMATCH(10,'T 2'!A1:A6,0,-1)", 'keys': [20, 30, 10, 40, 10, 30], 'expected': 5}]}


# ------------------------------------------------------------------ INDEX
def _area(R, C, salt=0):
    a = []
    for r in range(R):
        row = []
        for c in range(C):
            x = (r + 1) * 100 + (c + 1) + salt
            row.append(f't{x}' if (r + c) % 5 == 3 else (x + 0.5 if (r * 7 + c) % 11 == 4 else x))
        a.append(row)
    return a


def _index_expected(area, r, c):
    R, C = len(area), len(area[0])
    if 1 <= r <= R and 1 <= c <= C:
        return area[r - 1][c - 1]
    return REF


def _check_index(tier, seed):
    t0 = time.time()
    fails, n = [], 0
    shapes = [(R, C) for R in range(1, 6) for C in range(1, 6)] + [(120, 3), (101, 1), (1, 30), (1001, 2), (2, 101)]
    for which in ('runtime', 'abstract'):
        cls = lib.get_class(which)
        inst, Empty = cls(), cls.EmptyCell
        for (R, C) in shapes:
            area = _area(R, C)
            if R * C > 1:
                area[R - 1][C - 1] = None
            conv = [[Empty() if x is None else x for x in row] for row in area]
            rs = range(1, R + 3) if R <= 120 else [1, 2, 100, 101, 999, 1000, R - 1, R, R + 1, R + 2]
            cs = range(1, C + 3)
            for r in rs:
                for c in cs:
                    exp = _index_expected(area, r, c)
                    got = lib.call_catch(inst._index, conv, r, c, 1)
                    n += 1
                    if not strict_same(got, exp, Empty):
                        kind_ = 'outside' if exp == REF else 'inside'
                        fails.append({'key': f'C14.index.helper.{kind_}', 'size': R * C,
                                      'what': f'{which}._index({R}x{C} area, {r}, {c}, 1) -> {got!r}, expected '
                                              f'{"blank" if exp is None else repr(exp)}',
                                      'replay': {'kind': 'index_helper', 'which': which, 'R': R, 'C': C, 'r': r, 'c': c}})
            # two-argument form on vectors
            if R == 1 or C == 1:
                for i in range(1, max(R, C) + 2):
                    exp = _index_expected(area, i if C == 1 else 1, 1 if C == 1 else i)
                    got = lib.call_catch(inst._index, conv, i, None, 1)
                    n += 1
                    if not strict_same(got, exp, Empty):
                        fails.append({'key': 'C14.index.helper.vector_two_args', 'size': R * C,
                                      'what': f'{which}._index({R}x{C} vector, {i}, None, 1) -> {got!r}, expected {exp!r}',
                                      'replay': {'kind': 'index_helper', 'which': which, 'R': R, 'C': C, 'r': i, 'c': None}})
    # pipeline
    jobs = []

    def area_cells(area, c0, r0):
        return [[c0 + j, r0 + i, codec.enc(x)] for i, row in enumerate(area) for j, x in enumerate(row) if x is not None]

    def ref(c0, r0, R, C, qual=''):
        return f'{qual}{L(c0)}{r0}:{L(c0 + C - 1)}{r0 + R - 1}'
    # (a) literal r, c: every pair incl. one beyond each edge, for several shapes and placements
    lit_shapes = [(3, 4, 2, 2), (1, 5, 3, 7), (6, 1, 4, 1), (2, 2, 26, 99), (1, 1, 5, 5), (4, 3, 701, 1)]
    if tier == 'thorough':
        lit_shapes += [(5, 5, 1, 1), (3, 2, 16383, 1), (2, 3, 2, 1000)]
    for si, (R, C, c0, r0) in enumerate(lit_shapes):
        area = _area(R, C, salt=si)
        if R * C > 2:
            area[R - 1][0] = None
        cells = area_cells(area, c0, r0)
        wide = c0 + C + 2 > 16384            # area in the last columns: keep the used range low, formulas in a 3-row band

        def spot(i):
            return (c0 - 2 - i // 3, 1 + i % 3) if wide else (c0 + C + 2, 1 + i)
        reads, i = [], 0
        for r in range(1, R + 3):
            for c in range(1, C + 3):
                exp = _index_expected(area, r, c)
                f = f'=INDEX({ref(c0, r0, R, C)},{r},{c})'
                fc, row = spot(i)
                i += 1
                cells.append([fc, row, f])
                reads.append(['I', L(fc), row, codec.enc(exp) if exp is not None else {'$e': 1},
                              f'C14.pipe.index.{"outside" if exp == REF else "inside"}',
                              f'{f} on a {R}x{C} area at {L(c0)}{r0}', R * C])
        if R == 1 or C == 1:
            for k in range(1, max(R, C) + 1):
                exp = _index_expected(area, k if C == 1 else 1, 1 if C == 1 else k)
                f = f'=INDEX({ref(c0, r0, R, C)},{k})'
                fc, row = spot(i)
                i += 1
                cells.append([fc, row, f])
                reads.append(['I', L(fc), row, codec.enc(exp) if exp is not None else {'$e': 1},
                              'C14.pipe.index.vector_two_args', f'{f} on a {R}x{C} vector at {L(c0)}{r0}', R * C])
        jobs.append({'name': f'index_lit{si}', 'sheets': [{'title': 'I', 'cells': cells}], 'entry': None,
                     'rounds': [{'set': [], 'reads': reads}]})
    # (b) large areas: r, c supplied by overrides of two cells -> ALL pairs; plus literal edge formulas
    big = [(120, 3, 3, 5), (150, 2, 27, 90)] + ([(1010, 2, 2, 1), (300, 4, 700, 2)] if tier == 'thorough' else [(1010, 2, 2, 1)])
    for bi, (R, C, c0, r0) in enumerate(big):
        area = _area(R, C, salt=50 + bi)
        cells = area_cells(area, c0, r0)
        fcol = c0 + C + 1
        A = ref(c0, r0, R, C)
        cells.append([fcol, 1, f'=INDEX({A},{L(fcol + 1)}1,{L(fcol + 1)}2)'])
        rounds = [{'set': [], 'reads': []}]
        row = 3
        for r in sorted({1, 2, 99, 100, 101, 102, 999, 1000, 1001, R - 1, R, R + 1, R + 100}):
            for c in (1, C, C + 1):
                if r < 1:
                    continue
                exp = _index_expected(area, r, c)
                f = f'=INDEX({A},{r},{c})'
                cells.append([fcol, row, f])
                rounds[0]['reads'].append(['I', L(fcol), row, codec.enc(exp), f'C14.pipe.index.{"outside" if exp == REF else "inside"}.large',
                                           f'{f} on a {R}x{C} area at {L(c0)}{r0}', R * C])
                row += 1
        rs = range(1, R + 2) if (R <= 200 or tier == 'thorough') else sorted(set(range(1, R + 2, 7)) | {99, 100, 101, 999, 1000, 1001, R - 1, R, R + 1})
        for r in rs:
            for c in range(1, C + 2):
                exp = _index_expected(area, r, c)
                rounds.append({'set': [['I', L(fcol + 1), 1, r], ['I', L(fcol + 1), 2, c]],
                               'reads': [['I', L(fcol), 1, codec.enc(exp), f'C14.pipe.index.{"outside" if exp == REF else "inside"}.override',
                                          f'=INDEX({A},r,c) with r={r}, c={c} set by override, {R}x{C} area at {L(c0)}{r0}', R * C]]})
        jobs.append({'name': f'index_big{bi}', 'sheets': [{'title': 'I', 'cells': cells}], 'entry': None, 'rounds': rounds})
    # (c) INDEX o MATCH: partner of every key; two-dimensional form; other sheet; several areas
    keys = [30, 10, 40, 10, 2.5, 20, 'k', 'K2']
    tb = Table('S', 2, 3, keys, 4, 'm')
    cells, reads, row, other = tb.cells(), [], 1, []
    for k in keys + [10.0, 40.0]:
        e = exact_row(keys, k)
        for j in (2, 3, 4):
            f = f'=INDEX({tb.rng(j, j)},MATCH({lit(k)},{tb.rng(1, 1)},0))'
            cells.append([9, row, f])
            exp = tb.at(e, j)
            reads.append(['S', 'I', row, codec.enc(exp) if exp is not None else {'$e': 1}, 'C14.pipe.index_match.partner',
                          f'{f}, keys {keys}', len(keys)])
            row += 1
        f = f'=INDEX({tb.rng(1, 4)},MATCH({lit(k)},{tb.rng(1, 1)},0),4)'
        cells.append([9, row, f])
        exp = tb.at(e, 4)
        reads.append(['S', 'I', row, codec.enc(exp) if exp is not None else {'$e': 1}, 'C14.pipe.index_match.partner_2d',
                      f'{f}, keys {keys}', len(keys)])
        row += 1
        f = f"=INDEX(S!{tb.rng(2, 2)},MATCH({lit(k)},S!{tb.rng(1, 1)},0))"
        other.append([1, row, f])
        reads.append(['Other', 'A', row, codec.enc(tb.at(e, 2)), 'C14.pipe.index_match.other_sheet', f'Other!A{row} {f}, keys {keys}',
                      len(keys)])
        row += 1
    # several areas: INDEX((a1,a2),r,c,k)
    a1, a2 = _area(2, 2, 900), _area(3, 2, 950)
    cells += area_cells(a1, 12, 1) + area_cells(a2, 13, 4)
    for k, ar in ((1, a1), (2, a2)):
        for r in range(1, 5):
            for c in range(1, 4):
                exp = _index_expected(ar, r, c)
                f = f'=INDEX((L1:M2,M4:N6),{r},{c},{k})'
                cells.append([16, row, f])
                reads.append(['S', 'P', row, codec.enc(exp), f'C14.pipe.index.areas.{"outside" if exp == REF else "inside"}',
                              f'{f}', 6])
                row += 1
    f = '=INDEX((L1:M2,M4:N6),1,1,3)'
    cells.append([16, row, f])
    reads.append(['S', 'P', row, REF, 'C14.pipe.index.areas.outside', f, 6])
    row += 1
    for r, c in ((1, 1), (2, 2), (3, 1)):                      # area number omitted: the first area
        exp = _index_expected(a1, r, c)
        f = f'=INDEX((L1:M2,M4:N6),{r},{c})'
        cells.append([16, row, f])
        reads.append(['S', 'P', row, codec.enc(exp), 'C14.pipe.index.areas.default_area', f, 6])
        row += 1
    jobs.append({'name': 'index_match', 'sheets': [{'title': 'S', 'cells': cells}, {'title': 'Other', 'cells': other}],
                 'entry': None, 'rounds': [{'set': [], 'reads': reads}]})
    pn, pf = run_jobs(jobs)
    fails += pf
    return {'name': 'C14.monitor.index',
            'bound': f'_index of both runtime copies on every area shape 1..5 x 1..5 and 120x3, 101x1, 1x30, 1001x2, 2x101 '
                     'with EVERY (r, c) in 1..R+2 x 1..C+2 (edge rows for 1001), two-argument form on vectors; through the '
                     f'pipeline: {len(lit_shapes)} areas (3x4, 1x5, 6x1, 2x2 at Z99, 1x1, 4x3 at ZY1, ...) with every literal (r, c) '
                     'incl. one and two beyond each edge; areas 120x3, 150x2 (all pairs) and 1010x2 with r, c supplied by '
                     'overrides plus literal edge rows 99..102, 999..1001, R-1..R+1; INDEX(values, MATCH(k, keys, 0)) for '
                     'every key of an unsorted column with duplicates, int/float and text keys, three partner columns, '
                     'two-dimensional form, references to another sheet; INDEX((a1,a2),r,c,k)',
            'rule': 'one evaluation = one INDEX value compared with area[r-1][c-1] or #REF! computed from the planted area; '
                    'r or c < 1 not generated',
            'exhaustive': True, 'evaluations': n + pn, 'distinct_nontrivial': n // 2 + pn,
            'failures': dedupe(fails), 'seconds': time.time() - t0,
            'samples': [{'formula': '=INDEX(B2:E4,3,4)', 'expected': 'element of row 3, column 4'},
                        {'formula': '=INDEX(B2:E4,4,1)', 'expected': REF}]}


# ------------------------------------------------------------------ ADDRESS
ROWS = (1, 1048576)
BOUNDARY_COLS = sorted({1, 2, 25, 26, 27, 28, 51, 52, 53, 77, 78, 79, 676, 677, 678, 701, 702, 703, 704, 727, 728, 729,
                        1352, 1353, 1378, 1379, 1380, 1404, 1405, 16383, 16384, 16382, 9999, 10000, 100, 1000, 1001})


def _address_exp(r, c, t=1):
    letters = COLS[c - 1]
    return {1: f'${letters}${r}', 2: f'{letters}${r}', 3: f'${letters}{r}', 4: f'{letters}{r}'}[t]


def _check_address(tier, seed):
    t0 = time.time()
    fails, n = [], 0
    for which in ('runtime', 'abstract'):
        cls = lib.get_class(which)
        for c in range(1, 16385):
            for r in ROWS:
                got = lib.call_catch(cls._address, r, c)
                n += 1
                if got != _address_exp(r, c) or type(got) is not str:
                    fails.append({'key': 'C14.address.helper.columns', 'size': c,
                                  'what': f'{which}._address({r}, {c}) -> {got!r}, expected {_address_exp(r, c)!r}',
                                  'replay': {'kind': 'address_helper', 'which': which, 'r': r, 'c': c, 't': None}})
            for t in (1, 2, 3, 4):
                got = lib.call_catch(cls._address, 7, c, str(t))
                n += 1
                if got != _address_exp(7, c, t):
                    fails.append({'key': f'C14.address.helper.abs{t}', 'size': c,
                                  'what': f'{which}._address(7, {c}, {str(t)!r}) -> {got!r}, expected {_address_exp(7, c, t)!r}',
                                  'replay': {'kind': 'address_helper', 'which': which, 'r': 7, 'c': c, 't': t}})
    # pipeline: (1) r, c supplied by overrides for all 16384 x 2; (2) literal formulas
    jobs = []
    chunk = 2048
    for lo in range(1, 16385, chunk):
        rounds = [{'set': [], 'reads': []}]
        for c in range(lo, min(lo + chunk, 16385)):
            for r in ROWS:
                rounds.append({'set': [['S', 'A', 1, r], ['S', 'B', 1, c]],
                               'reads': [['S', 'D', 1, _address_exp(r, c), 'C14.pipe.address.override',
                                          f'=ADDRESS(A1,B1) with A1={r}, B1={c} set by override', c]]})
        jobs.append({'name': f'address_ov{lo}', 'sheets': [{'title': 'S', 'cells': [['D', 1, '=ADDRESS(A1,B1)'], ['A', 1, 5], ['B', 1, 5]]}],
                     'entry': None, 'rounds': rounds})
    if tier == 'thorough':
        cols = list(range(1, 16385))
    else:
        cols = sorted(set(BOUNDARY_COLS) | set(range(1, 16385, 29)))
    per = max(1, (len(cols) + NPROC - 1) // NPROC)
    for i in range(0, len(cols), per):
        cells, reads, row = [], [], 1
        for c in cols[i:i + per]:
            for r in (ROWS if (tier == 'thorough' or c in BOUNDARY_COLS) else (ROWS[c % 2],)):
                f = f'=ADDRESS({r},{c})'
                cells.append([3, row, f])
                reads.append(['S', 'C', row, _address_exp(r, c), 'C14.pipe.address.literal', f, c])
                row += 1
            if c in BOUNDARY_COLS:
                for t in (1, 2, 3, 4):
                    f = f'=ADDRESS(12,{c},{t})'
                    cells.append([3, row, f])
                    reads.append(['S', 'C', row, _address_exp(12, c, t), f'C14.pipe.address.abs{t}', f, c])
                    row += 1
        jobs.append({'name': f'address_lit{i}', 'sheets': [{'title': 'S', 'cells': cells}], 'entry': None, 'safety': False,
                     'rounds': [{'set': [], 'reads': reads}]})
    pn, pf = run_jobs(jobs)
    fails += pf
    return {'name': 'C14.monitor.address',
            'bound': '_address(r, c) of both runtime copies for ALL c in 1..16384 x r in {1, 1048576}, and with reference '
                     'types 1..4 for all c (r=7); =ADDRESS(A1,B1) through the pipeline with (r, c) set by overrides for all '
                     f'16384 x 2 pairs; literal =ADDRESS(r,c) formulas for {len(cols)} columns '
                     f'({"all" if tier == "thorough" else "every 29th + 37 boundary columns 26/27/52/53/676..704/16383/16384"}), '
                     'reference types 1..4 at the boundary columns',
            'rule': "one evaluation = one address compared with '$'+letters(c)+'$'+r, letters(c) read from the enumeration "
                    'A..Z, AA..ZZ, AAA..XFD',
            'exhaustive': True, 'evaluations': n + pn, 'distinct_nontrivial': n // 2 + pn,
            'failures': dedupe(fails), 'seconds': time.time() - t0,
            'samples': [{'r': 1, 'c': 702, 'expected': '$ZZ$1'}, {'r': 1048576, 'c': 16384, 'expected': '$XFD$1048576'}]}


# ------------------------------------------------------------------ COLUMN
def _check_column(tier, seed):
    t0 = time.time()
    rng = random.Random(seed + 3)
    jobs = []
    if tier == 'thorough':
        cols = list(range(1, 16385))
    else:
        cols = sorted(set(BOUNDARY_COLS) | set(range(1, 16385, 23)))
    per = max(1, (len(cols) + NPROC - 1) // NPROC)
    for i in range(0, len(cols), per):
        cells, reads, row = [], [], 1
        for c in cols[i:i + per]:
            forms = [f'{L(c)}1']
            if c in BOUNDARY_COLS or tier == 'thorough':
                forms += [f'${L(c)}$7', f'{L(c)}$1048576', f'{L(c)}5:{L(c)}9', f"'T 2'!{L(c)}3", f'T2!{L(c)}101']
            else:
                forms.append(rng.choice([f'${L(c)}$7', f'{L(c)}5:{L(c)}9', f"'T 2'!{L(c)}3", f'{L(c)}1001']))
            for ref in forms:
                f = f'=COLUMN({ref})'
                cells.append([2, row, f])
                reads.append(['S', 'B', row, c, 'C14.pipe.column.reference' + ('.range' if ':' in ref else ''), f, c])
                row += 1
        jobs.append({'name': f'column_ref{i}', 'safety': False,
                     'sheets': [{'title': 'S', 'cells': cells}, {'title': 'T 2', 'cells': [[1, 1, 1]]}, {'title': 'T2', 'cells': [[1, 1, 1]]}],
                     'entry': None, 'rounds': [{'set': [], 'reads': reads}]})
    # COLUMN() of the formula's own cell: same text in many columns / rows / two sheets, inside expressions, through
    # dependencies, as entry point
    own_cols = [1, 2, 3, 25, 26, 27, 28, 52, 53, 256, 257, 702, 703, 704] + ([1379, 16383, 16384] if tier == 'thorough' else [])
    for title_set in (('S',), ('S', 'T 2')):
        sheets, reads = [], []
        for si, title in enumerate(title_set):
            cells = []
            for c in own_cols:
                if si and c == 16384:
                    continue
                c2 = c + si                                    # second sheet: same texts, one column further right
                for r, f, exp in ((1, '=COLUMN()', c2), (2, '=COLUMN()+0', c2), (150, '=COLUMN()', c2),
                                  (3, '=ADDRESS(3,COLUMN())', f'${L(c2)}$3'), (4, f'=COLUMN()*1000+COLUMN({L(c2)}1)', c2 * 1001)):
                    if r == 150 and c > 60:
                        continue
                    cells.append([c2, r, f])
                    reads.append([title, L(c2), r, exp, 'C14.pipe.column.own_cell' + ('.two_sheets' if len(title_set) > 1 else ''),
                                  f'{title}!{L(c2)}{r} {f}', c2])
            sheets.append({'title': title, 'cells': cells})
        jobs.append({'name': f'column_own{len(title_set)}', 'sheets': sheets, 'entry': None,
                     'rounds': [{'set': [], 'reads': reads}]})
    # dependency chains: each COLUMN() belongs to the cell that contains it
    chain = [['A', 5, '=C5+COLUMN()'], ['C', 5, '=COLUMN()'], ['AB', 7, '=COLUMN()+B7'], ['B', 7, '=COLUMN()*10+AA7'],
             ['AA', 7, '=COLUMN()'], ['D', 9, '=COLUMN(F1)+COLUMN()+E9'], ['E', 9, '=COLUMN()']]
    chain_exp = {('A', 5): 4, ('C', 5): 3, ('AB', 7): 28 + 47, ('B', 7): 47, ('AA', 7): 27, ('D', 9): 6 + 4 + 5, ('E', 9): 5}
    jobs.append({'name': 'column_chain', 'sheets': [{'title': 'S', 'cells': chain}], 'entry': None,
                 'rounds': [{'set': [], 'reads': [['S', c, r, exp, 'C14.pipe.column.own_cell.dependency',
                                                   f'{c}{r} in a sheet with {chain}', 5] for (c, r), exp in chain_exp.items()]}]})
    for (c, r) in (('A', 5), ('AB', 7), ('D', 9)):
        jobs.append({'name': f'column_entry{c}{r}', 'sheets': [{'title': 'S', 'cells': chain}], 'entry': ['S', c, r],
                     'rounds': [{'set': [], 'reads': [['S', c, r, chain_exp[(c, r)], 'C14.pipe.column.own_cell.entry_point',
                                                       f'entry point {c}{r} in a sheet with {chain}', 5]]}]})
    # override of a cell that a COLUMN argument names does not change the column number
    jobs.append({'name': 'column_override', 'sheets': [{'title': 'S', 'cells': [['B', 1, '=COLUMN(AZ9)'], ['B', 2, '=COLUMN()'], ['AZ', 9, 3]]}],
                 'entry': None, 'rounds': [{'set': [['S', 'AZ', 9, 7], ['S', 'A', 2, 99]],
                                            'reads': [['S', 'B', 1, 52, 'C14.pipe.column.reference.override', '=COLUMN(AZ9) with AZ9 overridden', 1],
                                                      ['S', 'B', 2, 2, 'C14.pipe.column.own_cell.override', 'B2 =COLUMN() with A2 overridden', 1]]}]})
    # a reference spanning several columns: the number of its first column, also inside a larger formula
    multi = [('F', 3, '=COLUMN(B1:D5)', 2), ('F', 3, '=COLUMN(B1:D5)+1', 3), ('F', 5, '=COLUMN()+COLUMN(B1:D5)', 8),
             ('K', 7, '=1000+COLUMN(C1:D1)', 1003), ('A', 2, '=COLUMN(Y3:AB4)*2', 50)]
    for mi, (c, r, f, exp) in enumerate(multi):
        jobs.append({'name': f'column_multi{mi}', 'sheets': [{'title': 'S', 'cells': [[c, r, f]]}], 'entry': None,
                     'errkey': 'C14.pipe.column.reference.multi_column_range',
                     'rounds': [{'set': [], 'reads': [['S', c, r, exp, 'C14.pipe.column.reference.multi_column_range',
                                                       f'{c}{r} {f} alone in a sheet', 1 + mi]]}]})
    pn, pf = run_jobs(jobs)
    return {'name': 'C14.monitor.column',
            'bound': f'=COLUMN(ref) through the pipeline for {len(cols)} columns '
                     f'({"all 16384" if tier == "thorough" else "every 23rd + boundary columns 26/27/52/53/676..704/16383/16384"}) '
                     "with ref forms X1, $X$7, X$1048576, X5:X9, 'T 2'!X3, T2!X101; =COLUMN() / COLUMN()+0 / ADDRESS(3,COLUMN()) / "
                     f'COLUMN()*1000+COLUMN(X1) planted in columns {own_cols} (rows 1..4, 150) on one sheet and on two sheets '
                     '(same text, shifted columns); three dependency chains in which each cell has its own COLUMN(), whole-file '
                     'and entry-point translation; overrides of the named / a neighbouring cell; 5 formulas with a reference '
                     'spanning several columns (alone and inside arithmetic)',
            'rule': 'one evaluation = the value of one formula cell compared with the column number obtained from the '
                    'enumeration A..XFD (first column for a multi-column reference)',
            'exhaustive': tier == 'thorough', 'evaluations': pn, 'distinct_nontrivial': pn,
            'failures': dedupe(pf), 'seconds': time.time() - t0,
            'samples': [{'formula': '=COLUMN(AAA1)', 'expected': 703}, {'formula': 'AB7 =COLUMN()+B7, B7 =COLUMN()*10+AA7, AA7 =COLUMN()',
                                                                         'expected': 75}]}


# ------------------------------------------------------------------ interface
def run(tier='quick', seed=0):
    checks = [_check_helpers(tier, seed), _check_tables(tier, seed), _check_index(tier, seed), _check_address(tier, seed),
              _check_column(tier, seed)]
    return {'checks': checks}


def replay(payload):
    k = (payload or {}).get('kind')
    if k == 'helper':
        cls = lib.get_class(payload['which'])
        inst, Empty = cls(), cls.EmptyCell
        keys = [codec.dec(x, make_empty=lambda: None) for x in payload['keys']]
        v = codec.dec(payload['v'])
        lines, bad = [], False
        for fn, mode, th, exp in _helper_tests(inst, Empty, keys, v):
            if (fn, mode) != (payload['fn'], payload['mode']):
                continue
            got = lib.call_catch(th)
            ok = strict_same(got, exp, Empty)
            bad = bad or not ok
            lines.append(f'{payload["which"]}._{fn} [{mode}] lookup {v!r} in {keys!r} -> {got!r}; expected {exp!r}')
        return {'fails': bad, 'text': '; '.join(lines) or 'no clause'}
    if k == 'binary':
        cls = lib.get_class(payload['which'])
        inst = cls()
        keys = [codec.dec(x) for x in payload['keys']]
        v = codec.dec(payload['v'])
        e = exact_row(keys, v)
        exp = NA if e is None else e + 1
        sm = 2 if payload['mode'] == 'binary_ascending' else -2
        got = lib.call_catch(inst._xmatch, v, [[x] for x in keys], 0, sm)
        return {'fails': not strict_same(got, exp, cls.EmptyCell), 'text': f'_xmatch({v!r}, {short(keys)}, 0, {sm}) -> {got!r}; expected {exp!r}'}
    if k == 'index_helper':
        cls = lib.get_class(payload['which'])
        inst, Empty = cls(), cls.EmptyCell
        R, C, r, c = payload['R'], payload['C'], payload['r'], payload['c']
        area = _area(R, C)
        if R * C > 1:
            area[R - 1][C - 1] = None
        conv = [[Empty() if x is None else x for x in row] for row in area]
        if c is None:
            exp = _index_expected(area, r if C == 1 else 1, 1 if C == 1 else r)
        else:
            exp = _index_expected(area, r, c)
        got = lib.call_catch(inst._index, conv, r, c, 1)
        return {'fails': not strict_same(got, exp, Empty), 'text': f'_index({R}x{C} area, {r}, {c}, 1) -> {got!r}; expected {exp!r}'}
    if k == 'address_helper':
        cls = lib.get_class(payload['which'])
        r, c, t = payload['r'], payload['c'], payload['t']
        got = lib.call_catch(cls._address, r, c) if t is None else lib.call_catch(cls._address, r, c, str(t))
        exp = _address_exp(r, c, t or 1)
        return {'fails': got != exp, 'text': f'_address({r}, {c}{"" if t is None else ", " + repr(str(t))}) -> {got!r}; expected {exp!r}'}
    if k == 'job':
        res = run_job(payload['job'])
        return {'fails': bool(res['fails']), 'text': '; '.join(f['what'] for f in res['fails']) or
                f'{res["n"]} reads of job {payload["job"].get("name")} agree with the oracle'}
    if k == 'parser_reuse':
        fails = []
        n = _parser_reuse(fails)
        return {'fails': bool(fails), 'text': '; '.join(f['what'] for f in fails) or f'{n} reads agree'}
    return {'fails': False, 'text': 'nothing to replay'}
