"""K4 bounded monitor for C01 (formula operators keep their Excel meaning).  Runs under /venv/bin/python on the real code.

Contract monitored (taken from the property statement, never from the library):
the value `Executor.get_cell` reports for a formula cell equals `spec_eval(formula text)` where spec_eval is the
reference evaluator below: postfix % binds tightest, then unary sign, then * /, then + -, then &, then the six
comparisons, equal levels associate to the left, parentheses group, a numeric literal is the double nearest to its
decimal text, a blank operand is 0 in arithmetic, and operands come from workbook constants or from overrides.

Outside the contract (skipped, not counted; the statement has no clause): arithmetic on text, division by zero,
comparison of operands of different kinds, booleans / blanks under &, numeric-looking texts whose text order and
numeric order differ (C10's region), near-ties of fractional numbers.  The exact spelling of a number joined by &
belongs to C17; a result whose joined numbers have the right values but another spelling is reported under one separate key.

Failure keys
  C01.group.<classes>   wrong value / run-time exception; <classes> = the operator classes (unary pct mul add amp cmp
                        lp rp), in source order, of a MINIMAL failing formula reached from the failing one by
                        deleting operators / replacing sub-expressions by operands (so a new kind of mis-grouping,
                        e.g. mul_add, add_add, lp_add_rp_mul, gets a new key)
  C01.reject.<classes>  the formula is in the grammar but translation (or loading the class) fails
  C01.concat.float_text_form, C01.literal.*, C01.source.*, C01.blank.*   value-level sites
"""
import itertools
import math
import os
import random
import re
import time
import zlib
from fractions import Fraction

from pv import codec
from pv.nat import lib

# =====================================================================================================================
# 1. the specification: tokenizer, parser (precedence table of the statement), evaluator
# =====================================================================================================================
CMPOPS = ('=', '<>', '<', '>', '<=', '>=')
_TOK = re.compile(r'''\s*(?:
    (?P<num>\d+(?:\.\d+)?(?:[eE][+-]?\d+)?)
  | (?P<str>"(?:[^"]|"")*")
  | (?P<bool>TRUE|FALSE)(?![A-Za-z0-9_!])
  | (?P<ref>(?:(?:'(?:[^']|'')+'|[A-Za-z_][A-Za-z0-9_.]*)!)?\$?[A-Z]{1,3}\$?[0-9]+)
  | (?P<opd>@)
  | (?P<op><=|>=|<>|[-+*/&%=<>()])
)''', re.X)


class SpecSyntax(Exception):
    pass


class Out(Exception):
    """the statement has no clause for this (formula, valuation)"""


class _Blank:
    def __repr__(self):
        return 'BLANK'


BLANK = _Blank()


def tokenize(text):
    text = text.strip()
    if text.startswith('='):
        text = text[1:]
    pos, out = 0, []
    while pos < len(text):
        m = _TOK.match(text, pos)
        if not m or m.end() == pos:
            if text[pos:].strip() == '':
                break
            raise SpecSyntax(f'cannot tokenize {text[pos:]!r}')
        out.append((m.lastgroup, m.group(m.lastgroup)))
        pos = m.end()
    return out


def op_class(op):
    return {'*': 'mul', '/': 'mul', '+': 'add', '-': 'add', '&': 'amp'}.get(op, 'cmp')


class _P:
    """Recursive-descent parser that IS the statement's table: cmp < amp < add < mul < unary < pct, left-assoc."""

    def __init__(self, toks):
        self.t, self.i, self.n_opd = toks, 0, 0

    def peek(self):
        return self.t[self.i] if self.i < len(self.t) else (None, None)

    def take(self):
        tok = self.t[self.i]
        self.i += 1
        return tok

    def level(self, k):
        ops = [CMPOPS, ('&',), ('+', '-'), ('*', '/')]
        if k == len(ops):
            return self.unary()
        left = self.level(k + 1)
        while self.peek()[0] == 'op' and self.peek()[1] in ops[k]:
            op = self.take()[1]
            right = self.level(k + 1)
            left = ('bin', op, left, right)
        return left

    def unary(self):
        if self.peek() in (('op', '+'), ('op', '-')):
            op = self.take()[1]
            return ('un', op, self.unary())
        return self.postfix()

    def postfix(self):
        e = self.atom()
        while self.peek() == ('op', '%'):
            self.take()
            e = ('pct', e)
        return e

    def atom(self):
        kind, val = self.peek()
        if kind is None:
            raise SpecSyntax('unexpected end')
        self.take()
        if kind == 'num':
            return ('num', val)
        if kind == 'str':
            return ('str', val[1:-1].replace('""', '"'))
        if kind == 'bool':
            return ('bool', val == 'TRUE')
        if kind == 'opd':
            self.n_opd += 1
            return ('opd', self.n_opd - 1)
        if kind == 'ref':
            sheet = None
            if '!' in val:
                sheet, val = val.rsplit('!', 1)
                if sheet.startswith("'"):
                    sheet = sheet[1:-1].replace("''", "'")
            m = re.fullmatch(r'\$?([A-Z]+)\$?(\d+)', val)
            return ('ref', sheet, m.group(1), int(m.group(2)))
        if (kind, val) == ('op', '('):
            e = self.level(0)
            if self.peek() != ('op', ')'):
                raise SpecSyntax('missing )')
            self.take()
            return ('par', e)
        raise SpecSyntax(f'unexpected {val!r}')


def parse(text):
    p = _P(tokenize(text))
    tree = p.level(0)
    if p.i != len(p.t):
        raise SpecSyntax(f'trailing {p.t[p.i:]!r}')
    return tree


def render(tree):
    """text of a tree exactly as written (brackets only where the tree has a 'par' node)"""
    k = tree[0]
    if k == 'opd':
        return '@'
    if k == 'num':
        return tree[1]
    if k == 'str':
        return '"' + tree[1].replace('"', '""') + '"'
    if k == 'bool':
        return 'TRUE' if tree[1] else 'FALSE'
    if k == 'ref':
        return (f"'{tree[1]}'!" if tree[1] else '') + f'{tree[2]}{tree[3]}'
    if k == 'par':
        return '(' + render(tree[1]) + ')'
    if k == 'un':
        return tree[1] + render(tree[2])
    if k == 'pct':
        return render(tree[1]) + '%'
    return render(tree[2]) + tree[1] + render(tree[3])


class Num:
    """a number: exact rational value and the largest magnitude met on the way (scale of the tolerance)"""
    __slots__ = ('fr', 'mag', 'fl')

    def __init__(self, fr, mag=None, fl=None):
        self.fr = fr
        self.mag = max(abs(fr), mag or 0)
        # shadow value in double arithmetic (what a straightforward evaluation in doubles gives): only used to recognise
        # comparisons whose outcome depends on double rounding (no clause: C10 speaks of the given doubles, Excel of 15 digits)
        try:
            self.fl = float(fr) if fl is None else fl
        except OverflowError:
            self.fl = math.inf if fr > 0 else -math.inf

    def __repr__(self):
        return f'Num({float(self.fr)!r})'


class Cat(list):
    """result of & in 'parts' mode: the joined pieces in order, texts as str, numbers as Num (their exact text form
    is C17's business, so a number piece is later matched by value)"""


def lift(v):
    """Python cell value -> spec value"""
    if v is BLANK or v is None:
        return BLANK
    if isinstance(v, (bool, str)):
        return v
    if isinstance(v, (int, float)):
        return Num(Fraction(v))
    raise Out('operand kind')


def as_num(v):
    if isinstance(v, Num):
        return v
    if isinstance(v, bool):
        return Num(Fraction(int(v)))
    if v is BLANK:
        return Num(Fraction(0))               # "a blank operand counts as 0 in arithmetic"
    raise Out('arithmetic on text')


def text_form(v):
    """Excel's text form of an & operand (whole numbers without a fraction, others with 15 significant digits)"""
    if isinstance(v, Cat):
        return ''.join(text_form(x) for x in v)
    if isinstance(v, str):
        return v
    if isinstance(v, Num):
        if v.fr.denominator == 1:
            if abs(v.fr) >= 10 ** 15:
                raise Out('text form of a huge number')
            return str(int(v.fr))
        s = '%.15g' % float(v.fr)
        if 'e' in s or 'inf' in s:
            raise Out('text form in scientific notation')
        return s
    raise Out('text form of a boolean / blank (C17)')


def _numeric_text(s):
    try:
        return Fraction(s.strip()) if s.strip() else None
    except (ValueError, ZeroDivisionError):
        return None


def compare(op, a, b):
    if isinstance(a, Cat):
        a = text_form(a)
    if isinstance(b, Cat):
        b = text_form(b)

    def kind(v):
        return 'num' if isinstance(v, Num) else 'bool' if isinstance(v, bool) else 'text' if isinstance(v, str) else 'blank'
    ka, kb = kind(a), kind(b)
    if 'blank' in (ka, kb):
        other, ko = (b, kb) if ka == 'blank' else (a, ka)
        if ko == 'blank':
            x, y = 0, 0
        elif ko == 'num':
            if other.fr < 0:
                raise Out('blank against a negative number')
            x, y = (Fraction(0), other.fr) if ka == 'blank' else (other.fr, Fraction(0))
        elif ko == 'text':
            if _numeric_text(other) is not None:
                # the runtime compares a numeric-looking text as a number (pinned test test_compare_str_as_number); the
                # text clauses of C10 are stated for texts that neither int() nor float() accepts - same convention here
                raise Out('blank against a numeric-looking text (C10)')
            x, y = ('', other) if ka == 'blank' else (other, '')
        else:
            raise Out('blank against a boolean')
    elif ka != kb:
        raise Out('operands of different kinds')
    elif ka == 'num':
        x, y = a.fr, b.fr
        if x != y and abs(x - y) <= Fraction(1, 10 ** 9) * max(a.mag, b.mag, 1):
            raise Out('near tie')
        if (x == y) != (a.fl == b.fl) or (x < y) != (a.fl < b.fl):
            raise Out('the outcome depends on double rounding (an exact tie that doubles do not reproduce)')
    elif ka == 'bool':
        x, y = int(a), int(b)
    else:
        x, y = a.casefold(), b.casefold()
        if x == y and a != b:
            raise Out('texts differing in case only')
        na, nb = _numeric_text(a), _numeric_text(b)
        if na is not None and nb is not None and ((na < nb) != (x < y) or (na == nb) != (x == y)):
            raise Out('numeric-looking texts (C10)')
    return {'=': x == y, '<>': x != y, '<': x < y, '>': x > y, '<=': x <= y, '>=': x >= y}[op]


def spec_eval(tree, opd=None, env=None, sheet=None, mode='excel'):
    """value Excel defines for the tree; opd = values of the @ placeholders, env = {(sheet, col, row): value};
    mode 'parts' keeps the pieces of a concatenation apart (Cat) instead of joining their Excel text forms"""
    k = tree[0]
    if k == 'opd':
        return lift(opd[tree[1]])
    if k == 'num':
        return Num(Fraction(float(tree[1])))          # the double nearest to the decimal text
    if k == 'str':
        return tree[1]
    if k == 'bool':
        return tree[1]
    if k == 'ref':
        return lift((env or {}).get((tree[1] if tree[1] is not None else sheet, tree[2], tree[3]), BLANK))
    if k == 'par':
        return spec_eval(tree[1], opd, env, sheet, mode)
    if k == 'un':
        v = spec_eval(tree[2], opd, env, sheet, mode)
        if isinstance(v, Cat):
            raise Out('arithmetic on text')
        v = as_num(v)
        return Num(-v.fr, v.mag, -v.fl) if tree[1] == '-' else Num(v.fr, v.mag, v.fl)
    if k == 'pct':
        v = spec_eval(tree[1], opd, env, sheet, mode)
        if isinstance(v, Cat):
            raise Out('arithmetic on text')
        v = as_num(v)
        return Num(v.fr / 100, v.mag, v.fl / 100)     # C16: x/100 (to 15 significant digits; inside the tolerance)
    op = tree[1]
    a = spec_eval(tree[2], opd, env, sheet, mode)
    b = spec_eval(tree[3], opd, env, sheet, mode)
    if op in ('+', '-', '*', '/'):
        if isinstance(a, Cat) or isinstance(b, Cat):
            raise Out('arithmetic on text')
        a, b = as_num(a), as_num(b)
        if op == '/' and b.fr == 0:
            raise Out('division by zero')
        fr = a.fr + b.fr if op == '+' else a.fr - b.fr if op == '-' else a.fr * b.fr if op == '*' else a.fr / b.fr
        try:
            fl = a.fl + b.fl if op == '+' else a.fl - b.fl if op == '-' else a.fl * b.fl if op == '*' else a.fl / b.fl
        except (ZeroDivisionError, OverflowError):
            fl = None
        return Num(fr, max(a.mag, b.mag), fl)
    if op == '&':
        if mode == 'parts':
            out = Cat()
            for v in (a, b):
                text_form(v)                          # raises Out for booleans / blanks / huge numbers
                out.extend(v if isinstance(v, Cat) else [v])
            return out
        return text_form(a) + text_form(b)
    return compare(op, a, b)


TOL = Fraction(1, 10 ** 12)


def agrees(obs, exp):
    """does the observed Python value equal the specified value"""
    if isinstance(obs, codec.Raised):
        return False
    if isinstance(exp, bool):
        return isinstance(obs, bool) and obs == exp
    if isinstance(exp, str):
        return isinstance(obs, str) and obs == exp
    if exp is BLANK:
        exp = Num(Fraction(0))
    if isinstance(obs, (int, float)):
        if isinstance(obs, float) and (math.isnan(obs) or math.isinf(obs)):
            return False
        return abs(Fraction(obs) - exp.fr) <= TOL * max(1, exp.mag)
    return False


_NUMTXT = re.compile(r'-?[0-9]+(?:\.[0-9]+)?(?:[eE][-+]?[0-9]+)?')


def joined_by_value(obs, cat):
    """obs is the concatenation `cat` when every number piece is allowed any decimal spelling of (nearly) its value"""
    if not isinstance(obs, str) or not isinstance(cat, Cat):
        return False

    def match(i, pos):
        if i == len(cat):
            return pos == len(obs)
        piece = cat[i]
        if isinstance(piece, str):
            return obs.startswith(piece, pos) and match(i + 1, pos + len(piece))
        m = _NUMTXT.match(obs, pos)
        if not m:
            return False
        for end in range(m.end(), pos, -1):                 # every prefix that is itself a number spelling
            txt = obs[pos:end]
            if _NUMTXT.fullmatch(txt) and abs(Fraction(txt) - piece.fr) <= TOL * 100 * max(1, piece.mag) and match(i + 1, end):
                return True
        return False
    return match(0, 0)


def verdict(obs, tree, opd=None, env=None, sheet=None):
    """('out', None) | ('ok', exp) | ('textform', exp) | ('bad', exp): textform = right up to the spelling of the
    numbers joined by & (C17's clause, reported under one key)"""
    try:
        exp = spec_eval(tree, opd, env, sheet)
    except Out:
        return 'out', None
    if agrees(obs, exp):
        return 'ok', exp
    if isinstance(exp, str) and isinstance(obs, str):
        try:
            if joined_by_value(obs, spec_eval(tree, opd, env, sheet, mode='parts')):
                return 'textform', exp
        except Out:
            pass
    return 'bad', exp


def show(v):
    if isinstance(v, Num):
        return repr(float(v.fr)) if v.fr.denominator != 1 else str(int(v.fr))
    if v is BLANK:
        return 'blank(0)'
    if isinstance(v, codec.Raised):
        return f'{v.cls}({v.msg[:60]})'
    if isinstance(v, bool):
        return 'TRUE' if v else 'FALSE'
    if type(v).__name__ == 'EmptyCell':
        return 'EmptyCell'
    return repr(v)


# =====================================================================================================================
# 2. formula shapes ('@' = operand): exhaustive enumeration by token count, random sampling, reductions, keys
# =====================================================================================================================
def enumerate_shapes(max_tokens, unary=('-', '+'), binary=('+', '-', '*', '/', '&', '<')):
    """every token sequence of  E := U (bin U)* ; U := sign* P ; P := A %* ; A := @ | ( E )  with <= max_tokens tokens,
    as lists of shapes indexed by token count"""
    E, U, Pp, A = {}, {}, {}, {}
    for n in range(1, max_tokens + 1):
        A[n] = ['@'] if n == 1 else ['(' + e + ')' for e in E.get(n - 2, [])] if n >= 3 else []
        Pp[n] = list(A[n]) + [p + '%' for p in Pp.get(n - 1, [])]
        U[n] = list(Pp[n]) + [s + u for s in unary for u in U.get(n - 1, [])]
        E[n] = list(U[n])
        for k in range(1, n - 1):
            for u in U[k]:
                for op in binary:
                    for e in E.get(n - k - 1, []):
                        E[n].append(u + op + e)
    return E


def count_tokens(shape):
    return len(tokenize(shape))


def random_shape(rng, lo, hi, max_opd=8):
    binary = ['+', '-', '*', '/', '&'] * 2 + list(CMPOPS)

    def g_e(depth):
        parts = [g_u(depth)]
        while rng.random() < (0.62 if depth == 0 else 0.5):
            parts.append(rng.choice(binary))
            parts.append(g_u(depth))
        return ''.join(parts)

    def g_u(depth):
        s = ''
        while rng.random() < 0.22:
            s += rng.choice('--+')
        return s + g_p(depth)

    def g_p(depth):
        s = g_a(depth)
        while rng.random() < 0.14:
            s += '%'
        return s

    def g_a(depth):
        if depth < 3 and rng.random() < 0.25:
            return '(' + g_e(depth + 1) + ')'
        return '@'
    while True:
        s = g_e(0)
        if s.count('@') <= max_opd and lo <= count_tokens(s) <= hi:
            return s


def reductions(shape):
    """strictly smaller formulas obtained by one simplification of the spec tree (sub-expression -> operand, binary
    node -> one child, drop a sign / % / bracket pair); only those whose text re-parses to the intended tree"""
    tree = parse(shape)
    out, seen = [], {shape}

    def variants(t):
        k = t[0]
        if k == 'opd':
            return
        yield ('opd', 0)
        if k == 'par':
            yield t[1]
            for v in variants(t[1]):
                yield ('par', v)
        elif k == 'un':
            yield t[2]
            for v in variants(t[2]):
                yield ('un', t[1], v)
        elif k == 'pct':
            yield t[1]
            for v in variants(t[1]):
                yield ('pct', v)
        else:
            yield t[2]
            yield t[3]
            for v in variants(t[2]):
                yield ('bin', t[1], v, t[3])
            for v in variants(t[3]):
                yield ('bin', t[1], t[2], v)

    def renumber(t, counter):
        if t[0] == 'opd':
            counter[0] += 1
            return ('opd', counter[0] - 1)
        if t[0] == 'par':
            return ('par', renumber(t[1], counter))
        if t[0] == 'un':
            return ('un', t[1], renumber(t[2], counter))
        if t[0] == 'pct':
            return ('pct', renumber(t[1], counter))
        left = renumber(t[2], counter)
        return ('bin', t[1], left, renumber(t[3], counter))
    for v in variants(tree):
        v = renumber(v, [0])
        txt = render(v)
        if txt in seen:
            continue
        seen.add(txt)
        try:
            if parse(txt) == v:
                out.append(txt)
        except SpecSyntax:
            pass
    out.sort(key=lambda s: (len(s), s.count('+'), s))
    return out


def skeleton(shape):
    words, prev = [], None
    for kind, val in tokenize(shape):
        if kind != 'op':
            prev = 'opd'
            continue
        if val == '(':
            w = 'lp'
        elif val == ')':
            w = 'rp'
        elif val == '%':
            w = 'pct'
        elif val in '+-' and prev not in ('opd', 'rp', 'pct'):
            w = 'unary'
        else:
            w = op_class(val)
        words.append(w)
        prev = 'opd' if w in ('rp', 'pct') else w
    return '_'.join(words) or 'operand'


# =====================================================================================================================
# 3. valuations (inputs only; chosen from the spec tree so that as many formulas as possible are inside the contract)
# =====================================================================================================================
COLS = 'ABCDEFGH'
FCOL = 8                     # formulas live in column I
SHEETS = ['P', 'Q', 'M x', 'B', 'T', 'D', 'E']
_PRIMES = [2, 3, 5, 7, 11, 13, 17, 19]
_INTS2 = [9, 4, 25, 6, 10, 15, 8, 21]
_MIXED = [2.5, -3, 0.123456789012, 7, -1.25, 4, -6, 1234.56789012]
_BLANKS = [BLANK, 3, True, BLANK, 5, False, 2, BLANK]
_DUPS = [7, 7, 3, 3, 7, 7, 3, 3]
_TEXTS = ['ab', 'c', 'abc', 'b', 'ca', 'a', 'bc', 'd']
_OV1 = [6, 10, 15, 4, 5, 25, 21, 8]
_OV2 = [-2.5, 8, 0.25, -7, 1.75, 12, -0.333333333333, 3]
_OV3 = [4, BLANK, 2, 6, BLANK, 1, BLANK, 9]
_TEXTS2 = ['c', 'ab', 'b', 'abc', 'a', 'ca', 'bc', 'e']


def _rot(lst, r, k):
    r %= len(lst)
    return (lst[r:] + lst[:r])[:k]


def _wanted_kinds(tree, k, salt):
    """per operand: 'num' | 'text' | 'bool', so that &-operands are texts/ints, both sides of a comparison have one kind"""
    want = ['num'] * k

    def nat(t):
        while t[0] == 'par':
            t = t[1]
        if t[0] in ('opd', 'ref'):
            return 'free'
        if t[0] == 'bin':
            c = op_class(t[1])
            return 'text' if c == 'amp' else 'bool' if c == 'cmp' else 'num'
        return 'num'

    def walk(t, kind):
        if t[0] == 'opd':
            if kind == 'textnum':
                kind = 'text' if (t[1] + salt) % 3 else 'num'
            want[t[1]] = kind
        elif t[0] == 'par':
            walk(t[1], kind)
        elif t[0] in ('un', 'pct'):
            walk(t[-1], 'num')
        elif t[0] == 'bin':
            c = op_class(t[1])
            if c in ('mul', 'add'):
                walk(t[2], 'num')
                walk(t[3], 'num')
            elif c == 'amp':
                walk(t[2], 'textnum')
                walk(t[3], 'textnum')
            else:
                na, nb = nat(t[2]), nat(t[3])
                if na == 'free' and nb == 'free':
                    na = nb = 'text' if salt % 2 else 'num'
                elif na == 'free':
                    na = nb
                elif nb == 'free':
                    nb = na
                walk(t[2], na)
                walk(t[3], nb)
    walk(tree, 'num')
    return want


def _kinded(want, salt, texts, nums):
    out = []
    for i, w in enumerate(want):
        if w == 'text':
            out.append(texts[(i + salt) % len(texts)])
        elif w == 'bool':
            out.append(bool((i + salt) % 2))
        else:
            out.append(nums[(i + salt) % len(nums)])
    return out


def constants_for(shape, tree, k):
    salt = zlib.crc32(shape.encode())
    return {'P': _PRIMES[:k], 'Q': _rot(_INTS2, salt, k), 'M x': _rot(_MIXED, salt >> 3, k),
            'B': _rot(_BLANKS, salt >> 5, k), 'T': _kinded(_wanted_kinds(tree, k, salt), salt, _TEXTS, _PRIMES),
            'D': _rot(_DUPS, salt >> 7, k), 'E': [4] * k}


def override_rounds(shape, tree, k):
    """[(sheet, {position: value})] applied in this order on one Executor; a later round on the same sheet only
    replaces the positions it names (the earlier overrides of the other positions stay in force)"""
    salt = zlib.crc32(shape.encode())
    want = _wanted_kinds(tree, k, salt + 1)
    r1 = dict(enumerate(_rot(_OV1, salt >> 2, k)))
    r2 = {i: v for i, v in enumerate(_rot(_OV2, salt >> 4, k)) if i % 2 == 0}
    r3 = dict(enumerate(_rot(_OV3, salt >> 6, k)))
    r4 = dict(enumerate(_kinded(want, salt + 1, _TEXTS2, _INTS2)))
    r5 = dict(enumerate(_kinded(_wanted_kinds(tree, k, salt + 2), salt + 2, _TEXTS, _OV1)))
    r6 = dict(enumerate(_kinded(_wanted_kinds(tree, k, salt + 3), salt + 4, _TEXTS2, _PRIMES)))
    return [('P', r1), ('P', r2), ('B', r3), ('T', r4), ('T', r5), ('T', r6), ('Q', {})]


# =====================================================================================================================
# 4. running shapes through the real pipeline (Parser -> generated class -> Executor)
# =====================================================================================================================
def instantiate(shape, row):
    i = [0]

    def sub(_):
        c = COLS[i[0]]
        i[0] += 1
        return f'{c}{row}'
    return '=' + re.sub('@', sub, shape)


def _emitted(text, s, c, r):
    m = re.search(r'def _%d_%d_%d\(self\):\n\s+return (.*)' % (s, c, r), text or '')
    return m.group(1)[:300] if m else None


def _plain(v):
    """JSON-able rendering of an operand value"""
    return 'blank' if v is BLANK else v


def _run_rows(items, rounds=True):
    """items: [(shape, row)] with distinct rows -> {shape: result}; raises _Rejected when translation/loading fails"""
    from excel2pycl import Cell
    if not items:
        return {}
    parsed = {}
    sheets = [{'title': t, 'cells': []} for t in SHEETS]
    for shape, row in items:
        tree = parse(shape)
        k = shape.count('@')
        formula = instantiate(shape, row)
        ftree = parse(formula)
        consts = constants_for(shape, tree, k)
        parsed[shape] = (row, k, formula, ftree, consts, override_rounds(shape, tree, k))
        for si, t in enumerate(SHEETS):
            for j, v in enumerate(consts[t]):
                if v is not BLANK:
                    sheets[si]['cells'].append([j + 1, row, codec.enc(v)])
            sheets[si]['cells'].append([FCOL + 1, row, formula])
    results = {}
    with lib.scratch() as d:
        p = lib.Pipe({'sheets': sheets}, d, safety=False)
        if p.error is not None:
            raise _Rejected(p.error)
        ex = p.executor
        state = {}

        def observe(shape, si, label):
            row, k, formula, ftree, consts, _ = parsed[shape]
            vals = state[(shape, si)]
            env = {(SHEETS[si], COLS[j], row): vals[j] for j in range(k)}
            res = results[shape]
            try:
                spec_eval(ftree, env=env, sheet=SHEETS[si])
            except Out:
                return
            got = lib.call_catch(ex.get_cell, Cell(si, FCOL, row - 1))
            got = got if isinstance(got, codec.Raised) else got.value
            res['evaluations'] += 1
            site, exp = verdict(got, ftree, env=env, sheet=SHEETS[si])
            if site == 'ok':
                return
            if res['status'] in ('ok', 'textform') and (site == 'bad' or res['status'] == 'ok'):
                res['status'] = site
                res['detail'] = {'formula': formula, 'sheet': SHEETS[si], 'mode': label,
                                 'operands': [_plain(v) for v in vals], 'observed': show(got), 'expected': show(exp),
                                 'emitted': _emitted(p.text, si, FCOL, row - 1)}
        for shape in parsed:
            results[shape] = {'status': 'ok', 'evaluations': 0, 'detail': None, 'row': parsed[shape][0]}
            for si, t in enumerate(SHEETS):
                state[(shape, si)] = list(parsed[shape][4][t])
        for si in range(len(SHEETS)):
            for shape in parsed:
                observe(shape, si, 'workbook constants')
        if rounds:
            n_rounds = len(next(iter(parsed.values()))[5])
            for ri in range(n_rounds):
                cells, si = [], None
                for shape, (row, k, formula, ftree, consts, rds) in parsed.items():
                    title, ov = rds[ri]
                    si = SHEETS.index(title)
                    for j, v in ov.items():
                        state[(shape, si)][j] = v
                        cells.append(Cell(si, j, row - 1, p.cls.EmptyCell() if v is BLANK else v))
                if cells:
                    ex.set_cells(cells)
                for shape in parsed:
                    observe(shape, si, f'override round {ri + 1}' if cells else 'constants re-read after overrides elsewhere')
        for shape, res in results.items():
            if res['evaluations'] == 0:
                res['status'] = 'skip'
    return results


class _Rejected(Exception):
    def __init__(self, err):
        self.err = err


def _reject_result(shape, row, err):
    return {shape: {'status': 'reject', 'evaluations': 1, 'row': row,
                    'detail': {'formula': instantiate(shape, row), 'sheet': 'all', 'mode': 'translation', 'operands': [],
                               'observed': f'{err.cls}: {err.msg[:160]}', 'expected': 'a value', 'emitted': None}}}


def run_items(items, rounds=True):
    """like _run_rows, isolating formulas whose translation fails (one bad formula fails the whole workbook)"""
    try:
        return _run_rows(items, rounds)
    except _Rejected as e:
        if len(items) == 1:
            return _reject_result(items[0][0], items[0][1], e.err)
        mid = len(items) // 2
        out = run_items(items[:mid], rounds)
        out.update(run_items(items[mid:], rounds))
        return out


def _hint_rejected(formula, row):
    """Cheap guess (library lexer + tree builder on the text alone) whether the translation of this formula will be
    refused.  It only decides how formulas are grouped into workbooks: a formula guessed to be refused is confirmed
    alone through the real Parser; a wrong guess costs time, never a verdict."""
    try:
        from excel2pycl import Cell
        from excel2pycl.src.lexer import Lexer
        from excel2pycl.src.ast_builder import AstBuilder
        cell = Cell(0, FCOL, row - 1)
        cell._handled_identifiers = True
        AstBuilder.parse(Lexer.parse(formula, in_cell=cell), in_cell=cell)
        return False
    except Exception as e:                                            # noqa
        return 'E2Pycl' in type(e).__name__


def _batch_worker(args):
    try:
        return _batch_worker_(args)
    except StopIteration as e:               # would silently end the parent's iteration over the pool results
        raise RuntimeError('StopIteration in a worker') from e


def _batch_worker_(args):
    shapes, first_row = args
    items = [(s, first_row + i) for i, s in enumerate(shapes)]
    alone = [it for it in items if _hint_rejected(instantiate(*it), it[1])]
    if not alone:
        return run_items(items)
    out = run_items([it for it in items if it not in alone])
    for shape, row in alone:
        with lib.scratch() as d:                     # the real Parser on a workbook holding just this formula
            p = lib.Pipe({'sheets': [{'title': SHEETS[0], 'cells': [[FCOL + 1, row, instantiate(shape, row)]]}]}, d, safety=False)
            err = p.error
        out.update(_reject_result(shape, row, err) if err is not None else run_items([(shape, row)]))
    return out


_POOL = None


def _pool():
    global _POOL
    if _POOL is None:
        import multiprocessing
        import openpyxl                      # noqa: imported before the fork so that the workers inherit the modules
        import excel2pycl                    # noqa
        _POOL = multiprocessing.get_context('fork').Pool(min(16, os.cpu_count() or 1))
    return _POOL


def _close_pool():
    global _POOL
    if _POOL is not None:
        _POOL.close()
        _POOL.join()
        _POOL = None


def _pmap(fn, jobs):
    """unordered parallel map that cannot lose jobs silently (a StopIteration escaping from a worker would end a plain
    `for ... in imap_unordered` without an error)"""
    jobs = list(jobs)
    if len(jobs) <= 1:
        return [fn(j) for j in jobs]
    it = _pool().imap_unordered(fn, jobs)
    out = []
    while True:
        try:
            out.append(next(it))
        except StopIteration:
            break
    if len(out) != len(jobs):
        raise RuntimeError(f'{len(jobs) - len(out)} of {len(jobs)} parallel jobs were lost ({fn.__name__})')
    return out


def run_shapes(shapes, batch=120):
    """{shape: result} for many shapes, 16 processes, `batch` formulas per workbook (rows 1..batch, so rows > 100 occur)"""
    shapes = list(dict.fromkeys(shapes))
    jobs = [(shapes[i:i + batch], 1) for i in range(0, len(shapes), batch)]
    out = {}
    for res in _pmap(_batch_worker, jobs):
        out.update(res)
    return out


# =====================================================================================================================
# 5. classification: one key per minimal failing formula
# =====================================================================================================================
def classify(results, evaluate=run_shapes):
    """results: {shape: result} (extended in place with the reductions that had to be evaluated).
    Returns {shape: key} for every failing shape (status bad / reject)."""
    def kind(s):
        st = results[s]['status']
        return 'bad' if st == 'bad' else 'reject' if st == 'reject' else None
    failing = [s for s in results if kind(s)]
    red_cache, keys = {}, {}
    pending = set(failing)
    while pending:
        need = set()
        for s in list(pending):
            cur, ok = s, True
            while True:
                if cur in keys:
                    break
                if cur not in red_cache:
                    red_cache[cur] = reductions(cur)
                nxt, missing = None, []
                for r in red_cache[cur]:                      # smallest first; only what is needed to find the
                    if r not in results:                      # first failing reduction is evaluated
                        missing.append(r)
                    elif kind(r) == kind(s):
                        nxt = r
                        break
                if missing:
                    need.update(missing)
                    ok = False
                    break
                if nxt is None:
                    sk = skeleton(cur)
                    if kind(s) == 'bad':                      # -+-a and a%%% are one operator class each
                        sk = re.sub(r'(?<![a-z])(unary|pct)(_\1)+(?![a-z])', r'\1', sk)
                    keys[cur] = ('C01.group.' if kind(s) == 'bad' else 'C01.reject.') + sk + '|' + cur
                    break
                cur = nxt
            if ok:
                keys[s] = keys[cur]
                pending.discard(s)
        if need:
            results.update(evaluate(sorted(need)))
    return {s: keys[s] for s in failing}


def hereditarily_ok(shape, results, memo):
    """the formula and everything it reduces to was found right by the grouping sweep (a comparison can hide a wrong
    grouping of its operand, e.g. a<-b+c, because its value is one bit)"""
    if shape not in memo:
        r = results.get(shape)
        memo[shape] = r is not None and r['status'] in ('ok', 'skip', 'textform') and \
            all(hereditarily_ok(x, results, memo) for x in reductions(shape))
    return memo[shape]


def _failures_from(results, keys, limit=25):
    """one failure per key; the witness is the minimal formula itself when it was evaluated"""
    by_key = {}
    for s, full in keys.items():
        key, minimal = full.split('|', 1)
        by_key.setdefault(key, []).append((s != minimal, len(s), s.count('+'), s, minimal))
    fails = []
    for key in sorted(by_key):
        cands = sorted(by_key[key])
        _, _, _, s, minimal = cands[0]
        if minimal in results and results[minimal]['status'] in ('bad', 'reject'):
            s = minimal
        r = results[s]
        d = r['detail']
        what = (f"{d['formula']} [{d['mode']}, sheet {d['sheet']}, operands {d['operands']}] -> {d['observed']}, "
                f"expected {d['expected']}; emitted: {d['emitted']}; {len(cands)} failing formulas reduce to {minimal}")
        fails.append({'key': key, 'what': what, 'replay': {'kind': 'shape', 'shape': s, 'row': r['row']}})
    text = [s for s, r in results.items() if r['status'] == 'textform']
    if text:
        s = min(text, key=lambda x: (len(x), x))
        d = results[s]['detail']
        fails.append({'key': 'C01.concat.float_text_form',
                      'what': f"{d['formula']} [{d['mode']}, sheet {d['sheet']}, operands {d['operands']}] -> {d['observed']}, "
                              f"expected {d['expected']} (grouping right: every joined number has the right value, but not Excel's "
                              f"text form - 15 significant digits, no trailing .0); emitted: {d['emitted']}; {len(text)} formulas",
                      'replay': {'kind': 'shape', 'shape': s, 'row': results[s]['row']}})
    return fails[:limit + 15]


def _summary(results):
    c = {}
    for r in results.values():
        c[r['status']] = c.get(r['status'], 0) + 1
    return c


# =====================================================================================================================
# 6. the checks
# =====================================================================================================================
def check_grouping_exhaustive(max_tokens):
    t0 = time.time()
    E = enumerate_shapes(max_tokens)
    shapes = [s for n in sorted(E) for s in E[n] if s.count('@') <= len(COLS)]
    results = run_shapes(shapes)
    n_scope = len(shapes)
    keys = classify(results)
    scope = {s: results[s] for s in shapes}
    evals = sum(r['evaluations'] for r in scope.values())
    summ = _summary(scope)
    return {'name': 'C01.monitor.grouping_exhaustive',
            'bound': f'every token sequence of the operator grammar (operand, brackets, unary - and +, postfix %, + - * / &, '
                     f'comparison <) with <= {max_tokens} tokens: {n_scope} formulas, operands = distinct cells of the '
                     f'formula\'s row; each on 7 sheets holding the same formula text with different constants (primes; '
                     f'other integers; floats/negatives with 12 digits; blanks and booleans; texts where the formula allows; '
                     f'duplicates; all equal) and '
                     f'after 6 override batches on one re-used Executor (all operands; every second operand with '
                     f'floats/negatives on top; blank<->number swap incl. blank by override; 3 x texts/booleans/integers) plus a re-read of an '
                     f'untouched sheet; 120 formulas per workbook (rows 1..120)',
            'rule': 'one evaluation = one (formula, sheet, constants-or-override-state) whose get_cell value is compared with '
                    'the reference evaluator (numbers within 1e-12 relative to the largest intermediate, texts and booleans '
                    'exactly, kind included); valuations outside the contract (text arithmetic, /0, mixed-kind comparison, '
                    'booleans/blanks under &, near ties) are not counted; distinct = formulas with >= 1 counted evaluation. '
                    f'status of the {n_scope} formulas: {summ}',
            'exhaustive': True, 'evaluations': evals,
            'distinct_nontrivial': sum(1 for r in scope.values() if r['status'] != 'skip'),
            'failures': _failures_from(results, keys),
            'samples': [{'formula': s, 'status': results[s]['status'], 'evaluations': results[s]['evaluations']}
                        for s in ('@+@*@', '-@+@', '@&@<@')if s in results],
            'seconds': time.time() - t0}, results


def check_grouping_sampled(n, lo, hi, seed, known):
    t0 = time.time()
    rng = random.Random(seed * 7919 + 1)
    shapes = []
    seen = set()
    while len(shapes) < n:
        s = random_shape(rng, lo, hi)
        if s not in seen:
            seen.add(s)
            shapes.append(s)
    results = dict(known)
    fresh = run_shapes(shapes)
    results.update(fresh)
    keys = classify(results)
    keys = {s: k for s, k in keys.items() if s in fresh}
    evals = sum(r['evaluations'] for r in fresh.values())
    return {'name': 'C01.monitor.grouping_sampled',
            'bound': f'{n} distinct random formulas of the operator grammar with {lo}..{hi} tokens (all six comparisons, unary '
                     f'+/-, %, brackets nested to depth 3, <= 8 operands), random.Random(seed); same sheets / override '
                     f'batches as the exhaustive check; failing formulas are reduced (evaluating their reductions) to a '
                     f'minimal failing formula for the key',
            'rule': f'as in grouping_exhaustive; status of the sampled formulas: {_summary(fresh)}',
            'exhaustive': False, 'evaluations': evals,
            'distinct_nontrivial': sum(1 for r in fresh.values() if r['status'] != 'skip'),
            'failures': _failures_from(results, keys),
            'samples': [{'formula': s, 'status': fresh[s]['status']} for s in shapes[:3]],
            'seconds': time.time() - t0}, results


def check_comparison_ops(max_tokens, known):
    """all six comparison operators (the exhaustive check uses one representative)"""
    t0 = time.time()
    E = enumerate_shapes(max_tokens, unary=('-',), binary=('+', '*', '&') + CMPOPS)
    shapes = [s for n in sorted(E) for s in E[n] if any(c in s for c in '=<>')]
    pairs = [f'@{a}@{b}@' for a in CMPOPS for b in CMPOPS]
    shapes = list(dict.fromkeys(shapes + pairs))
    results = dict(known)
    fresh = run_shapes([s for s in shapes if s not in results])
    results.update(fresh)
    keys = classify(results)
    scope = {s: results[s] for s in shapes}
    keys = {s: k for s, k in keys.items() if s in scope}
    return {'name': 'C01.monitor.comparison_ops',
            'bound': f'every token sequence with <= {max_tokens} tokens over operand, brackets, unary -, %, + * & and all six '
                     f'comparisons = <> < > <= >= that contains a comparison ({len(shapes)} formulas incl. all 36 chains '
                     f'a op1 b op2 c); sheets / overrides as in grouping_exhaustive (duplicates sheet makes = true)',
            'rule': f'as in grouping_exhaustive; status: {_summary(scope)}',
            'exhaustive': True, 'evaluations': sum(r['evaluations'] for r in scope.values()),
            'distinct_nontrivial': sum(1 for r in scope.values() if r['status'] != 'skip'),
            'failures': _failures_from(results, keys),
            'samples': [{'formula': s, 'status': results[s]['status']} for s in ('@<=@', '@+@>=@', '@<>@&@')],
            'seconds': time.time() - t0}, results


# ---------------------------------------------------------------------------------------------------- literals
GRID_W = 20


def _eval_grid(formulas):
    """values of many formulas laid out 20 per row on one sheet ([[col, row, value]] extra cells allowed through
    the pipeline); a formula whose translation fails is isolated by bisection and yields the Raised"""
    out = {}

    def go(chunk):
        cells = [[i % GRID_W + 1, i // GRID_W + 1, f] for i, f in enumerate(chunk)]
        from excel2pycl import Cell
        with lib.scratch() as d:
            p = lib.Pipe({'sheets': [{'title': 'S', 'cells': cells}]}, d, safety=False)
            if p.error is None:
                for i, f in enumerate(chunk):
                    got = lib.call_catch(p.executor.get_cell, Cell(0, i % GRID_W, i // GRID_W))
                    out[f] = got if isinstance(got, codec.Raised) else got.value
                return
            err = p.error
        if len(chunk) == 1:
            out[chunk[0]] = err
            return
        go(chunk[:len(chunk) // 2])
        go(chunk[len(chunk) // 2:])
    go(list(dict.fromkeys(formulas)))
    return out


def _literal_worker(texts):
    """value of =<text> for every text, through the pipeline"""
    r = _eval_grid(['=' + t for t in texts])
    return {t: r['=' + t] for t in texts}


def _abstract(tree):
    """the shape of a formula: every operand replaced by @"""
    k = tree[0]
    if k in ('num', 'str', 'bool', 'ref', 'opd'):
        return ('opd', 0)
    if k == 'par':
        return ('par', _abstract(tree[1]))
    if k == 'un':
        return ('un', tree[1], _abstract(tree[2]))
    if k == 'pct':
        return ('pct', _abstract(tree[1]))
    return ('bin', tree[1], _abstract(tree[2]), _abstract(tree[3]))


def _literal_expected(text):
    return float(text)        # CPython's correctly rounded conversion = the double nearest to the decimal text


def _literal_ok(text, got):
    if isinstance(got, (codec.Raised, bool)) or not isinstance(got, (int, float)):
        return False
    exp = _literal_expected(text)
    if isinstance(got, int):
        return Fraction(got) == Fraction(exp)
    return got == exp


def _literal_key(text, got):
    if isinstance(got, codec.Raised):
        if re.search(r'E|e\+', text):
            return 'C01.literal.exponent_form_rejected'
        return 'C01.literal.rejected'
    if isinstance(got, int) and not isinstance(got, bool) and abs(got) > 2 ** 53:
        return 'C01.literal.integer_beyond_2p53'
    if 'e' in text.lower():
        return 'C01.literal.exponent_value'
    return 'C01.literal.decimal_value'


def check_literals(tier, seed, known=None):
    t0 = time.time()
    rng = random.Random(seed * 104729 + 3)
    texts = []
    fr2 = [''] + ['.' + ''.join(d) for n in (1, 2) for d in itertools.product('0123456789', repeat=n)]
    for ip in range(200):
        for f in fr2:
            texts.append(f'{ip}{f}')
    if tier == 'thorough':
        for ip in range(200):
            for d in itertools.product('0123456789', repeat=3):
                texts.append(f'{ip}.' + ''.join(d))
    n_exh = len(texts)
    for ip in list(range(21)) + [99, 100, 110, 199]:
        for f in [''] + ['.' + c for c in '0123456789'] + ['.14', '.05', '.55', '.001']:
            for e in range(-3, 4):
                texts.append(f'{ip}{f}e{e}')
    n_samp = 6000 if tier == 'quick' else 150000
    for _ in range(n_samp):
        ip = rng.randrange(3000)
        nd = rng.choice([3, 4, 4, 5])
        t = f'{ip}.' + ''.join(rng.choice('0123456789') for _ in range(nd))
        if rng.random() < 0.2:
            t += f'e{rng.randrange(-3, 4)}'
        texts.append(t)
    specials = ['0.1', '0.2', '0.3', '1.14', '1.1e2', '0.30000000000000004', '0.1234567890123456789', '123456789.123456789',
                '1.7976931348623157e308', '4.9e-324', '2.2250738585072014e-308', '1e22', '1e23', '1e15', '1e16',
                '9007199254740992', '9007199254740993', '123456789012345678', '18014398509481985', '0.000001', '1e-7',
                '00012', '012.50', '5e0', '5e00', '5e-0',
                # the forms Excel itself writes for large / small numbers
                '1E+20', '1.5E+20', '1E-05', '2.5E-07', '1E2', '1.5E2', '1e+2']
    texts += specials
    texts = list(dict.fromkeys(texts))
    chunks = [texts[i:i + 1500] for i in range(0, len(texts), 1500)]
    got = {}
    for res in _pmap(_literal_worker, chunks):
        got.update(res)
    fails, seen = [], {}
    for t in texts:
        if not _literal_ok(t, got[t]):
            k = _literal_key(t, got[t])
            seen.setdefault(k, []).append(t)
    for k in sorted(seen):
        t = min(seen[k], key=lambda x: (len(x), x))
        fails.append({'key': k, 'what': f'={t} -> {show(got[t])}, expected the double {_literal_expected(t)!r} '
                                        f'({len(seen[k])} literals)', 'replay': {'kind': 'literal', 'text': t}})
    # literals inside operator context (lexer adjacency): the value must be the same as with the literal in a cell
    ctx = []
    lits = ['1.14', '2', '0.5', '10', '3e2', '1.5e-1', '7.25']
    for a, b in itertools.product(lits, repeat=2):
        for op in ('+', '-', '*', '/', '&', '<', '>=', '='):
            ctx.append(f'{a}{op}{b}')
        ctx += [f'-{a}+{b}', f'{a}%*{b}', f'{a}-{b}%', f'({a}-{b})*{b}', f'{a}- {b}', f'{a} -{b}', f'{a}--{b}']
    ctx = list(dict.fromkeys(ctx))
    got2 = _literal_worker(ctx)
    n_ctx = 0
    ctx_seen = {}
    known = dict(known or {})
    shape_of = {t: render(_abstract(parse(t))) for t in ctx}
    missing = sorted({sh for sh in shape_of.values() if sh not in known})
    if missing:
        known.update(run_shapes(missing))
    memo = {}
    for t in ctx:
        if not hereditarily_ok(shape_of[t], known, memo):
            continue                                   # this operator mix is already reported by the grouping checks
        tree = parse(t)
        site, exp = verdict(got2[t], tree)
        if site == 'out':
            continue
        n_ctx += 1
        if site == 'bad':
            ctx_seen.setdefault('C01.literal.in_context.' + skeleton(render(_abstract(tree))), []).append(
                (t, show(got2[t]), show(exp)))
    for k in sorted(ctx_seen):
        t, g, e = min(ctx_seen[k], key=lambda x: (len(x[0]), x[0]))
        fails.append({'key': k, 'what': f'={t} -> {g}, expected {e} ({len(ctx_seen[k])} formulas)',
                      'replay': {'kind': 'formula', 'formula': '=' + t}})
    return {'name': 'C01.monitor.literal_value',
            'bound': f'=<literal> for every literal with integer part 0..199 and 0..{3 if tier == "thorough" else 2} '
                     f'fractional digits ({n_exh}, exhaustive); integer parts 0..20,99,100,110,199 x 15 fractions x exponents '
                     f'e-3..e3; {n_samp} sampled literals with integer part < 3000, 3..5 fractional digits, 20% with an '
                     f'exponent; {len(specials)} special forms (0.1+0.2 digits, 17+ digit texts, 2^53+1, extreme exponents, '
                     f'leading zeros, Excel\'s own E+20 / E-05 spelling); {len(ctx)} formulas with two literals around every '
                     f'operator (adjacency with - % e); operator mixes that the grouping checks already report are left out',
            'rule': 'one evaluation = one literal whose get_cell value must equal float(text) exactly (an int result must '
                    'be that same number), or one two-literal formula compared with the reference evaluator',
            'exhaustive': False, 'evaluations': len(texts) + n_ctx, 'distinct_nontrivial': len(texts) + n_ctx,
            'failures': fails[:25], 'samples': [{'literal': t, 'observed': show(got[t])} for t in ('1.14', '1.1e2', '199.99')],
            'seconds': time.time() - t0}


# ---------------------------------------------------------------------------------------------------- blank operands
def check_blank():
    """a blank operand counts as 0 in arithmetic: absent cell inside / outside the used range, blank by override,
    a cell whose constant was overridden by a blank, a blank on another sheet"""
    from excel2pycl import Cell
    t0 = time.time()
    forms = ['B1+{x}', '{x}+B1', 'B1-{x}', '{x}-B1', 'B1*{x}', '{x}*B1', '{x}/B1', '-{x}', '+{x}', '{x}%', 'B1+-{x}', '(-{x})+B1', '{x}%+B1',
             '({x})+B1', '{x}+{x}', '{x}*{x}+B1', 'B1-{x}-{x}', '{x}', '({x})', 'B1+{x}*3', '2*{x}-B1', '{x}-1', '1-{x}',
             'B1*(1-{x})', 'B1*(1+{x}%)']
    blanks = {'inside': 'C2', 'row_gt_100': 'B120', 'beyond_col': 'AB1', 'beyond_row': 'A500', 'far': 'AAA1001',
              'other_sheet_quoted': "'O p'!C7", 'other_sheet_plain': 'Ops!Z99'}
    fails, evals = {}, 0
    cells = [['A', 1, 4], ['B', 1, 7], ['D', 2, 1], ['A', 4, 'x']]
    flist = []
    for name, ref in blanks.items():
        for f in forms:
            flist.append((name, ref, f.replace('{x}', ref)))
    for i, (_, _, f) in enumerate(flist):
        cells.append(['F', i + 1, '=' + f])
    with lib.scratch() as d:
        p = lib.Pipe({'sheets': [{'title': 'S', 'cells': cells}, {'title': 'O p', 'cells': [['A', 1, 1]]},
                                 {'title': 'Ops', 'cells': [['A', 1, 1]]}]}, d)
        if p.error is not None:
            return {'name': 'C01.monitor.blank_operand', 'bound': 'translation', 'rule': '', 'exhaustive': False,
                    'evaluations': 1, 'distinct_nontrivial': 1, 'seconds': time.time() - t0, 'samples': [],
                    'failures': [{'key': 'C01.blank.translate', 'what': f'workbook with blank operands rejected: {p.error!r}',
                                  'replay': {'kind': 'blank'}}]}
        ex = p.executor
        base_env = {('S', 'A', 1): 4, ('S', 'B', 1): 7, ('S', 'D', 2): 1, ('S', 'A', 4): 'x'}

        def sweep(env, label):
            nonlocal evals
            for i, (name, ref, f) in enumerate(flist):
                try:
                    exp = spec_eval(parse(f), env=env, sheet='S')
                except Out:
                    continue
                got = lib.call_catch(ex.get_cell, Cell(0, 5, i))
                got = got if isinstance(got, codec.Raised) else got.value
                evals += 1
                if not agrees(got, exp):
                    fails.setdefault(f'C01.blank.{name}.{label}', []).append(
                        f'={f} [{label}] -> {show(got)}, expected {show(exp)}; emitted: {_emitted(p.text, 0, 5, i)}')
        sweep(base_env, 'absent')
        # blank cells given numbers by override (incl. cells beyond the used range), then made blank again by override
        tree_refs = {n: parse(r) for n, r in blanks.items()}
        ov, env = [], dict(base_env)
        for j, (n, t) in enumerate(tree_refs.items()):
            sheet = t[1] or 'S'
            ov.append(Cell(sheet, t[2], str(t[3]), 3 + j))
            env[(sheet, t[2], t[3])] = 3 + j
        ex.set_cells(ov)
        sweep(env, 'overridden_with_number')
        ov = []
        for n, t in tree_refs.items():
            sheet = t[1] or 'S'
            ov.append(Cell(sheet, t[2], str(t[3]), p.cls.EmptyCell()))
            env[(sheet, t[2], t[3])] = BLANK
        ov.append(Cell('S', 'B', '1', p.cls.EmptyCell()))          # a constant cell made blank by override
        env[('S', 'B', 1)] = BLANK
        ex.set_cells(ov)
        sweep(env, 'blank_by_override')
    out = [{'key': k, 'what': v[0] + f' ({len(v)} formulas)', 'replay': {'kind': 'blank'}} for k, v in sorted(fails.items())]
    return {'name': 'C01.monitor.blank_operand',
            'bound': f'{len(forms)} arithmetic formula forms x 7 blank operand positions (inside the used range, at its edge, '
                     f'beyond its last column, beyond its last row, AAA1001, quoted other sheet, other sheet beyond its range) '
                     f'x 3 states (absent; overridden with a number; blank again through an EmptyCell override, also for a '
                     f'constant cell)',
            'rule': 'one evaluation = one formula in one state compared with the reference evaluator (blank = 0); division '
                    'by a blank is outside the contract',
            'exhaustive': True, 'evaluations': evals, 'distinct_nontrivial': evals, 'failures': out[:25],
            'samples': [{'formula': '=B1+C2', 'blank': 'C2', 'expected': 7}], 'seconds': time.time() - t0}


# ---------------------------------------------------------------------------------------------------- operand sources
_SRC_NUM = ['2', '3.5', '0.25', '7', '10', '1.5', '12', '0.5']
_FARCOLS = ['AB', 'AAA', 'XFD', 'BA']
_SRC_TXT = ['"ab"', '"c"', '"abc"', '"b"', '"ca"', '"a"', '"bc"', '"d"']


def _source_variants(shape):
    """(spec tree, number of operands, salt, wanted kind per operand) of one shape"""
    tree = parse(shape)
    k = shape.count('@')
    salt = zlib.crc32(shape.encode())
    return tree, k, salt, _wanted_kinds(tree, k, salt)


def _source_worker(args):
    """operand sources: literals in the text, absolute references, other sheets, formula cells as operands (then
    overridden), cells beyond the used range + overrides, the same formula text on two sheets"""
    from excel2pycl import Cell
    shapes, tier = args
    fails, evals = {}, 0
    rows = {s: i + 2 for i, s in enumerate(shapes)}
    # sheet S: operands in A..H of the formula's row; formula variants in columns J.. ; sheet 'O p' and Ops hold operands too
    variants = ['literal', 'absolute', 'other_sheet', 'formula_operand', 'beyond']
    vcol = {v: 10 + i for i, v in enumerate(variants)}                  # J K L M N (1-based 10..14)
    s_cells, o_cells, q_cells = [], [], []
    plan = {}
    for shape in shapes:
        tree, k, salt, want = _source_variants(shape)
        row = rows[shape]
        vals = _kinded(want, salt, _TEXTS, _PRIMES)
        for j, v in enumerate(vals):
            s_cells.append([j + 1, row, codec.enc(v)])
            o_cells.append([j + 1, row + 100, codec.enc(v)])            # rows > 100 on the other sheet
        lit_src = ['TRUE' if x is True else 'FALSE' if x is False else x for x in _kinded(want, salt, _SRC_TXT, _SRC_NUM)]
        it = iter(lit_src)
        f_lit = re.sub('@', lambda m: next(it), shape)
        styles = ['${c}${r}', '{c}${r}', '${c}{r}', '{c}{r}']
        it = iter(range(k))
        f_abs = re.sub('@', lambda m: (lambda j: styles[(j + salt) % 4].format(c=COLS[j], r=row))(next(it)), shape)
        it = iter(range(k))
        f_oth = re.sub('@', lambda m: (lambda j: (f"'O p'!{COLS[j]}{row + 100}" if (j + salt) % 2 else f"'O p'!${COLS[j]}${row + 100}"))(next(it)), shape)
        # formula operands: sheet Ops row `row` holds formulas producing the operand values
        fo = []
        for j, v in enumerate(vals):
            if isinstance(v, bool):
                q_cells.append([j + 1, row, '=1=1' if v else '=1=2'])
            elif isinstance(v, str):
                q_cells.append([j + 1, row, f'="{v[:1]}"&"{v[1:]}"'])
            else:
                q_cells.append([j + 1, row, f'={v - 1}+1'])
            fo.append(f'Ops!{COLS[j]}{row}')
        it = iter(fo)
        f_fop = re.sub('@', lambda m: next(it), shape)
        it = iter(range(k))
        f_bey = re.sub('@', lambda m: (lambda j: f'{_FARCOLS[j % 4]}{1000 + 10 * row + j}')(next(it)), shape)
        plan[shape] = {'vals': vals, 'k': k, 'want': want, 'salt': salt,
                       'literal': f_lit, 'absolute': f_abs, 'other_sheet': f_oth, 'formula_operand': f_fop, 'beyond': f_bey}
        for v in variants:
            s_cells.append([vcol[v], row, '=' + plan[shape][v]])
    spec = {'sheets': [{'title': 'S', 'cells': s_cells}, {'title': 'O p', 'cells': o_cells or [['A', 1, 1]]},
                       {'title': 'Ops', 'cells': q_cells or [['A', 1, 1]]}]}

    def record(key, text):
        fails.setdefault(key, []).append(text)

    def run_spec(spec_, shapes_):
        nonlocal evals
        with lib.scratch() as d:
            p = lib.Pipe(spec_, d)
            if p.error is not None:
                raise _Rejected(p.error)
            ex = p.executor
            def val(sheet, c, r):
                got = lib.call_catch(ex.get_cell, Cell(sheet, c, r))
                return got if isinstance(got, codec.Raised) else got.value

            def one(shape, variant, vals_, label):
                nonlocal evals
                row = rows[shape]
                tree_, opd_ = (parse(plan[shape]['literal']), None) if variant == 'literal' else (parse(shape), vals_)
                try:
                    spec_eval(tree_, opd=opd_)
                except Out:
                    return
                got = val(0, vcol[variant] - 1, row - 1)
                evals += 1
                site, exp = verdict(got, tree_, opd=opd_)
                if site == 'bad':
                    record(f'C01.source.{variant}', (shape, f'={plan[shape][variant]} [{label}; operand values {[_plain(v) for v in (vals_ or [])]}] '
                                                     f'-> {show(got)}, expected {show(exp)}; emitted: '
                                                     f'{_emitted(p.text, 0, vcol[variant] - 1, row - 1)}'))
            for shape in shapes_:
                pl = plan[shape]
                one(shape, 'literal', None, 'literals in the text')
                one(shape, 'absolute', pl['vals'], 'constants')
                one(shape, 'other_sheet', pl['vals'], 'constants on a quoted sheet, rows > 100')
                one(shape, 'formula_operand', pl['vals'], 'operands are formula cells')
                one(shape, 'beyond', [BLANK] * pl['k'], 'operands beyond the used range (blank)')
            # overrides: formula operands replaced by constants (their formulas must no longer matter); far cells filled
            ov = []
            newvals = {}
            for shape in shapes_:
                pl = plan[shape]
                row = rows[shape]
                nv = _kinded(pl['want'], pl['salt'] + 1, _TEXTS2, _INTS2)
                newvals[shape] = nv
                for j, v in enumerate(nv):
                    ov.append(Cell('Ops', COLS[j], str(row), v))
                    ov.append(Cell('S', _FARCOLS[j % 4], str(1000 + 10 * row + j), v))
                    ov.append(Cell('O p', j, row + 100 - 1, v))
            ex.set_cells(ov)
            for shape in shapes_:
                one(shape, 'formula_operand', newvals[shape], 'formula operands overridden by constants')
                one(shape, 'beyond', newvals[shape], 'cells beyond the used range overridden')
                one(shape, 'other_sheet', newvals[shape], 'other-sheet operands overridden')
                one(shape, 'absolute', plan[shape]['vals'], 'same-sheet constants after overrides elsewhere')
    pending = [list(shapes)]
    while pending:
        group = pending.pop()
        sub = {'sheets': [{'title': sh['title'], 'cells': [c for c in sh['cells'] if sh['title'] != 'S' or c[0] <= 8
                                                           or any(rows[s] == c[1] for s in group)]} for sh in spec['sheets']]}
        try:
            run_spec(sub, group)
        except _Rejected as e:
            if len(group) == 1:
                evals += 1
                record('C01.source.rejected.' + skeleton(group[0]), (group[0], f'workbook with the source variants of {group[0]} '
                                                                       f'rejected: {e.err.cls}: {e.err.msg[:140]}'))
            else:
                pending.append(group[:len(group) // 2])
                pending.append(group[len(group) // 2:])
    return fails, evals


def _entry_worker(args):
    """entry-point translation (one re-used Parser, set_entrypoint_cell per formula, a second workbook with other
    formulas at the same addresses in between) against the reference evaluator"""
    from excel2pycl import Parser, Executor, Cell
    shapes, = args
    fails, evals = {}, 0
    with lib.scratch() as d:
        books = []
        for b in range(2):
            cells = []
            for i, shape in enumerate(shapes):
                row = i + 1
                sh = shape if b == 0 else shapes[(i + 1) % len(shapes)]
                k = sh.count('@')
                vals = constants_for(sh, parse(sh), k)['P' if b == 0 else 'Q']
                for j, v in enumerate(vals):
                    cells.append([j + 1, row, codec.enc(v)])
                cells.append([FCOL + 1, row, instantiate(sh, row)])
            path = os.path.join(d, f'b{b}.xlsx')
            lib.write_workbook({'sheets': [{'title': 'P', 'cells': cells}]}, path)
            books.append(path)
        parser = Parser()
        for i, shape in enumerate(shapes):
            for b in (0, 1):
                sh = shape if b == 0 else shapes[(i + 1) % len(shapes)]
                k = sh.count('@')
                vals = constants_for(sh, parse(sh), k)['P' if b == 0 else 'Q']
                try:
                    exp = spec_eval(parse(sh), opd=vals)
                except Out:
                    continue

                def tr():
                    parser.set_excel_file_path(books[b])
                    parser.set_entrypoint_cell(Cell('P', 'I', str(i + 1)))
                    return parser.get_translation()
                text = lib.call_catch(tr)
                evals += 1
                if isinstance(text, codec.Raised):
                    got = text
                else:
                    cls = lib.call_catch(lib.load_class_from_text, text)
                    if isinstance(cls, codec.Raised):
                        got = cls
                    else:
                        ex = Executor().set_executed_class(class_object=cls)
                        got = lib.call_catch(ex.get_cell, Cell('P', 'I', str(i + 1)))
                        got = got if isinstance(got, codec.Raised) else got.value
                if verdict(got, parse(sh), opd=vals)[0] == 'bad':
                    fails.setdefault('entry', []).append((sh, f'{instantiate(sh, i + 1)} translated from the entry cell (workbook {b}, '
                                                              f're-used Parser) -> {show(got)}, expected {show(exp)}'))
    return fails, evals


def check_sources(tier, known, seed):
    """A formula that is right in the grouping sweep must also be right when its operands come from elsewhere; a
    formula that is wrong there is reported there, so only formulas with status ok are used here."""
    t0 = time.time()
    E = enumerate_shapes(5 if tier == 'quick' else 6)
    memo = {}
    shapes = [s for n in sorted(E) for s in E[n] if known.get(s, {}).get('status') == 'ok' and hereditarily_ok(s, known, memo)]
    chunks = [(shapes[i:i + 40], tier) for i in range(0, len(shapes), 40)]
    fails, evals = {}, 0
    for f, e in _pmap(_source_worker, chunks):
        evals += e
        for k, v in f.items():
            fails.setdefault(k, []).extend(v)
    rng = random.Random(seed * 31 + 5)
    ent = list(shapes)
    rng.shuffle(ent)
    ent = ent[:96 if tier == 'quick' else 640]
    for f, e in _pmap(_entry_worker, [(ent[i:i + 8],) for i in range(0, len(ent), 8)]):
        evals += e
        for k, v in f.items():
            fails.setdefault('C01.source.entry_point', []).extend(v)
    out = []
    for k in sorted(fails):
        shape, text = min(fails[k], key=lambda x: (len(x[0]), x[0]))
        out.append({'key': k, 'what': text + f' ({len(fails[k])} cases)', 'replay': {'kind': 'source', 'shape': shape}})
    return {'name': 'C01.monitor.operand_sources',
            'bound': f'the {len(shapes)} formulas with <= {5 if tier == "quick" else 6} tokens that the grouping sweep found '
                     f'right together with everything they reduce to, each with its operands supplied as (1) number / text / TRUE-FALSE literals in the text, (2) $A$1 '
                     f'/ A$1 / $A1 references, (3) references to a quoted other sheet at rows > 100, (4) formula cells on a '
                     f'third sheet, later overridden by constants, (5) cells beyond the used range (AB, AAA, XFD columns, rows '
                     f'> 1000): blank, then overridden; plus {len(ent)} of them translated from the entry cell with one '
                     f're-used Parser alternating between two workbooks that hold different formulas at the same address',
            'rule': 'one evaluation = one (formula, source variant, state) compared with the reference evaluator; valuations '
                    'outside the contract are not counted',
            'exhaustive': False, 'evaluations': evals, 'distinct_nontrivial': evals, 'failures': out[:25],
            'samples': [{'shape': '@+@*@', 'literal': '=2+3.5*0.25'}], 'seconds': time.time() - t0}


# =====================================================================================================================
# 7. entry points
# =====================================================================================================================
class _FastTmp:
    """lib.scratch() makes its directories with tempfile.mkdtemp(); a memory-backed base directory keeps the thousands
    of small workbooks off the disk.  Only the base of the scratch directories changes, and only during run/replay."""

    def __enter__(self):
        import tempfile
        self.old = tempfile.tempdir
        if os.path.isdir('/dev/shm') and os.access('/dev/shm', os.W_OK):
            tempfile.tempdir = '/dev/shm'

    def __exit__(self, *a):
        import tempfile
        _close_pool()
        tempfile.tempdir = self.old


def run(tier='quick', seed=0):
    thorough = tier == 'thorough'
    checks = []
    with _FastTmp():
        c, results = check_grouping_exhaustive(8 if thorough else 6)
        checks.append(c)
        c, results = check_comparison_ops(6 if thorough else 5, results)
        checks.append(c)
        c, results = check_grouping_sampled(2000 if thorough else 160, 9 if thorough else 7, 14, seed, results)
        checks.append(c)
        checks.append(check_literals(tier, seed, results))
        checks.append(check_blank())
        checks.append(check_sources(tier, results, seed))
    return {'checks': checks}


def replay(payload):
    with _FastTmp():
        return _replay(payload)


def _replay(payload):
    k = payload.get('kind')
    try:
        if k == 'shape':
            shape = payload['shape']
            res = run_items([(shape, payload.get('row', 1))])[shape]
            d = res['detail']
            fk = payload.get('finding_key') or ''
            # a known finding is about one kind of failure: a grouping key is not kept alive by a text-form difference
            want = ('textform',) if fk.startswith('C01.concat') else ('bad',) if fk.startswith('C01.group') else \
                ('reject',) if fk.startswith('C01.reject') else ('bad', 'reject', 'textform')
            if res['status'] in want:
                return {'fails': True, 'text': f"{d['formula']} [{d['mode']}, sheet {d['sheet']}, operands {d['operands']}] -> "
                                               f"{d['observed']}; expected {d['expected']}; emitted: {d['emitted']}"}
            return {'fails': False, 'text': f'{instantiate(shape, payload.get("row", 1))}: {res["evaluations"]} evaluations agree '
                                            f'with the reference evaluator (status {res["status"]})'}
        if k == 'literal':
            t = payload['text']
            got = _literal_worker([t])[t]
            return {'fails': not _literal_ok(t, got), 'text': f'={t} -> {show(got)}; expected the double {_literal_expected(t)!r}'}
        if k == 'formula':
            f = payload['formula']
            got = _literal_worker([f[1:]])[f[1:]]
            try:
                exp = spec_eval(parse(f))
            except Out:
                return {'fails': False, 'text': f'{f}: outside the contract'}
            return {'fails': not agrees(got, exp), 'text': f'{f} -> {show(got)}; expected {show(exp)}'}
        if k == 'blank':
            c = check_blank()
            return {'fails': bool(c['failures']), 'text': '; '.join(f['what'] for f in c['failures'][:3]) or
                    f'{c["evaluations"]} blank-operand evaluations agree'}
        if k == 'source':
            f1, e1 = _source_worker(([payload['shape']], 'quick'))
            f2, e2 = _entry_worker(([payload['shape'], '@+@'],))
            f1.update(f2)
            return {'fails': bool(f1), 'text': '; '.join(v[0][1] for v in f1.values())[:600] or
                    f'{e1 + e2} source-variant evaluations of {payload["shape"]} agree'}
    finally:
        pass
    return {'fails': False, 'text': 'nothing to replay'}
