"""K4 bounded monitor for C08 (evaluation is pure and repeatable; all query APIs agree).  Runs under /venv/bin/python
on the real code.

Executable contract taken from the property text, observed on the values returned by Executor.get_cell / get_cells /
get_sheet (generated class used as class object, as class file, and its cell methods re-hosted on the importable
AbstractExcelInPython copy of the runtime):

  R  (reference valuation)  for a workbook W and an override map O the value of coordinate k is what a FRESH executor,
     built on a separately loaded copy of the translation, returns for get_cell(Cell(sheet_index, column, row)) as its first
     and only query after one set_cells(O).  Every value returned by any call, in any spelling, after any history of
     queries and override batches that ends in the same map O must equal R(W, O)[k] (type-strict).
  G  the grid of sheet s is the rectangle A1 .. (max row, max column) over the non-empty workbook cells and the
     overridden coordinates (computed here from the workbook spec, not from the library), one entry per coordinate.
  P  queries change neither the overrides (read back, and Executor._cells when it exists) nor the reported sheet sizes.
  E  for an integer formula language (+ - *, SUM over areas, IF with > / <, cross-sheet references) an independent
     evaluator gives absolute expected values under overrides.
"""
import copy
import json
import multiprocessing
import os
import random
import re
import time

from pv import codec
from pv.nat import lib

CHECKS = ['addressing', 'get_cells', 'get_sheet_grid', 'schedule', 'requery_after_override', 'purity', 'spec_oracle',
          'executor_reuse', 'cell_object_aliasing']
GRID_LIMIT = 40000          # largest rectangle that is enumerated
SHEET_OP_LIMIT = 2500       # largest rectangle for which get_sheet is also used inside random schedules


# ------------------------------------------------------------------------------------------------ small helpers
def letters(n):
    """1-based column number -> column letters (own implementation)."""
    s = ''
    while n > 0:
        n, rem = divmod(n - 1, 26)
        s = chr(65 + rem) + s
    return s


def qual(title, force=False):
    """sheet qualifier of a reference; quotes only where the title needs them (or when forced)"""
    plain = title.replace('_', '').isalnum() and not title[0].isdigit()
    return f"{title}!" if plain and not force else f"'{title}'!"


def a1(titles, k):
    return f'{titles[k[0]]!r}!{letters(k[1] + 1)}{k[2] + 1}'


def venc(v):
    if type(v).__name__ == 'EmptyCell':
        return {'$e': 1}
    if isinstance(v, codec.Raised):
        return {'$exc': v.cls}
    if isinstance(v, (list, tuple)):
        return [venc(i) for i in v]
    if callable(v):
        return {'$callable': getattr(v, '__name__', '?')}
    return codec.enc(v)


def vkey(v):
    return json.dumps(venc(v), sort_keys=True, ensure_ascii=False)


BLANK_KEY = vkey(type('EmptyCell', (int,), {})())


def is_raised_key(k):
    return k.startswith('{"$exc"')


def dval(j, cls):
    return codec.dec(j, make_empty=cls.EmptyCell)


def spell(sp, titles, s, c, r, value=None):
    """One of the 8 spellings of a coordinate: bit 4 = sheet by title, bit 2 = column letters, bit 1 = 1-based row text."""
    from excel2pycl import Cell
    return Cell(titles[s] if sp & 4 else s, letters(c + 1) if sp & 2 else c, str(r + 1) if sp & 1 else r, value)


def spell_text(sp, titles, s, c, r):
    return f'Cell({(titles[s] if sp & 4 else s)!r}, {(letters(c + 1) if sp & 2 else c)!r}, {(str(r + 1) if sp & 1 else r)!r})'


def coord_of(cell, titles):
    t = getattr(cell, 'title', None)
    if isinstance(t, str) and t in titles:
        t = titles.index(t)
    return (t, getattr(cell, 'column', None), getattr(cell, 'row', None))


def used_dims(spec):
    """(rows, cols) per sheet of the rectangle A1..last non-empty cell, from the spec."""
    out = []
    for sh in spec['sheets']:
        rows = cols = 0
        for col, row, val in sh.get('cells', []):
            if val is None:
                continue
            c = col if isinstance(col, int) else col_number(col)
            rows, cols = max(rows, row), max(cols, c)
        out.append((rows, cols))
    return out


def col_number(s):
    n = 0
    for ch in s:
        n = n * 26 + (ord(ch.upper()) - 64)
    return n


def ext_dims(base, ov):
    d = [list(x) for x in base]
    for (s, c, r) in ov:
        d[s][0] = max(d[s][0], r + 1)
        d[s][1] = max(d[s][1], c + 1)
    return [tuple(x) for x in d]


UID_RE = re.compile(r'^_\d+_(\d+|any)_(\d+|any)(_\d+)?$')


def rehost_on_abstract(gen_cls):
    """The generated cell methods on top of the importable runtime copy."""
    from excel2pycl.src.utilities.abstract_excel_in_python_class import AbstractExcelInPython as A
    probe = gen_cls()
    titles, sizes = dict(probe.get_titles()), copy.deepcopy(probe.get_sheets_size())
    ns = {k: v for k, v in gen_cls.__dict__.items() if UID_RE.match(k)}

    def __init__(self, arguments=None):
        A.__init__(self, arguments)
        self._titles = dict(titles)
        self._sheets_size = copy.deepcopy(sizes)
    ns['__init__'] = __init__
    return type('ExcelInPython', (A,), ns)


def make_factory(flavour, pipe, tmpdir):
    from excel2pycl import Executor
    if flavour == 'file':
        path = os.path.join(tmpdir, 'generated_module.py')
        with open(path, 'w', encoding='utf-8') as f:
            f.write(pipe.text)
        return lambda: Executor().set_executed_class(class_file=path)
    cls = pipe.cls if flavour == 'generated' else rehost_on_abstract(pipe.cls)
    return lambda: Executor().set_executed_class(class_object=cls)


class Reference:
    """R of the module docstring."""

    def __init__(self, text):
        self.cls = lib.load_class_from_text(text)

    def value(self, ov, k):
        from excel2pycl import Executor, Cell
        ex = Executor().set_executed_class(class_object=self.cls)
        if ov:
            ex.set_cells([Cell(s, c, r, dval(v, self.cls)) for (s, c, r), v in ov.items()])
        res = lib.call_catch(ex.get_cell, Cell(k[0], k[1], k[2]))
        return vkey(res if isinstance(res, codec.Raised) else res.value)

    def valuation(self, ov, coords):
        return {k: self.value(ov, k) for k in coords}


def snapshot(ex):
    inst = ex.get_executed_class()
    sizes = [(d.get('last_row'), d.get('last_column')) for d in inst.get_sheets_size()]
    priv = getattr(ex, '_cells', None)
    ov = None
    if isinstance(priv, dict):
        ov = {str(k): vkey(getattr(c, 'value', None)) for k, c in priv.items()}
    return sizes, ov


# ------------------------------------------------------------------------------------------------ bookkeeping
class Ctx:
    def __init__(self, case):
        self.case = case
        self.stats = {c: [0, 0] for c in CHECKS}
        self.fails = []
        self.samples = {c: [] for c in CHECKS}
        self.skipped = None

    def count(self, check, n=1, nontrivial=0):
        self.stats[check][0] += n
        self.stats[check][1] += nontrivial

    def fail(self, check, key, what):
        if any(f['key'] == key for f in self.fails):
            return
        c = self.case
        self.fails.append({'check': check, 'key': key, 'what': f'[case {c["index"]} {c["name"]}/{c["flavour"]}] {what}',
                           'size': c.get('size', 0), 'index': c['index']})

    def sample(self, check, s):
        if len(self.samples[check]) < 2:
            self.samples[check].append(s)

    def result(self):
        return {'stats': self.stats, 'fails': self.fails, 'samples': self.samples, 'skipped': self.skipped,
                'index': self.case['index'], 'name': self.case['name']}


def q_cell(ex, titles, k, sp):
    res = lib.call_catch(ex.get_cell, spell(sp, titles, *k))
    return vkey(res if isinstance(res, codec.Raised) else res.value)


# ------------------------------------------------------------------------------------------------ the checks
def chk_addressing(ctx, ex, titles, V, coords, rng, limit):
    pick = coords if len(coords) <= limit else rng.sample(coords, limit)
    for k in pick:
        got = [q_cell(ex, titles, k, sp) for sp in range(8)]
        ctx.count('addressing', 8, 8 * (V[k] != BLANK_KEY))
        odd = [sp for sp in range(8) if got[sp] != got[0]]
        if odd:
            ctx.fail('addressing', 'C08.addressing.spellings_disagree',
                     f'get_cell({spell_text(0, titles, *k)}) -> {got[0]} but get_cell({spell_text(odd[0], titles, *k)}) -> {got[odd[0]]} '
                     f'(spellings that differ from the numeric one: {[spell_text(sp, titles, *k) for sp in odd]})')
        elif got[0] != V[k]:
            ctx.fail('addressing', 'C08.addressing.differs_from_fresh_single_query',
                     f'all 8 spellings of {a1(titles, k)} -> {got[0]}; fresh executor, same overrides, numeric single query -> {V[k]}')
    if pick:
        k = pick[len(pick) // 2]
        ctx.sample('addressing', {'cell': a1(titles, k), 'spellings': [spell_text(sp, titles, *k) for sp in (0, 7)], 'value': V[k]})


def chk_get_cells(ctx, ex, titles, V, coords, rng, n):
    ok = [k for k in coords if not is_raised_key(V[k])]
    if not ok:
        return
    picks = [rng.choice(ok) for _ in range(n)]
    picks += picks[:3]                                           # duplicates of coordinates
    cells = [spell(rng.randrange(8), titles, *k) for k in picks]
    cells.append(cells[0])                                       # the same Cell object twice
    picks.append(picks[0])
    out = lib.call_catch(ex.get_cells, cells)
    if isinstance(out, codec.Raised) or not isinstance(out, list) or len(out) != len(cells):
        ctx.count('get_cells', 1)
        ctx.fail('get_cells', 'C08.get_cells.shape', f'get_cells of {len(cells)} cells -> {out if isinstance(out, codec.Raised) else type(out).__name__ + " len " + str(len(out))}')
        return
    for k, c in zip(picks, out):
        got = vkey(getattr(c, 'value', None))
        ctx.count('get_cells', 1, got != BLANK_KEY)
        if coord_of(c, titles) != k:
            ctx.fail('get_cells', 'C08.get_cells.coordinate', f'entry asked for {a1(titles, k)} carries coordinate {coord_of(c, titles)}')
        if got != V[k]:
            ctx.fail('get_cells', 'C08.get_cells.value', f'get_cells(list of {len(cells)})[{a1(titles, k)}] -> {got}; single query -> {V[k]}')
    ctx.sample('get_cells', {'list_length': len(cells), 'first': a1(titles, picks[0]), 'value': V[picks[0]]})


def chk_grid(ctx, ex, titles, V, dims, s, by_title, check='get_sheet_grid', what=''):
    rows, cols = dims[s]
    rect = [(s, c, r) for r in range(rows) for c in range(cols)]
    if any(is_raised_key(V[k]) for k in rect):
        return False                                             # a raising cell: the property has no clause for the grid
    arg = titles[s] if by_title else s
    g = lib.call_catch(ex.get_sheet, arg)
    if isinstance(g, codec.Raised) or not isinstance(g, list):
        ctx.count(check, 1)
        ctx.fail(check, 'C08.get_sheet.raised', f'get_sheet({arg!r}){what} -> {g!r}; every single-cell query succeeds')
        return True
    flat = [c for row in g for c in (row if isinstance(row, list) else [row])]
    ctx.count(check, max(1, len(rect)), sum(1 for k in rect if V[k] != BLANK_KEY))
    shape_ok = len(flat) == rows * cols and (cols == 0 or (len(g) == rows and all(isinstance(r, list) and len(r) == cols for r in g)))
    seen = sorted(coord_of(c, titles) for c in flat)
    if seen != sorted(rect):
        miss = sorted(set(rect) - set(seen))[:3]
        extra = sorted(set(seen) - set(rect), key=repr)[:3]
        ctx.fail(check, 'C08.get_sheet.coordinates',
                 f'get_sheet({arg!r}){what}: {len(flat)} entries for the {rows}x{cols} (rows x columns) rectangle; missing '
                 f'{[a1(titles, k) for k in miss]}, not expected {extra}')
    elif not shape_ok:
        ctx.fail(check, 'C08.get_sheet.layout', f'get_sheet({arg!r}){what}: {len(g)} rows of lengths {sorted(set(len(r) for r in g))[:4]}, expected {rows} rows x {cols}')
    else:
        for r, row in enumerate(g):
            for c, cell in enumerate(row):
                if coord_of(cell, titles) != (s, c, r):
                    ctx.fail(check, 'C08.get_sheet.layout', f'get_sheet({arg!r}){what}[{r}][{c}] carries coordinate {coord_of(cell, titles)}')
    for cell in flat:
        k = coord_of(cell, titles)
        if k in V:
            got = vkey(getattr(cell, 'value', None))
            if got != V[k]:
                ctx.fail(check, 'C08.get_sheet.value', f'get_sheet({arg!r}){what} entry {a1(titles, k)} -> {got}; single query -> {V[k]}')
    if rect:
        ctx.sample(check, {'sheet': arg, 'rows_x_columns': [rows, cols], 'last_entry': V[rect[-1]]})
    return True


def chk_schedule(ctx, ex, titles, V, dims, coords, nogrid, rng, nops, label):
    """random interleaving of the three calls (plus failing queries); every returned value against R"""
    small = [s for s in range(len(dims)) if s not in nogrid and dims[s][0] * dims[s][1] <= SHEET_OP_LIMIT]
    ok = [k for k in coords if not is_raised_key(V[k])]
    for _ in range(nops):
        kind = rng.choice(['cell', 'cell', 'cell', 'cells', 'sheet', 'repeat', 'bad'])
        if kind == 'cell' or (kind == 'sheet' and not small):
            k, sp = rng.choice(coords), rng.randrange(8)
            got = q_cell(ex, titles, k, sp)
            ctx.count('schedule', 1, got != BLANK_KEY)
            if got != V[k]:
                ctx.fail('schedule', 'C08.schedule.get_cell', f'{label}: get_cell({spell_text(sp, titles, *k)}) -> {got}; reference {V[k]}')
        elif kind == 'repeat':
            k = rng.choice(coords)
            for sp in (rng.randrange(8), rng.randrange(8), 0):
                got = q_cell(ex, titles, k, sp)
                ctx.count('schedule', 1, got != BLANK_KEY)
                if got != V[k]:
                    ctx.fail('schedule', 'C08.schedule.repeat', f'{label}: repeated get_cell of {a1(titles, k)} -> {got}; reference {V[k]}')
        elif kind == 'cells' and ok:
            picks = [rng.choice(ok) for _ in range(rng.randint(1, 6))]
            out = lib.call_catch(ex.get_cells, [spell(rng.randrange(8), titles, *k) for k in picks])
            ctx.count('schedule', 1, 1)
            got = [vkey(c.value) for c in out] if isinstance(out, list) else repr(out)
            if got != [V[k] for k in picks]:
                ctx.fail('schedule', 'C08.schedule.get_cells', f'{label}: get_cells({[a1(titles, k) for k in picks]}) -> {got}; reference {[V[k] for k in picks]}')
        elif kind == 'sheet' and small:
            s = rng.choice(small)
            chk_grid(ctx, ex, titles, V, dims, s, rng.random() < 0.5, check='schedule', what=f' ({label})')
        elif kind == 'bad':
            from excel2pycl import Cell
            bad = rng.choice([lambda: ex.get_cell(Cell('no such sheet', 0, 0)), lambda: ex.get_cell(Cell(titles[0], 'A', '0')),
                              lambda: ex.get_sheet('no such sheet'), lambda: ex.get_cells([Cell(0, 0, 0), Cell('no such sheet', 'B', '2')])])
            lib.call_catch(bad)
            ctx.count('schedule', 1)


def readback(ex, titles, O, rng):
    return {k: q_cell(ex, titles, k, rng.randrange(8)) for k in O}


def chk_spec(ctx, ex, titles, E, dims, nogrid, extras, rng):
    """absolute expected values (independent evaluator) through the three calls"""
    for s, (rows, cols) in enumerate(dims):
        if s in nogrid:
            continue
        g = lib.call_catch(ex.get_sheet, titles[s] if rng.random() < 0.5 else s)
        if not isinstance(g, list):
            ctx.count('spec_oracle', 1)
            ctx.fail('spec_oracle', 'C08.spec.get_sheet', f'get_sheet of sheet {s} -> {g!r}')
            continue
        n = 0
        for row in g:
            for cell in row:
                k = coord_of(cell, titles)
                n += 1
                got = vkey(cell.value)
                exp = E(k)
                ctx.count('spec_oracle', 1, exp != BLANK_KEY)
                if got != exp:
                    ctx.fail('spec_oracle', 'C08.spec.get_sheet', f'get_sheet entry {a1(titles, k)} -> {got}; evaluator of the formula language -> {exp}')
        if n != rows * cols:
            ctx.fail('spec_oracle', 'C08.spec.grid_size', f'get_sheet of sheet {s}: {n} entries, used range extended by overrides is {rows}x{cols}')
    ks = [(s, c, r) for s, (rows, cols) in enumerate(dims) if s not in nogrid for r in range(rows) for c in range(cols)] + list(extras)
    rng.shuffle(ks)
    for k in ks[:120]:
        sp = rng.randrange(8)
        got, exp = q_cell(ex, titles, k, sp), E(k)
        ctx.count('spec_oracle', 1, exp != BLANK_KEY)
        if got != exp:
            ctx.fail('spec_oracle', 'C08.spec.get_cell', f'get_cell({spell_text(sp, titles, *k)}) -> {got}; evaluator of the formula language -> {exp}')
    out = lib.call_catch(ex.get_cells, [spell(rng.randrange(8), titles, *k) for k in ks[:200]])
    got = [vkey(c.value) for c in out] if isinstance(out, list) else repr(out)
    exp = [E(k) for k in ks[:200]]
    ctx.count('spec_oracle', len(exp), sum(1 for e in exp if e != BLANK_KEY))
    if got != exp:
        bad = [(a1(titles, k), g, e) for k, g, e in zip(ks, got, exp) if g != e][:2] if isinstance(got, list) else got
        ctx.fail('spec_oracle', 'C08.spec.get_cells', f'get_cells -> (cell, observed, evaluator) {bad}')
    if ks:
        ctx.sample('spec_oracle', {'cell': a1(titles, ks[0]), 'expected': E(ks[0])})


# ------------------------------------------------------------------------------------------------ integer formula language
class Model:
    """cells: {(s, c, r): int | ast}; ast = ('ref', s|None, c, r) | ('num', n) | ('bin', op, a, b) | ('sum', s|None, c1, r1, c2, r2)
    | ('if', op, a, n, x, y).  s None = the sheet of the formula."""

    def __init__(self, titles, cells):
        self.titles, self.cells = titles, cells

    def text(self, ast, top=True):
        t = ast[0]
        if t == 'num':
            return str(ast[1])
        if t == 'ref':
            q = '' if ast[1] is None else qual(self.titles[ast[1]])
            return f'{q}{letters(ast[2] + 1)}{ast[3] + 1}'
        if t == 'sum':
            q = '' if ast[1] is None else qual(self.titles[ast[1]])
            return f'SUM({q}{letters(ast[2] + 1)}{ast[3] + 1}:{letters(ast[4] + 1)}{ast[5] + 1})'
        if t == 'bin':
            s = f'{self.text(ast[2], False)}{ast[1]}{self.text(ast[3], False)}'
            return s if top else f'({s})'
        if t == 'if':
            return f'IF({self.text(ast[2], False)}{ast[1]}{ast[3]},{self.text(ast[4])},{self.text(ast[5])})'
        raise ValueError(ast)

    def spec(self):
        sheets = [{'title': t, 'cells': []} for t in self.titles]
        for (s, c, r), v in sorted(self.cells.items()):
            sheets[s]['cells'].append([c + 1, r + 1, v if isinstance(v, int) else '=' + self.text(v)])
        return {'sheets': sheets}

    def evaluator(self, O):
        """O: {(s,c,r): encoded int} -> function coordinate -> value key"""
        memo = {}
        BL = object()

        def val(k):
            if k not in memo:
                if k in O:
                    memo[k] = O[k]
                elif k in self.cells:
                    v = self.cells[k]
                    memo[k] = v if isinstance(v, int) else ev(v, k[0])
                else:
                    memo[k] = BL
            return memo[k]

        def num(v):
            return 0 if v is BL else v

        def ev(a, here):
            t = a[0]
            if t == 'num':
                return a[1]
            if t == 'ref':
                return val((here if a[1] is None else a[1], a[2], a[3]))
            if t == 'sum':
                s = here if a[1] is None else a[1]
                return sum(num(val((s, c, r))) for r in range(a[3], a[5] + 1) for c in range(a[2], a[4] + 1))
            if t == 'bin':
                x, y = num(ev(a[2], here)), num(ev(a[3], here))
                return x + y if a[1] == '+' else x - y if a[1] == '-' else x * y
            if t == 'if':
                x = num(ev(a[2], here))
                cond = x > a[3] if a[1] == '>' else x < a[3]
                return ev(a[4], here) if cond else ev(a[5], here)
            raise ValueError(a)

        def E(k):
            v = val(k)
            return BLANK_KEY if v is BL else json.dumps(v)
        return E


def gen_arith(rng, index):
    titles = rng.choice([('S',), ('S', 'T 2'), ('Лист1', 'S', 'Q'), ('1', '0')])
    cells, dcols, drows, forms = {}, [], [], []
    FC = 4
    for s in range(len(titles)):
        nc, nr = rng.randint(1, 3), rng.randint(1, 6)
        dcols.append(nc)
        drows.append(nr)
        for c in range(nc):
            for r in range(nr):
                if rng.random() < 0.7:
                    cells[(s, c, r)] = rng.choice([0, 1, 2, 3, 5, 7, 10, -1, -4, 50, 100, 999999])

    def leaf(s, k):
        x = rng.random()
        if x < 0.45:
            return ('ref', None, rng.randrange(dcols[s]), rng.randrange(drows[s] + 3))       # data, hole or beyond the used range
        if x < 0.65 and k > 0:
            j = rng.randrange(k)
            return ('ref', None, FC + j % 3, j // 3)
        if x < 0.85 and s > 0:
            t = rng.randrange(s)
            if rng.random() < 0.5 and forms[t]:
                j = rng.randrange(len(forms[t]))
                return ('ref', t, FC + j % 3, j // 3)
            return ('ref', t, rng.randrange(dcols[t]), rng.randrange(drows[t] + 2))
        if x < 0.9:
            return ('ref', None, rng.choice([25, 26, 701, 702]), rng.choice([0, 100, 1000]))  # Z/AA/ZZ/AAA, rows 1/101/1001
        return ('num', rng.choice([0, 1, 2, 3, 10]))

    def area(s):
        t = None if s == 0 or rng.random() < 0.7 else rng.randrange(s)
        u = s if t is None else t
        c1 = rng.randrange(dcols[u])
        c2 = rng.randint(c1, dcols[u] - 1)
        r1 = rng.randrange(drows[u])
        r2 = rng.randint(r1, drows[u] + 3)
        return ('sum', t, c1, r1, c2, r2)

    def small(s, k):
        x = rng.random()
        if x < 0.5:
            return leaf(s, k)
        if x < 0.7:
            return area(s)
        return ('bin', rng.choice('+-*'), leaf(s, k), leaf(s, k))

    def top(s, k):
        x = rng.random()
        if x < 0.15:
            return leaf(s, k)
        if x < 0.35:
            return area(s)
        if x < 0.7:
            return ('bin', rng.choice('+-*'), small(s, k), small(s, k))
        return ('if', rng.choice('><'), small(s, k), rng.choice([0, 1, 2, 5, 10]), small(s, k), small(s, k))

    for s in range(len(titles)):
        own = []
        if s > 0 and rng.random() < 0.6:                      # the same formula text on two sheets
            own = list(forms[s - 1][:rng.randint(1, max(1, len(forms[s - 1])))])
        n = rng.randint(2, 7)
        while len(own) < n:
            own.append(top(s, len(own)))
        forms.append(own)
        for j, a in enumerate(own):
            if a[0] == 'ref' and a[1] is None and (FC + j % 3, j // 3) == (a[2], a[3]):
                a = ('num', 1)
            cells[(s, FC + j % 3, j // 3)] = a
    # copied formulas may point at sheets that are not earlier than the copy: keep only references to earlier sheets
    def fix(a, s):
        if a[0] in ('ref', 'sum') and a[1] is not None and a[1] >= s:
            return (a[0], None) + a[2:]
        if a[0] == 'bin':
            return ('bin', a[1], fix(a[2], s), fix(a[3], s))
        if a[0] == 'if':
            return ('if', a[1], fix(a[2], s), a[3], fix(a[4], s), fix(a[5], s))
        return a
    for k in list(cells):
        if not isinstance(cells[k], int):
            cells[k] = fix(cells[k], k[0])
    model = Model(list(titles), cells)
    reads = set()

    def walk(a, s):
        if a[0] == 'ref':
            reads.add((s if a[1] is None else a[1], a[2], a[3]))
        elif a[0] == 'sum':
            u = s if a[1] is None else a[1]
            reads.update((u, c, r) for r in range(a[3], a[5] + 1) for c in range(a[2], a[4] + 1))
        elif a[0] == 'bin':
            walk(a[2], s), walk(a[3], s)
        elif a[0] == 'if':
            walk(a[2], s), walk(a[4], s), walk(a[5], s)
    for k, v in cells.items():
        if not isinstance(v, int):
            walk(v, k[0])
    reads = sorted(k for k in reads if k[1] < 30 and k[2] < 130)
    # overrides: precedents (data, holes, beyond the used range, formula cells, far cells), 2-3 rounds, one batch over two sheets
    def target():
        s = rng.randrange(len(titles))
        x = rng.random()
        if reads and rng.random() < 0.6:
            return rng.choice(reads)
        if x < 0.5:
            return (s, rng.randrange(dcols[s]), rng.randrange(drows[s] + 3))
        if x < 0.7:
            j = rng.randrange(len(forms[s]))
            return (s, FC + j % 3, j // 3)
        if x < 0.8:
            return (s, rng.choice([25, 26]), rng.choice([0, 100]))
        return (s, rng.randrange(9), rng.randrange(12))
    batches = []
    for _ in range(rng.randint(2, 3)):
        b = [list(target()) + [rng.choice([0, 1, 4, 9, -3, 25, 1000]), rng.randrange(8)] for _ in range(rng.randint(1, 4))]
        batches.append(b)
    if len(titles) > 1:
        batches[0] = [[0, 0, drows[0] + 2, 6, 7], [1, dcols[1] + 1, 0, 8, 0]] + batches[0]
    return {'name': 'arith', 'spec': model.spec(), 'batches': batches, 'model': model, 'extra': [(0, 26, 0), (0, 25, 100), (0, 702, 1000)],
            'nogrid': []}


# ------------------------------------------------------------------------------------------------ rich workbooks
def dt(*a):
    return {'$dt': list(a) + [0] * (7 - len(a))}


NUMV = [0, 1, -1, 2, 3, 7, 10, 100, 1000, {'$f': '2.5'}, {'$f': repr(0.1 + 0.2)}, {'$f': '-868.5'}, {'$f': repr(1e15 + 0.25)}, True, False]
TXTV = ['a', 'abc', 'Hello World', 'яблоко', '10', 'x' * 60, "it's", 'A1', '#N/A']
DATV = [dt(2020, 2, 29), dt(1999, 12, 31), dt(2051, 1, 1), dt(2024, 2, 29, 23, 59, 59), dt(1900, 1, 1)]
TITLE_SETS = [('S',), ('S', 'T 2'), ('Лист1', 'S', 'Q'), ('1', '0'), ('Data.x', 'S'), ('S', 'Empty', 'T 2')]


def gen_rich(rng, index):
    titles = rng.choice(TITLE_SETS)
    n = len(titles)
    sheets = [{'title': t, 'cells': []} for t in titles]
    ctype, drows, dcols, filled = [], [], [], [set() for _ in titles]
    tall = rng.random() < 0.08
    for s in range(n):
        if titles[s] == 'Empty':
            ctype.append(['num'])
            drows.append(0)
            dcols.append(1)
            continue
        nc = rng.randint(1, 4)
        nr = rng.randint(1, 8) if not (tall and s == 0) else rng.randint(101, 125)
        ct = [rng.choice(['num', 'num', 'num', 'text', 'date', 'mixed']) for _ in range(nc)]
        ct[0] = 'num'
        ctype.append(ct)
        drows.append(nr)
        dcols.append(nc)
        for c in range(nc):
            for r in range(nr):
                if rng.random() < 0.75:
                    t = ct[c] if ct[c] != 'mixed' else rng.choice(['num', 'text', 'date'])
                    sheets[s]['cells'].append([c + 1, r + 1, rng.choice({'num': NUMV, 'text': TXTV, 'date': DATV}[t])])
                    filled[s].add((c, r))
    FC = 5
    forms = [[] for _ in titles]
    reads = []

    class H:
        def __init__(self, s, k):
            self.s, self.k = s, k

        def col(self, t):
            cs = [c for c in range(dcols[self.s]) if ctype[self.s][c] == t]
            return rng.choice(cs) if cs else 0

        def cell(self, c):
            r = rng.randint(1, drows[self.s] + 3) if rng.random() < 0.9 else rng.choice([101, 1001])
            if r < 130:
                reads.append(((self.s, c, r - 1), ctype[self.s][c] if c < dcols[self.s] else 'num'))
            return f'{letters(c + 1)}{r}'

        def num(self):
            return self.cell(self.col('num'))

        def txt(self):
            return self.cell(self.col('text'))

        def dat(self):
            return self.cell(self.col('date'))

        def any(self):
            return self.cell(rng.randrange(dcols[self.s]))

        def prev(self):
            if self.k and rng.random() < 0.6:
                j = rng.randrange(self.k)
                return f'{letters(FC + j % 3 + 1)}{j // 3 + 1}'
            return self.num()

        def int(self):
            return rng.choice([0, 1, 2, 5, 10])

        def vrange(self, c=None, rows=None):
            c = self.col('num') if c is None else c
            r1 = rng.randint(1, max(1, drows[self.s]))
            r2 = rng.randint(r1, drows[self.s] + 3)
            if rows:
                r1, r2 = rows
            reads.append(((self.s, c, rng.randint(r1, r2) - 1), ctype[self.s][c]))
            reads.append(((self.s, c, r2 - 1), ctype[self.s][c]))
            return f'{letters(c + 1)}{r1}:{letters(c + 1)}{r2}', (r1, r2)

        def hrange(self):
            r = rng.randint(1, drows[self.s] + 1)
            reads.append(((self.s, rng.randrange(dcols[self.s] + 1), r - 1), 'num'))
            return f'A{r}:{letters(dcols[self.s] + 1)}{r}'

        def matrix(self, mincols=1):
            c2 = max(mincols, rng.randint(1, dcols[self.s] + 1))
            r2 = rng.randint(1, drows[self.s] + 2)
            reads.append(((self.s, rng.randrange(c2), rng.randrange(r2)), 'num'))
            return f'A1:{letters(c2)}{r2}', c2

        def x(self):
            if self.s == 0:
                return self.num()
            t = rng.randrange(self.s)
            q = qual(titles[t], rng.random() < 0.4)
            if forms[t] and rng.random() < 0.5:
                j = rng.randrange(len(forms[t]))
                return f'{q}{letters(FC + j % 3 + 1)}{j // 3 + 1}'
            c, r = rng.randrange(dcols[t]), rng.randint(1, drows[t] + 2)
            reads.append(((t, c, r - 1), ctype[t][c]))
            return f'{q}{letters(c + 1)}{r}'

        def xrange(self):
            if self.s == 0:
                return self.vrange()[0]
            t = rng.randrange(self.s)
            reads.append(((t, rng.randrange(dcols[t]), rng.randrange(drows[t] + 2)), 'num'))
            return f"{qual(titles[t], rng.random() < 0.4)}A1:{letters(dcols[t])}{drows[t] + 2}"

    def formula(h):
        T = [
            lambda: f'={h.num()}+{h.prev()}*2',
            lambda: f'={h.prev()}-{h.int()}',
            lambda: f'=IF({h.num()}>{h.num()},{h.prev()},{h.any()})',
            lambda: f'=IF({h.any()}=0,"z",{h.any()})',
            lambda: f'=SUM({h.vrange()[0]})',
            lambda: f'=SUM({h.matrix()[0]})+{h.x()}',
            lambda: f'=SUM({h.xrange()})',
            lambda: f'=MAX({h.vrange()[0]})',
            lambda: f'=MIN({h.hrange()})',
            lambda: f'=AVERAGE({h.vrange()[0]})',
            lambda: f'=COUNT({h.vrange()[0]})',
            lambda: f'=COUNTBLANK({h.vrange()[0]})',
            lambda: f'=SUMIF({h.vrange()[0]},">{h.int()}")',
            lambda: (lambda a: f'=SUMIFS({a[0]},{h.vrange(rng.randrange(dcols[h.s]), a[1])[0]},">{h.int()}")')(h.vrange()),
            lambda: f'=COUNTIFS({h.vrange(rng.randrange(dcols[h.s]))[0]},{h.any()})',
            lambda: (lambda m: f'=VLOOKUP({h.num()},{m[0]},{rng.randint(1, m[1])},FALSE)')(h.matrix(2)),
            lambda: (lambda m: f'=INDEX({m[0]};1;{rng.randint(1, m[1])})')(h.matrix()),
            lambda: f'=MATCH({h.num()};{h.vrange()[0]};0)',
            lambda: f'=ROUND({h.num()}/3,2)',
            lambda: f'=IFERROR({h.num()}/{h.num()},-1)',
            lambda: f'=AND({h.num()}>0,{h.prev()}>0)',
            lambda: f'=OR({h.num()}>5,{h.num()}<0)',
            lambda: f'=CONCATENATE({h.any()},"-",{h.txt()})',
            lambda: f'={h.any()}&{h.txt()}',
            lambda: f'=LEFT({h.txt()},2)',
            lambda: f'=YEAR({h.dat()})',
            lambda: '=COLUMN()',
            lambda: f'={h.x()}',
            lambda: f'={rng.choice(["Z1", "AA1", "ZZ1", "AAA1", "AB200"])}+{h.prev()}',
            lambda: f'=SUM({letters(h.col("num") + 1)}:{letters(h.col("num") + 1)})',
            lambda: f'={h.x()}+{h.prev()}',
        ]
        return rng.choice(T)()

    for s in range(n):
        own = []
        if s > 0 and forms[s - 1] and rng.random() < 0.6:
            own = [f for f in forms[s - 1][:rng.randint(1, len(forms[s - 1]))] if '!' not in f]    # same text, unqualified references
        k = rng.randint(3, 9) if titles[s] != 'Empty' else 0
        while len(own) < k:
            own.append(formula(H(s, len(own))))
        if titles[s] == 'Empty':
            own = []
        forms[s] = own
        for j, f in enumerate(own):
            sheets[s]['cells'].append([FC + j % 3 + 1, j // 3 + 1, f])

    def ovalue(t):
        x = rng.random()
        if x < 0.03:
            return {'$e': 1}
        if x < 0.06:
            return None
        if x < 0.25:
            t = rng.choice(['num', 'text', 'date'])
        return rng.choice({'num': NUMV, 'text': TXTV, 'date': DATV, 'mixed': NUMV + TXTV}[t])

    def target():
        s = rng.randrange(n)
        x = rng.random()
        if reads and rng.random() < 0.6:
            return rng.choice(reads)
        if x < 0.55 or not forms[s]:
            c = rng.randrange(dcols[s])
            return (s, c, rng.randrange(drows[s] + 3)), ctype[s][c]
        if x < 0.75:
            j = rng.randrange(len(forms[s]))
            return (s, FC + j % 3, j // 3), 'num'
        if x < 0.9:
            return (s, rng.randrange(12), rng.randrange(14)), 'num'
        return (s, rng.choice([25, 26, 29]), rng.choice([0, 100, 129])), 'num'
    batches = []
    for _ in range(rng.randint(2, 3)):
        b = []
        for _ in range(rng.randint(1, 4)):
            k, t = target()
            b.append(list(k) + [ovalue(t), rng.randrange(8)])
        if rng.random() < 0.3:                                   # one coordinate twice in a batch, spelled differently, same value
            b.append(b[0][:4] + [7 - b[0][4]])
        batches.append(b)
    if n > 1:
        batches[0] = [[0, dcols[0] + 1, drows[0] + 2, 6, 7], [1, dcols[1] + 2, drows[1], 'w', 0]] + batches[0]
    entry = None
    if rng.random() < 0.15 and forms[n - 1]:
        j = len(forms[n - 1]) - 1
        entry = [titles[n - 1], letters(FC + j % 3 + 1), str(j // 3 + 1)]
    return {'name': 'rich', 'spec': {'sheets': sheets}, 'batches': batches, 'extra': [(0, 25, 0), (0, 26, 0), (0, 0, 100), (n - 1, 702, 1000)],
            'nogrid': [], 'entry': entry}


# ------------------------------------------------------------------------------------------------ hand-written cases
def fixed_cases(tier):
    L = []

    def add(name, sheets, batches, **kw):
        L.append(dict({'name': name, 'spec': {'sheets': [{'title': t, 'cells': c} for t, c in sheets]}, 'batches': batches,
                       'extra': [], 'nogrid': []}, **kw))
    add('tiny', [('S', [['A', 1, 1], ['A', 2, 2], ['B', 1, '=A1+A2']])],
        [[[0, 0, 0, 5, 0]], [[0, 0, 0, 7, 7]], [[0, 1, 0, 100, 3]]])
    add('two_sheets_sizes', [('S', [['A', 1, 1], ['B', 2, '=A1+D7']]), ('T 2', [['A', 1, 1], ['E', 1, "=S!A1+B4"]])],
        [[[0, 3, 6, 6, 7], [1, 1, 3, 8, 0]], [[1, 6, 0, 'w', 7], [0, 0, 8, 2, 0], [1, 0, 5, 3, 2]]])
    add('numeric_titles', [('1', [['A', 1, 11], ['B', 1, '=A1+1'], ['C', 3, 5]]), ('0', [['A', 1, 22], ['B', 1, '=A1+1'], ['A', 2, "='1'!A1"]])],
        [[[0, 0, 0, 1, 7], [1, 0, 0, 2, 7]], [[1, 3, 3, 9, 4]]])
    add('far', [('S', [['A', 1, 1], ['B', 1, '=ZZ1+AAA1'], ['B', 2, '=XFD1048576'], ['B', 3, '=A1001+A101'], ['B', 4, '=Z1+AA1']]),
                ('T', [['A', 1, '=S!B1+S!B3']])],
        [[[0, 701, 0, 3, 7], [0, 702, 0, 4, 0]], [[0, 16383, 1048575, 'far', 7], [0, 0, 1000, 5, 3], [0, 0, 100, 6, 7]],
         [[0, 25, 0, 1, 6], [0, 26, 0, 2, 2]]],
        nogrid=[0], extra=[(0, 701, 0), (0, 702, 0), (0, 16383, 1048575), (0, 0, 1000), (0, 0, 100), (0, 25, 0), (0, 26, 0), (0, 16383, 0), (0, 0, 1048575)])
    add('tall', [('S', [['A', r, r] for r in range(1, 131)] + [['B', 1, '=SUM(A1:A131)'], ['B', 130, '=A101+A100']]), ('T', [['A', 1, '=S!B1']])],
        [[[0, 0, 100, 1000, 7]], [[0, 0, 129, -1, 0], [0, 0, 130, 7, 7]]])
    add('wide_AAA', [('S', [['A', 1, 1], ['A', 2, '=AAA1+ZZ2+A1']])], [[[0, 702, 0, 4, 7]], [[0, 701, 1, 5, 0]]])
    add('rows_1001', [('S', [['A', 1, 1], ['B', 1, '=A1001+A1']])], [[[0, 0, 1000, 4, 7]], [[0, 0, 1000, 5, 0], [0, 0, 0, 2, 7]]])
    add('empty_sheet', [('S', [['A', 1, 1], ['B', 1, "=Empty!C2+A1"]]), ('Empty', [])], [[[1, 2, 1, 5, 7]], [[1, 0, 0, 1, 0], [0, 0, 0, 3, 1]]])
    add('raising', [('S', [['A', 1, 6], ['A', 2, 0], ['B', 1, '=A1/A2'], ['B', 2, '=IFERROR(A1/A2,-1)'], ['C', 1, '=B1+1']]), ('T', [['A', 1, '=S!A1']])],
        [[[0, 0, 0, 8, 0]], [[0, 0, 1, 2, 7]], [[0, 0, 1, 'txt', 3]]])
    add('column_spill', [('S', [['A', 1, 1], ['B', 1, 2], ['C', 1, 3], ['A', 3, '=COLUMN(B1:D1)'], ['D', 4, '=SUM(A:A)'], ['E', 5, '=COLUMN()'], ['A', 5, '=B3+1']])],
        [[[0, 0, 6, 50, 7]], [[0, 1, 2, 9, 0], [0, 0, 0, 10, 7]]])
    add('types', [('S', [['A', 1, True], ['A', 2, 1], ['A', 3, {'$f': '1.0'}], ['A', 4, '1'], ['A', 5, dt(2051, 1, 1)], ['A', 6, 'y' * 60],
                         ['B', 1, '=A1'], ['B', 2, '=A2'], ['B', 3, '=A3'], ['B', 4, '=A4'], ['B', 5, '=A5'], ['B', 6, '=A6'], ['B', 7, '=A7'],
                         ['C', 1, '=COUNT(A1:A8)'], ['C', 2, '=COUNTIFS(A1:A8,A2)'], ['C', 3, '=SUMIF(A1:A8,">0")'], ['C', 4, '=YEAR(A5)'], ['C', 5, '=LEFT(A6,55)']])],
        [[[0, 0, 0, 1, 0], [0, 0, 1, True, 7], [0, 0, 2, 1, 3]], [[0, 0, 6, {'$e': 1}, 0], [0, 0, 3, None, 7], [0, 0, 4, dt(1900, 1, 1), 2]],
         [[0, 0, 7, 'z' * 70, 5], [0, 0, 6, {'$f': '0.5'}, 6]]])
    add('same_text_two_sheets', [('S', [['A', 1, 1], ['A', 2, 2], ['B', 1, '=SUM(A1:A3)+A1'], ['B', 2, '=B1*2']]),
                                 ('T 2', [['A', 1, 10], ['A', 2, 20], ['B', 1, '=SUM(A1:A3)+A1'], ['B', 2, '=B1*2'], ['C', 1, '=S!B2+B2']])],
        [[[0, 0, 2, 5, 7]], [[1, 0, 2, 7, 0], [1, 0, 0, 1, 7]], [[0, 1, 0, 100, 2]]])
    add('entry_point', [('S', [['A', 1, 1], ['A', 2, 2], ['B', 1, '=A1+A2'], ['B', 2, '=A1*5'], ['C', 1, '=B1+T!A1']]), ('T', [['A', 1, 10], ['B', 1, '=A1+1']])],
        [[[0, 0, 0, 5, 7]], [[1, 0, 0, 7, 0], [0, 0, 1, 1, 7]], [[0, 1, 0, 100, 2]]], entry=['S', 'C', '1'])
    if tier == 'thorough':
        add('wide_XFD', [('S', [['A', 1, 1], ['A', 2, '=XFD1+A1']])], [[[0, 16383, 0, 4, 7]]], light=True)
        add('tall_1005', [('S', [['A', r, r % 7] for r in range(1, 1006)] + [['B', 1, '=SUM(A1:A1005)']])], [[[0, 0, 1001, 4, 7]]], light=True)
    return L


# ------------------------------------------------------------------------------------------------ one case
def plan(tier):
    return {'quick': {'rich': 110, 'arith': 90, 'nops': 25, 'addr': 60},
            'thorough': {'rich': 2600, 'arith': 1800, 'nops': 50, 'addr': 120}}[tier]


def make_case(tier, seed, index):
    fx = fixed_cases(tier)
    p = plan(tier)
    rng = random.Random(seed * 1000003 + index)
    if index < 3 * len(fx):
        case = dict(fx[index // 3])
        case['flavour'] = ['generated', 'abstract', 'file'][index % 3]
    elif index < 3 * len(fx) + p['rich']:
        case = gen_rich(rng, index)
        case['flavour'] = rng.choice(['generated', 'generated', 'abstract', 'file'])
    else:
        case = gen_arith(rng, index)
        case['flavour'] = rng.choice(['generated', 'generated', 'abstract', 'file'])
    case.update(index=index, rseed=seed * 7919 + index, tier=tier)
    case['size'] = sum(len(s['cells']) for s in case['spec']['sheets']) + sum(len(b) for b in case['batches'])
    return case


def n_cases(tier):
    return 3 * len(fixed_cases(tier)) + plan(tier)['rich'] + plan(tier)['arith']


def run_case(case):
    ctx = Ctx(case)
    p = plan(case['tier'])
    rng = random.Random(case['rseed'])
    titles = [sh['title'] for sh in case['spec']['sheets']]
    nogrid = set(case.get('nogrid', []))
    light = case.get('light', False)
    with lib.scratch() as d:
        pipe = lib.Pipe(case['spec'], d, entry=tuple(case['entry']) if case.get('entry') else None)
        if pipe.error is not None:
            ctx.skipped = repr(pipe.error)
            return ctx.result()
        ref = Reference(pipe.text)
        new_ex = make_factory(case['flavour'], pipe, d)
        base = used_dims(case['spec'])
        ex = new_ex()
        Empty = type(ex.get_executed_class())
        all_targets = [tuple(c[:3]) for b in case['batches'] for c in b]
        O, Vprev, V0, coords0 = {}, None, None, None
        for j, batch in enumerate([[]] + case['batches']):
            if batch:
                ex.set_cells([spell(sp, titles, s, c, r, dval(v, Empty)) for (s, c, r, v, sp) in batch])
                for (s, c, r, v, sp) in batch:
                    O[(s, c, r)] = v
            dims = ext_dims(base, O)
            for s, (rows, cols) in enumerate(dims):
                if rows * cols > GRID_LIMIT:
                    nogrid.add(s)
            coords = [(s, c, r) for s, (rows, cols) in enumerate(dims) if s not in nogrid for r in range(rows) for c in range(cols)]
            extras = set(all_targets) | set(map(tuple, case.get('extra', [])))
            for s, (rows, cols) in enumerate(dims):
                extras |= {(s, cols, 0), (s, 0, rows), (s, cols + 2, rows + 3)}
            coords = list(dict.fromkeys(coords + sorted(extras)))
            V = ref.valuation(O, coords)
            if j == 0:
                V0, coords0 = V, coords
            label = f'round {j}, overrides {[(a1(titles, k), v) for k, v in O.items()][:6]}'
            # P: reported sizes = used range extended by the overrides
            sizes, _ = snapshot(ex)
            ctx.count('purity', 1, bool(O))
            if [tuple(x) for x in sizes] != dims:
                ctx.fail('purity', 'C08.sizes.after_set_cells', f'{label}: reported (rows, columns) per sheet {sizes}; used range extended by overrides {dims}')
            # query -> set_cells -> query again, against the fresh executor with the same overrides
            if j > 0:
                pick = coords if len(coords) <= 600 else rng.sample(coords, 600)
                changed = 0
                for k in pick:
                    got = q_cell(ex, titles, k, 0)
                    moved = (k not in O) and Vprev.get(k) is not None and Vprev[k] != V[k]
                    changed += moved
                    ctx.count('requery_after_override', 1, moved)
                    if got != V[k]:
                        ctx.fail('requery_after_override', 'C08.requery.stale_or_different',
                                 f'{label}: after set_cells get_cell({a1(titles, k)}) -> {got}; fresh executor with the same overrides -> {V[k]}'
                                 f' (before the batch: {Vprev.get(k)})')
                ctx.sample('requery_after_override', {'round': j, 'batch': [(a1(titles, tuple(b[:3])), b[3]) for b in batch][:3], 'dependents_that_changed': changed})
            back0 = readback(ex, titles, O, rng)
            snap0 = snapshot(ex)
            chk_addressing(ctx, ex, titles, V, coords, rng, 30 if light else p['addr'])
            chk_get_cells(ctx, ex, titles, V, coords, rng, 1500 if (j == 1 and case['index'] % 5 == 0) else rng.randint(3, 40))
            for s in range(len(dims)):
                if s not in nogrid:
                    for by_title in ((False, True) if not light else (j % 2 == 0,)):
                        chk_grid(ctx, ex, titles, V, dims, s, by_title)
            chk_schedule(ctx, ex, titles, V, dims, coords, nogrid, rng, 6 if light else p['nops'], label)
            # the same overrides entered differently (other batches, order, spellings), other query order
            if not light:
                ex2 = new_ex()
                items = list(O.items())
                rng.shuffle(items)
                cut = rng.randint(0, len(items))
                E2 = type(ex2.get_executed_class())
                for part in (items[:cut], items[cut:]):
                    if part:
                        ex2.set_cells([spell(rng.randrange(8), titles, *k, dval(v, E2)) for k, v in part])
                        if rng.random() < 0.5:
                            q_cell(ex2, titles, rng.choice(coords), rng.randrange(8))
                chk_schedule(ctx, ex2, titles, V, dims, coords, nogrid, rng, p['nops'] // 2, label + ' (second executor, other batches)')
                s2, _ = snapshot(ex2)
                ctx.count('purity', 1, bool(O))
                if [tuple(x) for x in s2] != dims:
                    ctx.fail('purity', 'C08.sizes.after_set_cells', f'{label} second executor: reported sizes {s2}; expected {dims}')
            # P: nothing moved
            snap1 = snapshot(ex)
            back1 = readback(ex, titles, O, rng)
            ctx.count('purity', 2 + len(O), 2 * bool(O) + len(O))
            if snap1[0] != snap0[0]:
                ctx.fail('purity', 'C08.purity.sizes_changed_by_queries', f'{label}: reported sizes before the queries {snap0[0]}, after {snap1[0]}')
            if snap1[1] != snap0[1]:
                ctx.fail('purity', 'C08.purity.overrides_changed_by_queries', f'{label}: Executor._cells before the queries {snap0[1]}, after {snap1[1]}')
            if back1 != back0:
                ctx.fail('purity', 'C08.purity.override_readback_changed', f'{label}: overridden cells read {back0} before and {back1} after the queries')
            for k, v in O.items():
                if back1[k] != vkey(dval(v, Empty)):
                    ctx.fail('purity', 'C08.purity.override_not_read_back', f'{label}: override {a1(titles, k)} := {v!r} reads back {back1[k]} after the queries')
            ctx.sample('purity', {'round': j, 'sizes': dims, 'overrides': len(O)})
            if case.get('model') is not None:
                chk_spec(ctx, ex, titles, case['model'].evaluator({k: v for k, v in O.items()}), dims, nogrid, sorted(extras), rng)
            Vprev = V
        # a fresh executor on the same class afterwards: nothing leaked
        ex3 = new_ex()
        s3, o3 = snapshot(ex3)
        ctx.count('purity', 1, 1)
        if [tuple(x) for x in s3] != base:
            ctx.fail('purity', 'C08.purity.sizes_leak_between_executors', f'new executor after the run reports sizes {s3}; used range {base}')
        pick = coords0 if len(coords0) <= 300 else rng.sample(coords0, 300)
        for k in pick:
            got = q_cell(ex3, titles, k, rng.randrange(8))
            ctx.count('purity', 1, got != BLANK_KEY)
            if got != V0[k]:
                ctx.fail('purity', 'C08.purity.values_leak_between_executors', f'new executor without overrides after the run: {a1(titles, k)} -> {got}; at the start {V0[k]}')
    return ctx.result()


# ------------------------------------------------------------------------------------------------ executor re-use / aliasing
REUSE = [
    # (sheets, first overrides, later override, probes)
    ([('S', [['A', 1, 1], ['B', 1, '=A1+1']])], [[0, 0, 0, 5]], [0, 3, 3, 1], [(0, 1, 0), (0, 0, 0)]),
    ([('S', [['A', 1, 1], ['B', 1, '=SUM(A1:A4)']]), ('T', [['A', 1, '=S!B1*2']])], [[0, 0, 2, 5], [1, 4, 6, 9]], [1, 0, 1, 1], [(0, 1, 0), (1, 0, 0), (1, 4, 6)]),
]


def run_reuse(i, ctx=None):
    """Two executors get the same configuration calls (class, overrides, class again, one more override); only one of them is
    queried in between.  All later answers must agree (the value of a cell does not depend on what was queried before)."""
    from excel2pycl import Executor, Cell
    sheets, first, later, probes = REUSE[i]
    spec = {'sheets': [{'title': t, 'cells': c} for t, c in sheets]}
    titles = [t for t, _ in sheets]
    out = []
    with lib.scratch() as d:
        pipe = lib.Pipe(spec, d)
        if pipe.error is not None:
            return [('skip', repr(pipe.error))]
        obs = {}
        for queried in (True, False):
            ex = Executor().set_executed_class(class_object=pipe.cls)
            ex.set_cells([Cell(*c) for c in first])
            if queried:
                for k in probes:
                    q_cell(ex, titles, k, 0)
                ex.get_sheet(0)
            ex.set_executed_class(class_object=pipe.cls)
            a = [q_cell(ex, titles, k, 0) for k in probes]
            ga = [len(ex.get_sheet(s)) for s in range(len(titles))]
            ex.set_cells([Cell(*later)])
            b = [q_cell(ex, titles, k, 0) for k in probes]
            gb = [len(ex.get_sheet(s)) for s in range(len(titles))]
            # overrides that are in force (read back) must have an entry in the grid of their sheet
            missing = []
            for (s, c, r, v) in first + [later]:
                if q_cell(ex, titles, (s, c, r), 0) == vkey(v) and (s, c, r) not in [coord_of(x, titles) for row in ex.get_sheet(s) for x in row]:
                    missing.append(a1(titles, (s, c, r)))
            obs[queried] = {'after_second_set_executed_class': a, 'grid_rows': ga, 'after_next_set_cells': b, 'grid_rows_2': gb,
                            'overrides_in_force_without_grid_entry': missing}
        for f in obs[True]:
            out.append((f, obs[True][f], obs[False][f]))
        out.append(('overrides_in_force_without_grid_entry (must be empty)', obs[True]['overrides_in_force_without_grid_entry'] + obs[False]['overrides_in_force_without_grid_entry'], []))
    return out


def run_alias(i):
    """Executor A holds an override given as Cell object c.  A query on another executor with the same object must not change
    A's overrides (control: the same calls without that query)."""
    from excel2pycl import Executor, Cell
    spec = {'sheets': [{'title': 'S', 'cells': [['A', 1, 1], ['B', 1, '=A1+1']]}]}
    res = {}
    with lib.scratch() as d:
        pipe = lib.Pipe(spec, d)
        for with_query in (False, True):
            a = Executor().set_executed_class(class_object=pipe.cls)
            b = Executor().set_executed_class(class_object=pipe.cls)
            c = Cell(0, 0, 0, 5) if i == 0 else Cell('S', 'A', '1', 5)
            a.set_cells([c])
            first = vkey(a.get_cell(Cell(0, 1, 0)).value)
            if with_query:
                b.get_cell(c)
            a.set_cells([Cell(0, 7, 7, 0)])
            res[with_query] = (first, vkey(a.get_cell(Cell(0, 1, 0)).value), vkey(a.get_cell(Cell(0, 0, 0)).value))
    return res


# ------------------------------------------------------------------------------------------------ driver
def _work(args):
    tier, seed, index = args
    try:
        return run_case(make_case(tier, seed, index))
    except BaseException as e:                      # a crash of the monitor itself must be visible
        import traceback
        return {'stats': {c: [0, 0] for c in CHECKS}, 'samples': {c: [] for c in CHECKS}, 'skipped': None, 'index': index,
                'name': 'error', 'fails': [{'check': 'schedule', 'key': 'C08.monitor_error', 'what': f'case {index}: {type(e).__name__}: {e} {traceback.format_exc()[-400:]}',
                           'size': 0, 'index': index}]}


BOUNDS = {
    'addressing': ('every coordinate of the grid of every sheet (sampled above {addr} per round) plus cells beyond the used range and Z/AA/ZZ/AAA/XFD, '
                   'rows 101/1001/1048576, each in all 8 spellings {{sheet index|title}} x {{column number|letters}} x {{0-based row|1-based text}}',
                   'one evaluation = one get_cell in one spelling compared (type-strict) with the fresh numeric single query; non-trivial = value not blank'),
    'get_cells': ('lists of 3-40 cells (every 5th case once 1500 cells) with repeated coordinates, mixed spellings and one Cell object twice',
                  'one evaluation = one list entry: coordinate and value against the single query; lists containing a raising cell are not formed'),
    'get_sheet_grid': ('every sheet of every case, by index and by title, before and after every override batch (batches spanning two sheets of different '
                       'sizes, overrides beyond the used range, empty sheet, 130/1001(/1005) rows, columns AAA (and XFD in thorough))',
                       'one evaluation = one grid entry: the entries are exactly the rectangle used range + overrides (own computation from the workbook), '
                       'grid[r][c] is column c row r, value = single query; sheets containing a raising cell are skipped'),
    'schedule': ('{nops} random operations per round on the live executor and half as many on a second executor that received the same overrides in other '
                 'batches/order/spellings: get_cell, triple repeat, get_cells, get_sheet (index/title), failing queries (unknown sheet, row 0)',
                 'one evaluation = one returned value (or grid entry) against the reference valuation'),
    'requery_after_override': ('2-3 override batches per case (constants, holes, cells beyond the used range read through areas, criteria cells, formula cells, '
                               're-overrides, duplicates in a batch, blank/None values) after everything had been queried',
                               'one evaluation = one cell queried after set_cells against a fresh executor holding the same overrides; non-trivial = the value '
                               'differs from before the batch'),
    'purity': ('around all queries of a round: reported sizes, Executor._cells, read-back of every override; new executor after the run',
               'one evaluation = one comparison of a snapshot / read-back / value of the new executor'),
    'spec_oracle': ('generated workbooks in an integer formula language (+ - *, SUM areas, IF with > <, references to other sheets, blanks, cells beyond the '
                    'used range, the same formula text on two sheets) with integer overrides',
                    'one evaluation = one value from get_sheet / get_cell / get_cells against the independent evaluator'),
    'executor_reuse': (f'{len(REUSE)} workbooks: set_executed_class, set_cells, [queries], set_executed_class again, queries, set_cells, queries',
                       'one evaluation = one observation compared between the executor that was queried in between and the one that was not'),
    'cell_object_aliasing': ('2 spellings of the override Cell object; the object is passed to get_cell of another executor',
                             'one evaluation = values of the dependent and the overridden cell with and without that foreign query'),
}


def run(tier='quick', seed=0):
    t0 = time.time()
    n = n_cases(tier)
    args = [(tier, seed, i) for i in range(n)]
    with multiprocessing.Pool(16) as pool:
        results = pool.map(_work, args, chunksize=1 if tier == 'quick' else 4)
    sweep_seconds = time.time() - t0
    p = plan(tier)
    agg = {c: {'ev': 0, 'nt': 0, 'fails': [], 'samples': []} for c in CHECKS}
    skipped = []
    for r in results:
        if r['skipped']:
            skipped.append((r['index'], r['skipped']))
        for c in CHECKS:
            agg[c]['ev'] += r['stats'][c][0]
            agg[c]['nt'] += r['stats'][c][1]
            if len(agg[c]['samples']) < 3 and r['samples'][c] and r.get('name') not in agg[c].setdefault('names', set()):
                agg[c]['names'].add(r.get('name'))
                agg[c]['samples'].append(dict(r['samples'][c][-1], case=f"{r['index']} {r.get('name')}"))
        for f in r['fails']:
            agg[f['check']]['fails'].append(f)
    # executor re-use and aliasing (deterministic, in this process)
    t1 = time.time()
    for i in range(len(REUSE)):
        for what, a, b in run_reuse(i):
            agg['executor_reuse']['ev'] += 1
            agg['executor_reuse']['nt'] += 1
            if a != b:
                agg['executor_reuse']['fails'].append({'key': 'C08.executor_reuse.stale_overrides_after_set_executed_class',
                                                       'what': f'workbook {i}: {what}: executor queried before the second set_executed_class -> {a}, not queried -> {b}',
                                                       'size': i, 'index': i, 'replay': {'kind': 'reuse', 'i': i}})
        agg['executor_reuse']['samples'] = [{'workbook': REUSE[0][0], 'overrides': REUSE[0][1]}]
    t2 = time.time()
    for i in range(2):
        res = run_alias(i)
        agg['cell_object_aliasing']['ev'] += 1
        agg['cell_object_aliasing']['nt'] += 1
        if res[True] != res[False]:
            agg['cell_object_aliasing']['fails'].append({'key': 'C08.aliasing.query_elsewhere_changes_override',
                                                         'what': f'A.set_cells([c := S!A1=5]); B.get_cell(c); A.set_cells([H8]) -> (B1 before, B1, A1) = {res[True]}; without B.get_cell(c): {res[False]}',
                                                         'size': i, 'index': i, 'replay': {'kind': 'alias', 'i': i}})
        agg['cell_object_aliasing']['samples'] = [{'without_foreign_query': res[False]}]
    t3 = time.time()
    checks = []
    for c in CHECKS:
        best = {}
        for f in sorted(agg[c]['fails'], key=lambda f: (f['size'], f['index'])):
            if f['key'] not in best:
                best[f['key']] = {'key': f['key'], 'what': f['what'],
                                  'replay': f.get('replay') or {'kind': 'case', 'tier': tier, 'seed': seed, 'index': f['index'], 'key': f['key']}}
        bound, rule = BOUNDS[c]
        secs = {'executor_reuse': t2 - t1, 'cell_object_aliasing': t3 - t2}.get(c, sweep_seconds)
        checks.append({'name': f'C08.monitor.{c}',
                       'bound': bound.format(**p) + (f'; {n} cases = {len(fixed_cases(tier))} hand-written workbooks x 3 executor flavours (class object, class file, '
                                                     f'cell methods on AbstractExcelInPython) + {p["rich"]} generated mixed-type workbooks + {p["arith"]} integer-language '
                                                     f'workbooks, seed {seed}; {len(skipped)} skipped because translation failed' if c not in ('executor_reuse', 'cell_object_aliasing') else ''),
                       'rule': rule, 'exhaustive': c in ('executor_reuse', 'cell_object_aliasing'),
                       'evaluations': agg[c]['ev'], 'distinct_nontrivial': agg[c]['nt'], 'failures': list(best.values())[:25],
                       'samples': agg[c]['samples'][:3], 'seconds': round(secs, 2)})
    if skipped:
        checks[0]['samples'].append({'skipped_cases': skipped[:5]})
    return {'checks': checks}


def replay(payload):
    k = payload.get('kind')
    if k == 'case':
        case = make_case(payload['tier'], payload['seed'], payload['index'])
        r = run_case(case)
        hit = [f for f in r['fails'] if f['key'] == payload.get('key')] or ([] if payload.get('key') else r['fails'])
        sheets = [(s['title'], s['cells'][:12]) for s in case['spec']['sheets']]
        return {'fails': bool(hit), 'text': f'case {case["index"]} ({case["name"]}, {case["flavour"]}) sheets {sheets} batches {case["batches"]}: '
                + (hit[0]['what'] if hit else f'no failure with key {payload.get("key")}; other failures: {[f["key"] for f in r["fails"]]}')}
    if k == 'reuse':
        out = run_reuse(payload['i'])
        bad = [o for o in out if o[1] != o[2]]
        return {'fails': bool(bad), 'text': f'workbook {REUSE[payload["i"]][0]}: (observation, queried in between, not queried) {out}'}
    if k == 'alias':
        res = run_alias(payload['i'])
        return {'fails': res[True] != res[False], 'text': f'(B1 before, B1 after, A1 after) with the foreign query {res[True]}, without {res[False]}'}
    return {'fails': False, 'text': 'nothing to replay'}
