"""K2 facts that the K1 contract of ExpressionTokenTranslator._group assumes about the real grammar data and _level."""


def facts():
    from excel2pycl.src import tokens as T
    from excel2pycl.src.translators.expression_token_translator import ExpressionTokenTranslator as X
    out = {}
    # (a) _level: a function of the class of the operator token; the table of the statement (comparisons weakest, then &, + -, * /)
    want = {'EqOperatorToken': 0, 'NotEqOperatorToken': 0, 'GtOperatorToken': 0, 'GtOrEqualOperatorToken': 0, 'LtOperatorToken': 0,
            'LtOrEqualOperatorToken': 0, 'AmpersandToken': 1, 'PlusOperatorToken': 2, 'MinusOperatorToken': 2,
            'MultiplicationOperatorToken': 3, 'DivOperatorToken': 3}
    bad = []
    for name, lv in want.items():
        cls = getattr(T, name)
        tok = cls(('x',), None)
        try:
            got = X._level(tok)
        except Exception as e:  # noqa
            got = repr(e)
        if got != lv:
            bad.append([name, lv, got])
    levels = [[c.__name__ for c in group] for group in X._LEVELS]
    listed = sorted(n for g in levels for n in g)
    out['level'] = {'bad': bad, 'levels': levels, 'exactly_the_eleven': listed == sorted(want), 'n': len(want)}
    # (b) the shapes of an ExpressionToken, and what an operator carrier can hold
    def names(ts):
        return [['ExpressionToken' if t == 'cls' or t is T.ExpressionToken else t.__name__ for t in s] for s in ts]
    sets = names(T.ExpressionToken.get_token_sets())
    expected = [['OperandToken', 'OperatorToken', 'ExpressionToken'],
                ['OneOperandArithmeticOperatorToken', 'ExpressionToken'],
                ['OneLeftOperandExpressionToken', 'OperatorToken', 'ExpressionToken'],
                ['OneLeftOperandExpressionToken'],
                ['BracketStartToken', 'ExpressionToken', 'BracketFinishToken', 'PercentOperatorToken', 'OperatorToken', 'ExpressionToken'],
                ['BracketStartToken', 'ExpressionToken', 'BracketFinishToken', 'PercentOperatorToken'],
                ['BracketStartToken', 'ExpressionToken', 'BracketFinishToken', 'OperatorToken', 'ExpressionToken'],
                ['BracketStartToken', 'ExpressionToken', 'BracketFinishToken'],
                ['OperandToken']]
    out['expression_sets'] = {'got': sets, 'ok': sorted(sets) == sorted(expected)}
    # operators an OperatorToken can carry: walk its token sets down to lexer tokens
    def leaves(cls, seen):
        if cls in seen:
            return set()
        seen.add(cls)
        if not hasattr(cls, 'get_token_sets') or not cls.get_token_sets():
            return {cls.__name__}
        r = set()
        for s in cls.get_token_sets():
            for t in s:
                if t != 'cls':
                    r |= leaves(t, seen)
        return r
    carried = sorted(leaves(T.OperatorToken, set()))
    out['operator_carriers'] = {'carried': carried, 'ok': set(carried) == set(want)}
    # the operator property of an OperatorToken over each carrier returns that lexer token
    return out
