"""Generic native operations: source acquisition and calling real functions on encoded arguments."""
import importlib
import inspect

from pv import codec
from pv.nat import lib


def runtime_text():
    return {'text': lib.render_runtime_text(), 'fields': lib.template_fields()}


def call_helper(which, name, argsets, static=False):
    """Call helper `name` of the emitted runtime ('runtime') or the abstract class ('abstract') on each
    encoded argument list; returns encoded results (exceptions as $exc)."""
    cls = lib.get_class(which)
    enc, dec = lib.coder(cls)
    inst = cls()
    out = []
    for args in argsets:
        a = [dec(x) for x in args]
        f = getattr(inst, name)
        out.append(enc(lib.call_catch(f, *a)))
    return {'results': out}


def call_both(name, argsets):
    """Same helper of both runtime copies on the same arguments."""
    res = {}
    for which in ('runtime', 'abstract'):
        res[which] = call_helper(which, name, argsets)['results']
    return res


def call_repo(module, qualname, argsets, method_of=None):
    """Call a repository function/classmethod `qualname` in `module` on encoded argument lists."""
    mod = importlib.import_module(module)
    obj = mod
    for part in qualname.split('.'):
        obj = getattr(obj, part)
    out = []
    for args in argsets:
        a = [codec.dec(x, make_cell=lib.make_cell) for x in args]
        out.append(codec.enc(lib.call_catch(obj, *a)))
    return {'results': out}


def grammar():
    """The data the parser interprets: token sets, regexes, lexer order (read from the real classes)."""
    from excel2pycl.src import tokens as T
    from excel2pycl.src.lexer import Lexer
    from excel2pycl.src.tokens.composite_base_token import CompositeBaseToken
    from excel2pycl.src.tokens.regexp_base_token import RegexpBaseToken
    comp = {}
    for cls in CompositeBaseToken.subclasses():
        if cls.__name__ == 'UndefinedToken':
            continue
        comp[cls.__name__] = {
            'token_sets': [[t.__name__ if isinstance(t, type) else str(t) for t in ts] for ts in cls.get_token_sets()],
            'props': sorted(n for n, v in inspect.getmembers(cls) if isinstance(v, property) and n != 'in_cell'),
            'recursive': any(b.__name__ == 'RecursiveCompositeBaseToken' for b in cls.__mro__),
        }
    rx = {}
    for cls in Lexer.TOKENS:
        if cls.__name__ == 'UndefinedToken':
            continue
        rx[cls.__name__] = {'regexp': cls.regexp, 'last': cls.last_match_regexp, 'value_range': list(cls.value_range),
                            'keyword': any(b.__name__ == 'KeywordRegexpBaseToken' for b in cls.__mro__)}
    cc = [ts[0].__name__ for ts in T.ControlConstructionCompositeBaseToken.get_token_sets()]
    return {'composite': comp, 'regexp': rx, 'lexer_order': [c.__name__ for c in Lexer.TOKENS],
            'control_constructions': cc}


def call_target(target, params, argsets):
    """Call the real function named by a contract target on encoded positional argument lists (self supplied)."""
    from pv.nat import k1replay
    fn, owner = k1replay.resolve(target)
    kind = target.split(':')[0]
    out = []
    rt_cls = lib.get_class(kind) if kind in ('runtime', 'abstract') else lib.runtime_class()
    enc, dec = lib.coder(rt_cls)
    import inspect
    for args in argsets:
        a = [dec(x) for x in args]
        if kind in ('runtime', 'abstract') and '#' not in target:
            static = isinstance(inspect.getattr_static(owner, fn.__name__, None), staticmethod) if owner else False
            inst = owner() if (owner is not None and owner is not rt_cls) else rt_cls()
            r = lib.call_catch(fn, *a) if static else lib.call_catch(fn, inst, *a)
        else:
            r = lib.call_catch(fn, *a)
        out.append(enc(r))
    return {'results': out}
