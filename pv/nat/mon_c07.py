"""K4 bounded monitor for C07 (workbook text never becomes executable code).  Runs under /venv/bin/python on the real code.

Contract monitored (written from the property statement, not from the library).  For a workbook W whose constant cells,
formula string literals (plain / criterion / wildcard positions) and sheet titles carry a text s:

  * the translation is either refused by an exception (no clause) or it is a Python module that parses and loads;
  * INERT   - no identifier of a payload (setattr, __import__, builtins, the canary name, ...) is an identifier of the
              module, and the module has the same AST, modulo the values of string constants, as the module generated for
              the twin workbook in which every character of s that the position does not interpret is replaced by 'a'
              (constants, plain literals, titles: every character; criteria: everything but a leading operator, digits and
              the wildcards * ? ~).  In words: workbook text sits inside ast.Constant nodes only;
  * VALUE   - a constant text cell and a plain string literal evaluate to exactly s (also through =A1, =A1&"", IF, LEFT,
              CONCATENATE, a reference from another sheet, an entry-point translation, a module loaded from a file), and
              get_titles() maps exactly the titles of the workbook;
  * CANARY  - translating, loading and evaluating every cell never sets builtins._c07_canary / re._c7 (every hostile text is an
              expression that would set it; the calls are written with a blank before '(' so that they pass the safety
              gate), and no evaluation dies with a NameError for a word of the workbook;
  * the same with the safety check on and off, for one Parser / Executor object used several times, for overrides
    (Executor.set_cells) of cells that formulas read, and for the text helpers of both runtime copies.
"""
import ast
import builtins
import itertools
import multiprocessing
import os
import random
import re
import time
import warnings

from pv import codec
from pv.nat import lib

warnings.filterwarnings('ignore')

CANARY = '_c07_canary'
NOEXP = '__no_expectation__'

# ------------------------------------------------------------------ hostile texts
CALL = "setattr (__import__ ('builtins'),'_c07_canary',1)"            # blank before every '(' : passes the safety gate
CALLQ = 'setattr (__import__ ("builtins"),"_c07_canary",1)'
CALLN = ('__import__ (chr (98)+chr (117)+chr (105)+chr (108)+chr (116)+chr (105)+chr (110)+chr (115))'
         '.__dict__.update (_c07_canary=1)')                          # needs no quote at all
CANARY_SHORT = '_c7'                                                    # for hostile sheet titles of legal length (<= 31)
MARKERS = {'setattr', '__import__', 'builtins', CANARY, CANARY_SHORT, 'chr', 'getcwd', 'print', 'zq7'}

ALPHABET = ["'", '"', '\\', '\n', '#', '{', '}', '%', '(', ')', '*', '?', '~', 'a']

BENIGN = ["O'Brien", 'say "hi"', 'it\'s "both"', "'", '"', "''", '""', "'''", '"""', '\\', '\\\\', 'a\\', 'C:\\dir\\', "a\\'", 'a\\"',
          'a\nb', '\n', 'a\\nb', 'tab\there', '\\x41', '\\N{DIGIT ONE}', '\\u0041', '\\0', '#', 'a#b', "' #", '{', '}', '{{', '}}',
          '{}', '{0}', '{titles}', '{sheets_size}', '{functions}', '{name}', '{code}', '{titles!r}', '{{titles}}',
          '{titles.__class__}', 'a{{b}}c', '%', '%s', '%(x)s', '%d %r', '%%', '1+1', 'None', 'True', 'self._titles',
          'lambda: 0', 'zq7 (1)', 'print (1)', "__import__ ('os').getcwd ()", 'datetime.datetime.now ()', 'x' * 51,
          'y' * 49 + "'" + 'z' * 10, 'y' * 50 + '"' + 'z' * 10, 'y' * 50 + '\\', 'q' * 300 + "'{titles}\\", 'яблоко', 'é\U0001F600',
          'a\u2028b', ' lead', 'trail ', 'A1', 'S!A1', 'TRUE', '12', '1e5', '#N/A', "don't ~* stop?"]
HOSTILE = ["'+str (" + CALL + ")+'", '"+str (' + CALLQ + ')+"', "\\'+str (" + CALLN + ') #', '\\"+str (' + CALLN + ') #',
           "\\\\'+str (" + CALL + ")+'", "'''+str (" + CALL + ")+'''", '"""+str (' + CALLQ + ')+"""',
           "a\n'''+str (" + CALL + ")+'''", 'a\n"""+str (' + CALLQ + ')+"""', '{' + CALLN + '}', '{0.' + CALLN + '}',
           "{__import__ ('builtins').__dict__.update (_c07_canary=1)}", 'x\n' + CALLN, 'x\n    ' + CALLN, 'x\n        ' + CALLN,
           "x'\n        " + CALLN + "\n        '", CALLN, CALL, CALLQ, "' or " + CALL + " or '", "',str (" + CALL + "),'",
           "')+str (" + CALL + ")+str ('", "'));" + CALL + ' #', "'\n" + CALLN + ' #', "x' if " + CALL + " else '",
           "'+str (setattr (re,'_c7',1))+'", '"+str (setattr (re,"_c7",1))+"', '+str (setattr (re,"_c7",1))+', "+str (setattr (re,'_c7',1))+",
           'z' * 52 + "'+str (" + CALL + ")+'", "'+str (" + CALL.replace(' (', '(') + ")+'", '"+str (' + CALLQ.replace(' (', '(') + ')+"']
# complete formulas (text outside string literals is workbook text as well): only CANARY / INERT-by-name apply
FORMULAS = ['=COUNTIFS(A1:A3,"*"+str (' + CALLQ + ')+"")', '=SUMIF(A1:A3,"?"+str (' + CALLQ + ')+"",B1:B3)',
            '="*"+str (' + CALLQ + ')+""', '=IF(A1="x?",str (' + CALLQ + '),"b")', '=COUNTIFS(A1:A3,"a",B1:B3,"b*")',
            '=COUNTIFS(A1:A3,"x")+COUNTIFS(A1:A3,"*")', '="a?"&"b"', '=IF(A1="x?","a","b")', '="a"+str (' + CALLQ + ')+"b"',
            '="a"&str (' + CALLQ + ')', '=str (' + CALLQ + ')', '=SUM(A1:A3)+' + CALLN, '=LEFT("ab",1)&"*")+str (' + CALLQ + ')+("',
            '=COUNTIFS(A1:A3,"~*"+str (' + CALLQ + ')+"")', '=COUNTIFS(A1:A3,"*"+str (' + CALLQ.replace(' (', '(') + ')+"")']
TEXTCELLS = ['=1+1', '=A2', '="x"', '= 1', '=COUNTIFS(A2:A3,"*"+str (' + CALLQ + ')+"")', '=A2&"' + "'+str (" + CALL + ")+'" + '"']

POSITIONS = ('const', 'plain', 'crit', 'wild', 'title', 'ftext', 'textcell')
CLS = {'const': 'constant', 'plain': 'plain_literal', 'crit': 'criterion_literal', 'wild': 'criterion_literal', 'title': 'title',
       'ftext': 'formula_text', 'textcell': 'text_cell_equals'}
SYMPTOMS = ['code_executed', 'module_syntax_error', 'module_load_error', 'text_evaluated_as_name', 'foreign_identifier',
            'value_differs', 'code_shape_depends_on_text']


# ------------------------------------------------------------------ canary
def _canary_reset():
    for mod in (builtins, re):
        mod.__dict__.pop(CANARY, None)
        mod.__dict__.pop(CANARY_SHORT, None)


def _canary():
    return any(n in mod.__dict__ for mod in (builtins, re) for n in (CANARY, CANARY_SHORT))


# ------------------------------------------------------------------ workbook shapes
def _esc(s):
    """Excel spelling of a text inside a formula string literal"""
    return s.replace('"', '""')


def _twin_char_all(ch):
    return ch if (ch.isascii() and ch.isalnum()) or ch == ' ' else 'a'


def _twin(pos, s):
    """the text with every character the position does not interpret replaced by 'a'"""
    if pos in ('const', 'plain', 'title'):
        t = ''.join(_twin_char_all(c) for c in s)
        return t if pos != 'title' else 'a' + t
    if pos in ('crit', 'wild'):
        keep = set('<>=*?~.+-/: ')
        return ''.join(c if (c.isascii() and c.isalnum()) or c in keep else 'a' for c in s)
    return None


def _has_wild(s):
    return '*' in s or '?' in s


def build(pos, s, lean=False):
    """-> {'titles': [...], 'consts': [(sheet, col, row, value)], 'formulas': [(sheet, col, row, text, expected)],
           'cprobes': [(sheet, col, row, expected)], 'entry': (sheet, col, row) | None}   (col letters, row 1-based)"""
    e = _esc(s)
    if pos == 'const':
        other = s[::-1] + 'q'
        fs = [(0, 'B', 1, '=A1', s), (0, 'C', 1, '=A1&""', s), (1, 'B', 1, '=A1', other), (1, 'C', 1, '=S!A1', s)]
        if not lean:
            fs += [(0, 'D', 1, '=CONCATENATE(A1,"")', s), (0, 'E', 1, '=COUNTIFS(A1:A2,A1)', NOEXP)]
        return {'titles': ['S', 'T2'], 'consts': [(0, 'A', 1, s), (0, 'A', 2, 'x'), (1, 'A', 1, other)], 'formulas': fs,
                'cprobes': [(0, 'A', 1, s), (1, 'A', 1, other)], 'entry': (1, 'C', 1)}
    if pos == 'plain':
        fs = [(0, 'A', 1, f'="{e}"', s), (1, 'A', 2, '=S!A1', s), (0, 'A', 2, f'=IF(1=1,"{e}","x")', s), (0, 'A', 3, f'="{e}"&""', s),
              (1, 'A', 1, f'="{e}"', s)]
        if not lean:
            fs.append((0, 'A', 4, f'=CONCATENATE("{e}","")', s))
            if s:
                fs.append((0, 'A', 5, f'=LEFT("{e}",99999)', s))
        return {'titles': ['S', 'T2'], 'consts': [], 'formulas': fs, 'cprobes': [], 'entry': (1, 'A', 2), 'deps': {1: [0]}}
    if pos in ('crit', 'wild'):
        consts = [(0, 'A', 1, 'abc'), (0, 'A', 2, 'x'), (0, 'A', 3, 3), (0, 'B', 1, 1), (0, 'B', 2, 2), (0, 'B', 3, 4)]
        if pos == 'crit':
            lits = [('COUNTIFS(A1:A3,"%s")', e), ('SUMIF(A1:A3,"%s",B1:B3)', '<>' + e), ('SUMIFS(B1:B3,A1:A3,"%s")', '>=' + e),
                    ('COUNTIFS(A1:A3,"<>"&"%s")', e)]
            if not lean:
                lits += [('AVERAGEIFS(B1:B3,A1:A3,"%s")', '=' + e), ('SUMIF(A1:A3,"%s")', e)]
        else:
            lits = [('COUNTIFS(A1:A3,"%s")', e + '*'), ('COUNTIFS(A1:A3,"%s")', '*' + e), ('SUMIF(A1:A3,"%s",B1:B3)', '?' + e),
                    ('COUNTIFS(A1:A3,"%s")', '~*' + e + '*'), ('SUMIFS(B1:B3,A1:A3,"%s")', e + '?')]
        fs = [(0, 'C', i + 1, '=' + (shape % lit), NOEXP) for i, (shape, lit) in enumerate(lits)]
        return {'titles': ['S', 'T2'], 'consts': consts, 'formulas': fs, 'cprobes': [], 'entry': (0, 'C', 1)}
    if pos == 'title':
        q = s.replace("'", "''")
        return {'titles': [s, 'T2'], 'consts': [(0, 'A', 1, 'v'), (0, 'B', 1, '{titles}'), (1, 'A', 2, '{sheets_size}')],
                'formulas': [(0, 'C', 1, '="{titles}"', '{titles}'), (1, 'A', 1, f"='{q}'!A1", 'v')],
                'cprobes': [(0, 'A', 1, 'v'), (0, 'B', 1, '{titles}'), (1, 'A', 2, '{sheets_size}')], 'entry': (1, 'A', 1)}
    if pos == 'ftext':
        return {'titles': ['S', 'T2'], 'consts': [(0, 'A', 1, 'abc'), (0, 'A', 2, 'x'), (0, 'A', 3, 3), (0, 'B', 1, 1), (0, 'B', 2, 2),
                                                (0, 'B', 3, 4)],
                'formulas': [(0, 'C', 1, s, NOEXP)], 'cprobes': [], 'entry': (0, 'C', 1)}
    if pos == 'textcell':                                   # a TEXT cell whose content starts with '='
        return {'titles': ['S', 'T2'], 'consts': [(0, 'A', 1, s), (0, 'A', 2, 5), (0, 'A', 3, 'q')],
                'formulas': [(0, 'B', 1, '=A1', s)], 'cprobes': [(0, 'A', 1, s)], 'entry': (0, 'B', 1)}
    raise ValueError(pos)


def applicable(pos, s):
    if pos in ('const', 'title') and s == '':
        return False
    if pos == 'const' and s.startswith('='):
        return False
    if pos == 'title' and (re.search(r'[\\*?:/\[\]]', s) or s == 'T2' or len(s) > 200):
        return False                                         # characters Excel does not allow in a sheet title
    return True


def _col0(col):
    from openpyxl.utils import column_index_from_string
    return column_index_from_string(col) - 1


def _cells_of(shape, only=None):
    out = [(sh, c, r, v) for (sh, c, r, v) in shape['consts']]
    fs = shape['formulas'] if only is None else [shape['formulas'][i] for i in shape.get('deps', {}).get(only, [])] + [shape['formulas'][only]]
    return out + [(sh, c, r, f) for (sh, c, r, f, _) in fs], fs


def write_xlsx(shape, path, only=None):
    from openpyxl import Workbook
    from openpyxl.utils import column_index_from_string
    cells, fs = _cells_of(shape, only)
    formula_at = {(sh, c, r) for (sh, c, r, _, _) in fs}
    wb = Workbook()
    sheets = []
    for i, t in enumerate(shape['titles']):
        if i == 0:
            ws = wb.active
            ws.title = t
        else:
            ws = wb.create_sheet(t)
        sheets.append(ws)
    for sh, c, r, v in cells:
        cell = sheets[sh].cell(row=r, column=column_index_from_string(c), value=v)
        if isinstance(v, str) and v.startswith('=') and (sh, c, r) not in formula_at:
            cell.data_type = 's'                              # text cell, like typing '=1+1 with a leading apostrophe
    wb.save(path)
    wb.close()


def translate_public(shape, tmpdir, safety, entry, only=None, name='w.xlsx'):
    path = os.path.join(tmpdir, name)
    write_xlsx(shape, path, only)
    ent = None
    if entry and shape.get('entry'):
        sh, c, r = shape['entry']
        ent = (sh, _col0(c), r - 1)
    return lib.translate(path, ent, safety)


def translate_memory(shape, entry, only=None):
    """Parser._translate without the xlsx file: the same Excel / Context / CellTranslator objects on in-memory data"""
    from excel2pycl.src.cell import Cell
    from excel2pycl.src.context import Context
    from excel2pycl.src.excel import Excel
    from excel2pycl.src.translators import CellTranslator
    cells, _ = _cells_of(shape, only)
    data, sizes = [], []
    for i in range(len(shape['titles'])):
        mine = [(r - 1, _col0(c), v) for (sh, c, r, v) in cells if sh == i]
        nrows = max([r for r, _, _ in mine], default=-1) + 1
        rows = [[] for _ in range(nrows)]
        for r, c, v in mine:
            if len(rows[r]) <= c:
                rows[r].extend([None] * (c + 1 - len(rows[r])))
            rows[r][c] = v
        data.append(rows)
        sizes.append({'last_column': max([len(r) for r in rows], default=0), 'last_row': nrows})

    def go():
        excel = Excel({'data': data, 'titles': list(shape['titles']), 'suspicious_cells': {}, 'sheets_size': sizes})
        ctx = Context()
        ctx._titles = excel.get_titles()
        ctx._sheets_size = excel.get_sheets_size()
        if entry and shape.get('entry'):
            sh, c, r = shape['entry']
            CellTranslator.translate(Cell(sh, _col0(c), r - 1), excel, ctx)
        else:
            CellTranslator.translate_file(excel, ctx)
        return ctx.build_class()
    return lib.call_catch(go)


# ------------------------------------------------------------------ observation of one generated module
_BASE = {}


def _identifiers(tree):
    out = set()
    for n in ast.walk(tree):
        for f in ('id', 'attr', 'arg', 'name', 'module', 'asname'):
            v = getattr(n, f, None)
            if isinstance(v, str) and not isinstance(n, ast.Constant):
                out.add(v)
    return out


def _forbidden():
    if 'forbidden' not in _BASE:
        base = _identifiers(ast.parse(lib.render_runtime_text()))
        _BASE['forbidden'] = MARKERS - base
    return _BASE['forbidden']


class _Mask(ast.NodeTransformer):
    def visit_Constant(self, n):
        if isinstance(n.value, (str, bytes)):
            return ast.copy_location(ast.Constant(value=''), n)
        return n


_GENERATED = re.compile(r'^_\d+_\d+_\d+(_\d+)?$|^__init__$')


def _split(tree, text):
    """(generated nodes: the cell functions and __init__ (titles, sizes); source text of everything else, comments dropped)"""
    lines = text.split('\n')
    gen, static = [], []

    def seg(n):
        first = min([n.lineno] + [d.lineno for d in getattr(n, 'decorator_list', [])])
        return '\n'.join(lines[first - 1:n.end_lineno])
    for node in tree.body:
        if isinstance(node, ast.ClassDef):
            static.append(f'class {node.name}({len(node.bases)},{len(node.keywords)},{len(node.decorator_list)}):')
            for sub in node.body:
                if isinstance(sub, (ast.FunctionDef, ast.AsyncFunctionDef)) and _GENERATED.match(sub.name) and not sub.decorator_list:
                    gen.append(sub)
                else:
                    static.append(seg(sub))
        else:
            static.append(seg(node))
    return gen, '\n'.join(static)


def _skeleton(tree, text):
    """the module with every string constant of the generated functions masked; the fixed part is kept as source text"""
    gen, static = _split(tree, text)
    return static + '\n@@\n' + '\n'.join(ast.dump(_Mask().visit(g), annotate_fields=False) for g in gen)


def _foreign(tree, text):
    gen, static = _split(tree, text)
    if 'static_words' not in _BASE:
        bt = lib.render_runtime_text()
        _BASE['static_words'] = set(re.findall(r'\w+', _split(ast.parse(bt), bt)[1]))
    found = set()
    for g in gen:
        found |= _identifiers(g)
    found |= set(re.findall(r'\w+', static)) - _BASE['static_words']
    return found & _forbidden()


def _workbook_words(shape, only=None):
    cells, _ = _cells_of(shape, only)
    words = set()
    for t in shape['titles']:
        words.update(re.findall(r'[A-Za-z_][A-Za-z_0-9]*', t))
    for _, _, _, v in cells:
        if isinstance(v, str):
            words.update(re.findall(r'[A-Za-z_][A-Za-z_0-9]*', v))
    return words


def observe(text, shape, entry, only=None, loader=None, scan=True):
    """-> {'symptoms': {symptom: detail}, 'skeleton': str|None, 'checked': int}"""
    from excel2pycl import Cell, Executor
    sym, checked = {}, 0
    try:
        tree = ast.parse(text)
    except (SyntaxError, ValueError) as e:
        line = ''
        if getattr(e, 'lineno', None):
            lines = text.split('\n')
            line = lines[e.lineno - 1].strip() if 0 < e.lineno <= len(lines) else ''
        return {'symptoms': {'module_syntax_error': f'{type(e).__name__}: {getattr(e, "msg", e)}: {line[:160]}'}, 'skeleton': None,
                'checked': 1}
    code = lib.call_catch(compile, tree, '<translation>', 'exec')
    bad = _foreign(tree, text)
    if bad:
        sym['foreign_identifier'] = f'identifiers {sorted(bad)} of the workbook are identifiers of the module'
    skel = _skeleton(tree, text)
    _canary_reset()
    def default_loader(_text):
        if isinstance(code, codec.Raised):
            return lib.load_class_from_text(text)
        ns = {}
        exec(code, ns)
        return ns['ExcelInPython']
    cls = lib.call_catch(loader or default_loader, text)
    if _canary():
        sym['code_executed'] = 'canary set while the module was loaded'
    if isinstance(cls, codec.Raised):
        sym['module_load_error'] = f'loading the module raised {cls!r}'
        return {'symptoms': sym, 'skeleton': skel, 'checked': 1}
    ex = lib.call_catch(lambda: Executor().set_executed_class(class_object=cls))
    if isinstance(ex, codec.Raised):
        sym['module_load_error'] = f'instantiating the class raised {ex!r}'
        if _canary():
            sym['code_executed'] = 'canary set while the class was instantiated'
        return {'symptoms': sym, 'skeleton': skel, 'checked': 1}
    got_titles = lib.call_catch(lambda: dict(ex.get_executed_class().get_titles()))
    want_titles = {t: i for i, t in enumerate(shape['titles'])}
    checked += 1
    if got_titles != want_titles:
        sym['value_differs'] = f'get_titles() -> {got_titles!r}, expected {want_titles!r}'
    cells, fs = _cells_of(shape, only)
    words = None
    probes = [(sh, c, r, exp) for (sh, c, r, _, exp) in (fs if only is None else fs[-1:])] + list(shape['cprobes'])
    if entry and shape.get('entry'):
        probes = [p for p in probes if tuple(p[:3]) == tuple(shape['entry'])]
    expected = {(sh, c, r): exp for (sh, c, r, exp) in probes}
    for sh, c, r, _ in cells:
        got = lib.call_catch(lambda: ex.get_cell(Cell(sh, _col0(c), r - 1)).value)
        exp = expected.get((sh, c, r), NOEXP)
        checked += 1
        if isinstance(got, codec.Raised) and got.cls == 'NameError':
            words = words if words is not None else _workbook_words(shape, only)
            m = re.search(r"name '([^']+)'", got.msg)
            if m and m.group(1) in words:
                sym.setdefault('text_evaluated_as_name', f'evaluating {shape["titles"][sh]!r}!{c}{r} raised {got!r}')
        if exp is not NOEXP and exp != NOEXP and not (type(got) is str and got == exp):
            sym.setdefault('value_differs', f'{shape["titles"][sh]!r}!{c}{r} -> {got!r}, expected {exp!r}')
    if shape['titles'][0] != 'S':                                      # address the sheet by its title, too
        got = lib.call_catch(lambda: ex.get_cell(Cell(shape['titles'][0], 'A', '1')).value)
        if not (entry and shape.get('entry')) and (0, 'A', 1) in expected and got != expected[(0, 'A', 1)]:
            sym.setdefault('value_differs', f'Cell({shape["titles"][0]!r}, "A", "1") -> {got!r}, expected {expected[(0, "A", 1)]!r}')
    for i in range(len(shape['titles']) if scan else 0):
        lib.call_catch(ex.get_sheet, i)
    if _canary():
        sym['code_executed'] = 'canary (builtins.%s / re.%s) set while the cells were evaluated' % (CANARY, CANARY_SHORT)
    _canary_reset()
    return {'symptoms': sym, 'skeleton': skel, 'checked': checked}


# ------------------------------------------------------------------ one (position, text) item
_TWIN_CACHE = {}


def _translate(shape, route, tmpdir, safety, entry, only):
    _canary_reset()
    if route == 'mem':
        t = translate_memory(shape, entry, only)
    else:
        t = translate_public(shape, tmpdir, safety, entry, only)
    fired = _canary()
    _canary_reset()
    return t, fired


def _twin_skeleton(pos, s, route, tmpdir, entry, only):
    tw = _twin(pos, s)
    if tw is None:
        return None
    key = (pos, tw, route, entry, only)
    if key not in _TWIN_CACHE:
        if len(_TWIN_CACHE) > 20000:
            _TWIN_CACHE.clear()
        shape = build(pos, tw, route == 'mem')
        t, _ = _translate(shape, route, tmpdir, False, entry, only)
        sk = None
        if not isinstance(t, codec.Raised):
            try:
                sk = _skeleton(ast.parse(t), t)
            except (SyntaxError, ValueError):
                sk = None
        _TWIN_CACHE[key] = sk
    return _TWIN_CACHE[key]


def _one(pos, s, route, tmpdir, safety, entry, only):
    """-> ('rejected', cls) | ('ok', symptoms, checked)"""
    shape = build(pos, s, route == 'mem')
    t, fired = _translate(shape, route, tmpdir, safety, entry, only)
    if isinstance(t, codec.Raised):
        if fired:
            return 'ok', {'code_executed': f'canary set during translation (which then raised {t!r})'}, 1
        return 'rejected', t.cls, 0
    o = observe(t, shape, entry, only)
    sym = dict(o['symptoms'])
    if fired:
        sym['code_executed'] = 'canary set during translation'
    if o['skeleton'] is not None:
        tw = _twin_skeleton(pos, s, route, tmpdir, entry, only)
        if tw is not None and tw != o['skeleton']:
            sym['code_shape_depends_on_text'] = ('the AST (string constants masked) differs from the AST generated for the twin text '
                                                 f'{_twin(pos, s)!r}')
    return 'ok', sym, o['checked']


WHERE = {'const': 'constant cell', 'plain': 'string literal', 'crit': 'criterion literal', 'wild': 'wildcard literal', 'title': 'sheet title',
         'ftext': 'formula', 'textcell': 'text cell (data type s)'}


def _subject(pos, s, shown):
    if pos == 'ftext':
        return f'formula {s!r}'
    return f'{WHERE[pos]} {s!r}' + (f' in {shown!r}' if shown is not None else '')


def _key(pos, s, symptom):
    cls = CLS[pos]
    if pos in ('plain', 'crit', 'wild') and (_has_wild(s) or pos == 'wild'):
        cls = 'wildcard_literal'
    return f'C07.{cls}.{symptom}'


def item(pos, s, route, tmpdir, safety=False, entry=False, known=None):
    """evaluates the whole shape; when it is refused or misbehaves every formula is looked at on its own.
    -> {'evaluations', 'accepted', 'rejected', 'fails': [(key, what, replay)]}"""
    res = {'evaluations': 0, 'accepted': 0, 'rejected': 0, 'fails': []}
    if not applicable(pos, s):
        return res
    r = _one(pos, s, route, tmpdir, safety, entry, None)
    todo = []
    if r[0] == 'ok' and not r[1]:
        res['evaluations'] += r[2]
        res['accepted'] = 1
        return res
    nform = len(build(pos, s, route == 'mem')['formulas'])
    top = next((m for m in SYMPTOMS if r[0] == 'ok' and m in r[1]), None)
    if entry or nform <= 1 or (known is not None and top is not None and known.get(_key(pos, s, top), 0) >= 3):
        todo = [(None, r)]                                              # this root cause has minimal witnesses already
    else:
        todo = [(i, _one(pos, s, route, tmpdir, safety, entry, i)) for i in range(nform)]
        if r[0] == 'ok' and not any(rr[0] == 'ok' and rr[1] for _, rr in todo):
            todo.append((None, r))                                      # only the combination misbehaves
    for only, rr in todo:
        if rr[0] == 'rejected':
            res['rejected'] += 1
            continue
        res['accepted'] = 1
        res['evaluations'] += rr[2]
        for symptom in SYMPTOMS:
            if symptom in rr[1]:
                shape = build(pos, s, route == 'mem')
                fs = shape['formulas'] if only is None else [shape['formulas'][only]]
                shown = fs[-1][3] if (only is not None or pos in ('ftext',)) else None
                subject = _subject(pos, s, shown)
                res['fails'].append((_key(pos, s, symptom),
                                     f'{subject} [{route}, safety {"on" if safety else "off"}, '
                                     f'{"entry point" if entry else "whole file"}] -> {symptom}: {rr[1][symptom]}',
                                     {'kind': 'item', 'pos': pos, 'text': s, 'safety': safety, 'entry': entry, 'only': only,
                                      'formula': shown if only is not None else None}))
                break                                                   # the gravest symptom names the failure
    return res


def _merge(total, r):
    for k in ('evaluations', 'accepted', 'rejected'):
        total[k] += r[k]
    total['fails'].extend(r['fails'])


def _chunk_worker(job):
    """job = (route, [(pos, text, safety, entry), ...])"""
    route, items = job
    total = {'evaluations': 0, 'accepted': 0, 'rejected': 0, 'fails': []}
    known = {}
    with lib.scratch() as d:
        for pos, s, safety, entry in items:
            r = item(pos, s, route, d, safety, entry, known)
            for f in r['fails']:
                if f[2].get('only') is not None:
                    known[f[0]] = known.get(f[0], 0) + 1
            _merge(total, r)
    # keep, per key, the shortest witnesses only
    best = {}
    for f in total['fails']:
        best.setdefault(f[0], []).append(f)
    total['fails'] = [f for k in sorted(best) for f in sorted(best[k], key=lambda f: (len(f[2]['text']), f[2]['text']))[:3]]
    return total


def _run_jobs(jobs, procs=16):
    if not jobs:
        return []
    if procs <= 1 or len(jobs) == 1:
        return [_chunk_worker(j) for j in jobs]
    ctx = multiprocessing.get_context('fork')
    with ctx.Pool(min(procs, len(jobs))) as pool:
        return pool.map(_chunk_worker, jobs, chunksize=1)


def _chunks(route, items, size):
    return [(route, items[i:i + size]) for i in range(0, len(items), size)]


def _confirm(fails, limit=25):
    """one failure per key, shortest witness first; a witness found on the in-memory route must reproduce through the public
    Parser -> Executor pipeline (replay), otherwise it is labelled"""
    by = {}
    for f in fails:
        by.setdefault(f[0], []).append(f)
    out = []
    for k in sorted(by):
        cands = sorted(by[k], key=lambda f: (len(f[2].get('text', '')), str(f[2].get('text', ''))))
        chosen = None
        for c in cands[:4]:
            if c[2].get('kind') != 'item':
                chosen = c
                break
            rp = replay(c[2])
            if rp['fails'] and k in rp.get('keys', [k]):
                chosen = (c[0], rp['text'], c[2])
                break
        if chosen is None:
            c = cands[0]
            chosen = (c[0] + '.memory_route_only', c[1] + '  [not reproduced through the xlsx pipeline]', c[2])
        out.append({'key': chosen[0], 'what': chosen[1][:600], 'replay': chosen[2]})
    return out[:limit]


def _alphabet_strings(maxlen):
    out = []
    for n in range(1, maxlen + 1):
        out.extend(''.join(t) for t in itertools.product(ALPHABET, repeat=n))
    return out


def _random_strings(rng, count, lo, hi):
    frags = ALPHABET + ["'+", "+'", '"+', '\\', '{titles}', '{{', '}}', '%s', ' (', 'str', 'zq7', '<>', '>=', '=', '1', '.', ' ', 'é', '\n        ',
                        CALLN, '#']
    out = []
    for _ in range(count):
        out.append(''.join(rng.choice(frags) for _ in range(rng.randint(lo, hi))))
    return out


def _samples(pos_texts, route):
    out = []
    with lib.scratch() as d:
        for pos, x in pos_texts[:3]:
            r = item(pos, x, route, d, False, False)
            out.append({'position': pos, 'text': x[:120], 'cells_compared': r['evaluations'], 'formulas_refused': r['rejected'],
                        'result': sorted({f[0] for f in r['fails']}) or 'inert, values exact'})
    return out


def _check_entry(name, bound, rule, exhaustive, totals, fails, samples, t0):
    return {'name': name, 'bound': bound, 'rule': rule, 'exhaustive': exhaustive, 'evaluations': totals['evaluations'],
            'distinct_nontrivial': totals['accepted'], 'failures': fails, 'samples': samples[:3], 'seconds': round(time.time() - t0, 2),
            'rejected_by_translator': totals['rejected']}


RULE = ('one evaluation = one cell of an accepted workbook evaluated and compared (constants, plain literals: exact string; '
        'criteria: no expectation on the number) plus one get_titles() comparison per module; every accepted module is also '
        'parsed, compared with its twin module, loaded and evaluated completely under the canary; workbooks the translator '
        'refuses with an exception are not counted (rejected_by_translator); distinct = accepted (position, text) pairs')


# ------------------------------------------------------------------ sweeps
def sweep_alphabet(tier, seed):
    """exhaustive short strings, in-memory Excel object (the same translator objects as Parser._translate)"""
    maxlen = 4 if tier == 'thorough' else 3
    strings = _alphabet_strings(maxlen)
    rng = random.Random(seed)
    extra = _random_strings(rng, 3000 if tier == 'thorough' else 300, 5, 12)
    shorter = [x for x in strings if len(x) < maxlen]
    longest = [x for x in strings if len(x) == maxlen]
    # thorough: every string up to length 4 (criteria: up to 3 and a sample of length 4); quick: every string up to length 2 and a sample of length 3
    sample_big = rng.sample(longest, 1000) if tier == 'quick' else longest
    sample_crit = rng.sample(longest, 8000 if tier == 'thorough' else 600)
    checks = []
    for pos, what in (('const', 'constants'), ('plain', 'plain_literals'), ('crit', 'criterion_literals'), ('title', 'titles')):
        t0 = time.time()
        sampled = sample_crit if pos == 'crit' else sample_big
        mine = shorter + sampled
        its = [(pos, x, False, False) for x in mine + extra]
        its += [(pos, x, False, True) for x in strings if len(x) <= 2] + [(pos, x, False, True) for x in extra[:100]]
        results = _run_jobs(_chunks('mem', its, 120 if tier == 'quick' else 400))
        total = {'evaluations': 0, 'accepted': 0, 'rejected': 0, 'fails': []}
        for r in results:
            _merge(total, r)
        fails = _confirm(total['fails'])
        full = len(sampled) == len(longest)
        scope = f'every string of length 1..{maxlen if full else maxlen - 1} over {len(ALPHABET)} symbols ' + repr(''.join(ALPHABET)) + \
            f' ({len(mine) if full else len(shorter)} strings)' + \
            ('' if full else f', a seeded sample of {len(sampled)} of the {len(longest)} strings of length {maxlen}')
        checks.append(_check_entry(
            f'C07.monitor.alphabet.{what}',
            scope + f' plus {len(extra)} seeded random strings of 5..12 fragments (quotes, braces, {{titles}}, %s, call syntax, operators), as '
            + {'const': 'constant cell read directly, through =A1, =A1&"", from a second sheet with the same unqualified formula =A1, through '
                        '=S!A1 and through an entry-point translation',
               'plain': 'string literal in ="s", IF, &, the same formula on two sheets, a cross-sheet reference (" spelled "" as Excel does); '
                        'strings with * or ? included',
               'crit': 'criterion literal "s", "<>s", ">=s", "<>"&"s" of COUNTIFS / SUMIF / SUMIFS (wildcards included)',
               'title': 'title of the first sheet (strings with \\ * ? skipped: not legal titles), together with {titles} / {sheets_size} '
                        "constants and a quoted reference 's'!A1"}[pos]
            + '; whole-file translation for all, entry-point translation for lengths <= 2 and 100 random strings; Excel object built in '
              'memory, every reported failure replayed through an xlsx file and the public Parser/Executor',
            RULE, True, total, fails, _samples([(pos, strings[0]), (pos, strings[len(ALPHABET) + 2]), (pos, extra[0])], 'mem'), t0))
    return checks


def _survives_xlsx(texts):
    """the texts that an xlsx file hands back unchanged (openpyxl write, openpyxl read; the library is not involved)"""
    from openpyxl import Workbook, load_workbook
    with lib.scratch() as d:
        wb = Workbook()
        ws = wb.active
        for i, t in enumerate(texts):
            ws.cell(row=i + 1, column=1, value=t).data_type = 's'
        path = os.path.join(d, 'pre.xlsx')
        wb.save(path)
        back = [row[0].value for row in load_workbook(path).active.iter_rows()]
    return [t for t, b in zip(texts, back) if t == b]


def _payload_items(tier, seed):
    rng = random.Random(seed + 7)
    texts = BENIGN + HOSTILE
    if tier == 'thorough':
        texts = texts + ['w' * 1100 + "'\"\\{titles}", "'" * 255, '\\' * 255, '{' * 64 + '}' * 63] + _random_strings(rng, 200, 3, 10)
    sample = rng.sample(_alphabet_strings(3), 40 if tier == 'quick' else 300)
    return _survives_xlsx(texts), _survives_xlsx(sample)


def sweep_payloads(tier, seed):
    """curated benign / hostile texts through xlsx files and the public Parser -> Executor, safety on and off, whole file and
    entry point"""
    texts, sample = _payload_items(tier, seed)
    checks = []
    plan = [('const', 'constants', texts + sample), ('plain', 'plain_literals', texts + sample), ('crit', 'criterion_literals', texts + sample),
            ('wild', 'wildcard_literals', texts + sample), ('title', 'titles', texts + sample[:40]),
            ('ftext', 'formula_text', FORMULAS), ('textcell', 'text_cells_starting_with_equals', TEXTCELLS)]
    for pos, what, tx in plan:
        t0 = time.time()
        its = []
        sampled = set(sample) - set(texts)
        for s in tx:
            its.append((pos, s, True, False))
            its.append((pos, s, False, False))
            if tier == 'thorough' or s not in sampled:
                its.append((pos, s, True, True))
            if tier == 'thorough':
                its.append((pos, s, False, True))
        results = _run_jobs(_chunks('pub', its, 12))
        total = {'evaluations': 0, 'accepted': 0, 'rejected': 0, 'fails': []}
        for r in results:
            _merge(total, r)
        fails = _confirm(total['fails'])
        checks.append(_check_entry(
            f'C07.monitor.payloads.{what}',
            f'{len(tx)} texts ({len(BENIGN)} benign texts with quotes, backslashes (also last character), newlines, #, braces, {{titles}}, '
            f'{{sheets_size}}, %-formats, Python expressions, 51..300 characters; {len(HOSTILE)} hostile texts that set builtins.{CANARY} when '
            'they escape from a \'..\', "..", \\\'-escaped, triple-quoted, f-string / format or comment context, calls written with a blank '
            'before ( so that the safety gate accepts them; seeded sample of the short alphabet strings'
            + ('; complete formulas whose text between two string literals is a call; text cells whose content starts with ='
               if pos in ('ftext', 'textcell') else '')
            + f') in position {pos}, xlsx file -> Parser -> Executor; safety check on and off, whole-file and entry-point translation',
            RULE, False, total, fails, _samples([(pos, tx[0]), (pos, tx[min(len(tx) - 1, len(BENIGN))]), (pos, tx[-1])], 'pub'), t0))
    return checks


# ------------------------------------------------------------------ API sequences, overrides, boundaries
def _seq_texts(tier):
    t = ["O'Brien", 'say "hi"', 'a\\', '{titles}', 'a{{b}}c', 'a\nb', '%s', "<>O'Brien", '*', "a*'", '>=1', HOSTILE[0], HOSTILE[1], HOSTILE[2],
         HOSTILE[9], HOSTILE[12], "<>" + HOSTILE[0], HOSTILE[0] + '*', 'x' * 60 + "'", 'é\U0001F600яблоко', '=1+1', '=' + CALLN, '=A2']
    return t if tier == 'quick' else t + BENIGN + HOSTILE


def seq_parser_reuse(pair, tmpdir):
    """one Parser object: workbook A, then workbook B, then an entry point, then safety off, then A again"""
    from excel2pycl import Parser, Cell
    a, b = pair
    if a.startswith('=') or b.startswith('='):
        return 0, []
    fails, n = [], 0
    sa, sb = build('const', a), build('const', b)
    write_xlsx(sa, os.path.join(tmpdir, 'a.xlsx'))
    write_xlsx(sb, os.path.join(tmpdir, 'b.xlsx'))
    p = Parser()
    steps = [('A', sa, 'a.xlsx', None, None), ('B', sb, 'b.xlsx', None, None), ('B+entry', sb, None, (1, 2, 0), None),
             ('B+entry,unsafe', sb, None, None, False), ('A+entry,unsafe', sa, 'a.xlsx', None, None), ('A+entry,safe', sa, None, None, True)]
    entry = False
    for label, shape, path, ent, safety in steps:
        if path:
            p.set_excel_file_path(os.path.join(tmpdir, path))
        if ent:
            p.set_entrypoint_cell(Cell(*ent))
            entry = True
        if safety is False:
            p.disable_safety_check()
        if safety is True:
            p.enable_safety_check()
        _canary_reset()
        t = lib.call_catch(p.get_translation)
        if _canary():
            fails.append(('C07.api.parser_reuse.code_executed', f'Parser reused, step {label}, texts {pair!r}: canary set during translation'))
        if isinstance(t, codec.Raised):
            continue
        o = observe(t, shape, entry)
        n += o['checked']
        for symptom in SYMPTOMS:
            if symptom in o['symptoms']:
                fails.append((f'C07.api.parser_reuse.{symptom}', f'Parser reused, step {label}, texts {pair!r}: {o["symptoms"][symptom]}'))
                break
        if ('zq7B' if shape is sa else 'zq7A') in t:
            fails.append(('C07.api.parser_reuse.stale_text', f'Parser reused, step {label}: text of the previous workbook is in the module'))
    return n, fails


OVERRIDE_FORMULAS = [('B', 1, '=A1', True), ('C', 1, '=A1&""', True), ('D', 1, '=COUNTIFS(A1:A3,E1)', False), ('F', 1, '=AB200&""', True),
                     ('G', 1, '=SUMIF(A1:A3,E1,B1:B3)', False), ('H', 1, '=VALUE(A1)', False), ('I', 1, '=LEFT(A1,99999)', True),
                     ('J', 1, '=SEARCH(E1,A1)', False), ('K', 1, '=IF(A1=E1,"same","diff")', False), ('L', 1, '=MATCH(A1,A1:A3,0)', False),
                     ('M', 1, '=VLOOKUP(A1,A1:B3,2,0)', False), ('N', 1, '=CONCATENATE(A1,E1)', 'double'), ('O', 1, '=T2!A1', 'other'),
                     ('P', 1, '=IFERROR(A1,"e")', True), ('Q', 1, '=SUMIFS(B1:B3,A1:A3,"<>"&E1)', False), ('R', 1, '=COUNTIFS(A1:A3,"="&E1)', False)]


def seq_overrides(texts, tmpdir, safety=True, entry=False):
    """one Executor object, overrides with set_cells of a constant, a criteria cell, a blank cell beyond the used range and a cell of
    another sheet; every text of `texts` in turn (the most recent override is the one that counts)"""
    from excel2pycl import Cell
    shape = {'titles': ['S', 'T2'],
             'consts': [(0, 'A', 1, 'base'), (0, 'A', 2, 'x'), (0, 'A', 3, 3), (0, 'B', 2, 2), (0, 'B', 3, 4), (0, 'E', 1, 'x'), (1, 'A', 1, 'o')],
             'formulas': [(0, c, r, f, NOEXP) for (c, r, f, _) in OVERRIDE_FORMULAS], 'cprobes': [], 'entry': None}
    fails, n = [], 0
    path = os.path.join(tmpdir, 'ov.xlsx')
    write_xlsx(shape, path)
    t = lib.translate(path, None, safety)
    if isinstance(t, codec.Raised):
        return 0, [('C07.api.overrides.translate', f'the benign override workbook is refused: {t!r}')]
    cls = lib.load_class_from_text(t)
    from excel2pycl import Executor
    ex = Executor().set_executed_class(class_object=cls)
    for s in texts:
        _canary_reset()
        r = lib.call_catch(lambda: ex.set_cells([Cell('S', 'A', '1', s), Cell('S', 'E', '1', s)]).set_cells(
            [Cell('S', 'AB', '200', s), Cell('T2', 'A', '1', s)]))
        if isinstance(r, codec.Raised):
            continue
        for c, r_, f, exp in OVERRIDE_FORMULAS:
            got = lib.call_catch(lambda: ex.get_cell(Cell('S', c, str(r_))).value)
            if exp is False or (f.startswith('=IFERROR') and s.startswith('#')):
                continue
            want = s + s if exp == 'double' else s
            n += 1
            if not (type(got) is str and got == want) and s != '':
                fails.append(('C07.api.overrides.value_differs', f'override A1=E1=AB200=T2!A1={s!r}: {f} -> {got!r}, expected {want!r}'))
        for title, c, r_ in (('S', 'A', '1'), ('S', 'AB', '200'), ('T2', 'A', '1')):
            got = lib.call_catch(lambda: ex.get_cell(Cell(title, c, r_)).value)
            n += 1
            if not (type(got) is str and got == s):
                fails.append(('C07.api.overrides.value_differs', f'override {title}!{c}{r_}={s!r}: get_cell -> {got!r}'))
        lib.call_catch(ex.get_sheet, 0)
        n += 1
        if _canary():
            fails.append(('C07.api.overrides.code_executed', f'override text {s!r}: canary set while the dependants were evaluated'))
    _canary_reset()
    return n, fails


def seq_class_file(texts, tmpdir):
    """Parser.write_translation -> Executor.set_executed_class(class_file=...)"""
    from excel2pycl import Parser, Executor
    fails, n = [], 0
    for i, s in enumerate(texts):
        for pos in ('const', 'plain'):
            if not applicable(pos, s):
                continue
            shape = build(pos, s)
            path = os.path.join(tmpdir, f'f{i}{pos}.xlsx')
            out = os.path.join(tmpdir, f'gen_{i}_{pos}.py')
            write_xlsx(shape, path)
            _canary_reset()
            r = lib.call_catch(lambda: Parser().set_excel_file_path(path).write_translation(out))
            if isinstance(r, codec.Raised):
                continue
            holder = {}

            def loader(_text):
                ex = Executor().set_executed_class(class_file=out)
                holder['ex'] = ex
                return type(ex.get_executed_class())
            with open(out, encoding='utf-8') as fh:
                text = fh.read()
            o = observe(text, shape, False, None, loader=loader)
            n += o['checked']
            for symptom in SYMPTOMS:
                if symptom in o['symptoms'] and not (symptom in ('value_differs', 'code_shape_depends_on_text') and pos == 'plain' and _has_wild(s)):
                    fails.append((f'C07.api.class_file.{symptom}', f'{pos} text {s!r} written with write_translation and loaded with '
                                  f'class_file=: {o["symptoms"][symptom]}'))
                    break
    return n, fails


def seq_boundaries(texts, tmpdir, tier):
    """texts at row 150 / 1100, column AAA (703) / BCD (1434), in a 1200-cell criteria range"""
    from excel2pycl import Cell
    fails, n = [], 0
    spots = [('A', 150), ('AAA', 1), ('AB', 101)] + ([('A', 1100), ('BCD', 2)] if tier == 'thorough' else [])
    for k, s in enumerate(texts):
        if not applicable('const', s):
            continue
        consts = [(0, c, r, s) for c, r in spots] + [(0, 'C', i + 1, (s if i % 7 == 0 else f'v{i}')) for i in range(1200)]
        forms = [(0, 'D', i + 1, f'={c}{r}', s) for i, (c, r) in enumerate(spots)] + \
                [(0, 'D', 20, '=COUNTIFS(C1:C1200,C1)', NOEXP), (0, 'D', 21, '=C1191&""', s), (1, 'A', 1, '=S!AAA1&S!C8', s + s)]
        shape = {'titles': ['S', 'T2'], 'consts': consts, 'formulas': forms,
                 'cprobes': [(0, c, r, s) for c, r in spots] + [(0, 'C', 1, s), (0, 'C', 1198, s)], 'entry': (1, 'A', 1)}
        for entry in ((False, True) if k % 2 == 0 else (False,)):
            t, fired = _translate(shape, 'pub', tmpdir, True, entry, None)
            if fired:
                fails.append(('C07.api.boundaries.code_executed', f'text {s!r} at {spots}: canary set during translation'))
            if isinstance(t, codec.Raised):
                continue
            o = observe(t, shape, entry, scan=False)
            n += o['checked']
            for symptom in SYMPTOMS:
                if symptom in o['symptoms']:
                    fails.append((f'C07.api.boundaries.{symptom}', f'text {s!r} in cells {spots} and every 7th cell of C1:C1200, '
                                  f'{"entry point T2!A1" if entry else "whole file"}: {o["symptoms"][symptom]}'))
                    break
    return n, fails


def _seq_worker(job):
    kind, arg, tier = job
    with lib.scratch() as d:
        if kind == 'parser':
            n, f = seq_parser_reuse(arg, d)
        elif kind == 'overrides':
            n, f = seq_overrides(arg[0], d, safety=arg[1])
        elif kind == 'class_file':
            n, f = seq_class_file(arg, d)
        else:
            n, f = seq_boundaries(arg, d, tier)
    return n, [(k, w, {'kind': 'seq', 'seq': kind, 'arg': arg, 'tier': tier}) for k, w in f]


def sweep_api(tier, seed):
    t0 = time.time()
    texts = _seq_texts(tier)
    rng = random.Random(seed + 11)
    marked = [(t + ' zq7A', u + ' zq7B') for t, u in zip(texts, texts[1:] + texts[:1])]
    jobs = [('parser', pr, tier) for pr in marked]
    jobs += [('overrides', (texts[i:i + 10], safe), tier) for i in range(0, len(texts), 10) for safe in (True, False)]
    jobs += [('class_file', texts[i:i + 6], tier) for i in range(0, len(texts), 6)]
    btexts = texts if tier == 'thorough' else texts[:8]
    jobs += [('boundaries', btexts[i:i + 2], tier) for i in range(0, len(btexts), 2)]
    rng.shuffle(jobs)
    ctx = multiprocessing.get_context('fork')
    with ctx.Pool(16) as pool:
        results = pool.map(_seq_worker, jobs, chunksize=1)
    n, fails = 0, []
    for cnt, f in results:
        n += cnt
        fails.extend(f)
    seen, uniq = set(), []
    for k, w, rp in sorted(fails, key=lambda f: (f[0], len(f[1]), f[1])):
        if k not in seen:
            seen.add(k)
            uniq.append({'key': k, 'what': w[:600], 'replay': rp})
    return [{'name': 'C07.monitor.api_sequences',
             'bound': f'{len(texts)} texts (quotes, trailing backslash, braces, newline, operator-prefixed, wildcard, hostile): (a) one Parser object '
                      'through workbook A, workbook B, an entry point, safety off, A again, safety on; (b) one Executor object, overrides via '
                      'set_cells of a constant, a criteria cell, the blank cell AB200 beyond the used range and a cell of a second sheet, read '
                      f'back through {len(OVERRIDE_FORMULAS)} formulas (reference, &, LEFT, CONCATENATE, IFERROR, cross-sheet; COUNTIFS / SUMIF '
                      '/ SUMIFS / VALUE / SEARCH / MATCH / VLOOKUP under the canary), translation with safety on and off; (c) write_translation '
                      '+ set_executed_class(class_file=); (d) texts at A150, AB101, AAA1 (A1100, BCD2 in thorough) and in every 7th cell of a '
                      '1200-cell COUNTIFS range, whole file and entry point',
             'rule': 'one evaluation = one cell value compared with the text (or evaluated under the canary when the statement fixes no value), '
                     'or one get_titles() comparison; refused workbooks are not counted',
             'exhaustive': False, 'evaluations': n, 'distinct_nontrivial': len(jobs), 'failures': uniq[:25],
             'samples': [{'parser_pair': list(marked[0])}, {'override_text': texts[11][:80]}], 'seconds': round(time.time() - t0, 2)}]


# ------------------------------------------------------------------ runtime helpers, both copies
def _helper_calls(inst, s):
    n = max(len(s), 1)
    return [('_excel_value_to_string', (s,), s), ('_left', (s, n + 5), s if s else NOEXP), ('_right', (s, n + 5), s if s else NOEXP),
            ('_left', (s, n), s if s else NOEXP), ('_mid', (s, 1, n), s if s else NOEXP), ('_left', (s, 1), s[:1] if s else NOEXP),
            ('_right', (s, 1), s[-1:] if s else NOEXP), ('_regexp', (s,), NOEXP), ('_value', (s,), NOEXP), ('_parse_date_obj', (s,), NOEXP),
            ('_search', (s, s, 1), NOEXP), ('_search', ('a', s, None), NOEXP), ('_compare', ('==', s, s), True), ('_compare', ('!=', s, s), False),
            ('_match', (s, [[s], ['x']], 0), NOEXP), ('_vlookup', (s, [[s, 1], ['x', 2]], 2, False), NOEXP),
            ('_iferror', (lambda: s, 'e'), s if not s.startswith('#') else NOEXP), ('_flatten_list', ([[s], [[s]]],), [s, s]), ('_count_blank', ([s, s],), NOEXP),
            ('_concat_arrays_values', ([s], [s]), NOEXP), ('_ifs', ([True, s],), NOEXP)]


def sweep_helpers(tier, seed):
    t0 = time.time()
    texts = BENIGN + HOSTILE + _alphabet_strings(2) + (_alphabet_strings(3) if tier == 'thorough' else [])
    n, fails = 0, []
    for which in ('runtime', 'abstract'):
        cls = lib.get_class(which)
        inst = cls()
        for s in texts:
            for fn, args, exp in _helper_calls(inst, s):
                f = getattr(inst, fn, None)
                if f is None:
                    continue
                _canary_reset()
                got = lib.call_catch(f, *args)
                n += 1
                if _canary():
                    fails.append({'key': f'C07.helper.{fn}.code_executed', 'what': f'{which}.{fn}{args!r}: canary set',
                                  'replay': {'kind': 'helper', 'which': which, 'text': s, 'fn': fn}})
                elif exp is not NOEXP and exp != NOEXP and not (type(got) is type(exp) and got == exp) and \
                        not (fn == '_compare' and isinstance(got, codec.Raised)):
                    fails.append({'key': f'C07.helper.{fn}.value_differs', 'what': f'{which}.{fn}{args!r} -> {got!r}, expected {exp!r}',
                                  'replay': {'kind': 'helper', 'which': which, 'text': s, 'fn': fn}})
    _canary_reset()
    seen, uniq = set(), []
    for f in sorted(fails, key=lambda f: (f['key'], len(f['replay']['text']))):
        if f['key'] not in seen:
            seen.add(f['key'])
            uniq.append(f)
    return [{'name': 'C07.monitor.runtime_helpers',
             'bound': f'{len(texts)} texts (benign, hostile, all alphabet strings of length <= {3 if tier == "thorough" else 2}) given to the text '
                      'helpers _excel_value_to_string, _left, _right, _mid, _regexp, _value, _parse_date_obj, _search, _compare, _match, _vlookup, '
                      '_iferror, _flatten_list, _count_blank, _concat_arrays_values, _ifs of both runtime copies (emitted template and '
                      'AbstractExcelInPython)',
             'rule': 'one evaluation = one helper call under the canary; where the statement fixes the value (text converted to text, LEFT / RIGHT / MID '
                     'taking the whole text or one character, text = itself, IFERROR of a text) the result is compared exactly; helpers that '
                     'raise are counted as inert',
             'exhaustive': True, 'evaluations': n, 'distinct_nontrivial': len(texts) * 2, 'failures': uniq[:25],
             'samples': [{'fn': '_left', 'text': "O'Brien", 'expected': "O'Brien"}], 'seconds': round(time.time() - t0, 2)}]


# ------------------------------------------------------------------ interface
def run(tier='quick', seed=0):
    checks = []
    checks += sweep_alphabet(tier, seed)
    checks += sweep_payloads(tier, seed)
    checks += sweep_api(tier, seed)
    checks += sweep_helpers(tier, seed)
    # a root cause is reported once, in the first check that meets it
    seen = set()
    for c in checks:
        keep = []
        for f in c['failures']:
            if f['key'] in seen:
                continue
            seen.add(f['key'])
            keep.append(f)
        c['also_seen'] = sorted(f['key'] for f in c['failures'] if f not in keep)
        c['failures'] = keep
    return {'checks': checks}


def replay(payload):
    k = payload.get('kind')
    if k == 'item':
        with lib.scratch() as d:
            _TWIN_CACHE.clear()
            pos, s = payload['pos'], payload['text']
            r = _one(pos, s, 'pub', d, payload.get('safety', False), payload.get('entry', False), payload.get('only'))
            if r[0] == 'rejected':
                return {'fails': False, 'text': f'{pos} text {s!r}: the translator refuses the workbook ({r[1]})', 'keys': []}
            shape = build(pos, s)
            only = payload.get('only')
            shown = shape['formulas'][only][3] if only is not None else None
            first = next((m for m in SYMPTOMS if m in r[1]), None)
            subject = _subject(pos, s, shown)
            mode = f'[xlsx -> Parser -> Executor, safety {"on" if payload.get("safety") else "off"}, ' \
                   f'{"entry point" if payload.get("entry") else "whole file"}]'
            if first is None:
                return {'fails': False, 'text': f'{subject} {mode}: inert, values exact', 'keys': []}
            return {'fails': True, 'keys': [_key(pos, s, m) for m in r[1]],
                    'text': f'{subject} {mode} -> {first}: {r[1][first]}; expected: text only inside string constants, exact value, no canary'}
    if k == 'seq':
        n, fails = _seq_worker((payload['seq'], payload['arg'], payload.get('tier', 'quick')))
        return {'fails': bool(fails), 'text': '; '.join(f'{a}: {b}' for a, b, _ in fails[:3]) or f'{n} evaluations, all inert'}
    if k == 'helper':
        cls = lib.get_class(payload['which'])
        inst = cls()
        out = []
        bad = False
        for fn, args, exp in _helper_calls(inst, payload['text']):
            if fn != payload['fn']:
                continue
            _canary_reset()
            got = lib.call_catch(getattr(inst, fn), *args)
            fired = _canary()
            wrong = exp is not NOEXP and exp != NOEXP and not (type(got) is type(exp) and got == exp)
            bad = bad or fired or wrong
            out.append(f'{fn}{args!r} -> {got!r}' + (' CANARY' if fired else '') + (f' expected {exp!r}' if wrong else ''))
        _canary_reset()
        return {'fails': bad, 'text': '; '.join(out)}
    return {'fails': False, 'text': 'nothing to replay'}
