"""Native side of the K-S (schema) obligations: run the REAL Lexer -> AstBuilder -> translators -> Context on schema
formulas and return the emitted source of each formula cell."""
import ast

from pv import codec
from pv.nat import lib


def emit(formulas, cells=None, titles=('S',), entry=None):
    """formulas go to column Z, rows 1..n of sheet 0; returns {'error', 'codes': [source of `return <expr>` or None]}"""
    sheets = [{'title': t, 'cells': []} for t in titles]
    for (s, c, r, v) in (cells or []):
        sheets[s]['cells'].append([c, r, v])
    for i, f in enumerate(formulas):
        sheets[0]['cells'].append(['Z', i + 1, f])
    import os
    with lib.scratch() as d:
        path = os.path.join(d, 'schema.xlsx')
        lib.write_workbook({'sheets': sheets}, path)
        text = lib.translate(path, entry, safety=False)
        if isinstance(text, codec.Raised):
            # translate formula by formula to find the offenders
            return {'error': codec.enc(text), 'codes': None, 'text': None}
        tree = ast.parse(text)
        cls = next(n for n in tree.body if isinstance(n, ast.ClassDef) and n.name == 'ExcelInPython')
        methods = {n.name: n for n in cls.body if isinstance(n, ast.FunctionDef)}
        def ret(m):
            return m.body[0].value if len(m.body) == 1 and isinstance(m.body[0], ast.Return) else None

        class Inline(ast.NodeTransformer):
            """sub-expression methods (_<s>_<c>_<r>_<k>) are inlined at their reference: the schema obligation looks
            at the whole expression of the formula cell"""
            def visit_Call(self, n):
                self.generic_visit(n)
                if isinstance(n.func, ast.Attribute) and n.func.attr == '_cell_preprocessor' and len(n.args) == 1 \
                        and isinstance(n.args[0], ast.Constant) and isinstance(n.args[0].value, str):
                    name = n.args[0].value
                    if name.count('_') == 4 and name in methods and ret(methods[name]) is not None:
                        return Inline().visit(ast.parse(ast.unparse(ret(methods[name])), mode='eval').body)
                return n
        codes, raw = [], []
        for i in range(len(formulas)):
            m = methods.get(f'_0_25_{i}')
            if m is None or ret(m) is None:
                codes.append(None)
                raw.append(None)
            else:
                raw.append(ast.unparse(ret(m)))
                codes.append(ast.unparse(Inline().visit(ast.parse(ast.unparse(ret(m)), mode='eval').body)))
        return {'error': None, 'codes': codes, 'raw': raw, 'text': None}


def emit_each(formulas, cells=None, titles=('S',)):
    """like emit, but a formula whose translation raises does not hide the others"""
    r = emit(formulas, cells, titles)
    if r['error'] is None:
        r['errors'] = [None] * len(formulas)
        return r
    codes, errors, raw = [], [], []
    for f in formulas:
        r1 = emit([f], cells, titles)
        if r1['error'] is None:
            codes.append(r1['codes'][0])
            raw.append(r1['raw'][0])
            errors.append(None)
        else:
            codes.append(None)
            raw.append(None)
            errors.append(r1['error'])
    return {'error': None, 'codes': codes, 'raw': raw, 'errors': errors}
