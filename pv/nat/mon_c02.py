"""K4 bounded monitor for C02 (every reference form denotes exactly the intended cells of the intended sheet).

Runs under /venv/bin/python on the real code.  The contract is the property statement, made executable:

    colnum(letters)        bijective base-26 (A=1 .. XFD=16384)
    val(book, s, c, r)     the most recent override of (s, c, r), else the planted value, else BLANK
    area(ref, own)         sheet = prefix title's sheet (own sheet without prefix); rows r1..r2 x columns c1..c2, row-major;
                           a whole-column area has every row of the sheet
    value(=ref)            val of the cell / the row-major values of the area
    value(=SUM(ref))       sum of the numbers in the area (blank contributes nothing)
    value(=INDEX(ref,i,j)) val(row r1+i-1, column c1+j-1)
    unknown title          rejected (an exception), never a value

Every planted cell holds the unique number (sheet+1)*10^10 + row*10^5 + column, so that a value identifies the cell
it was read from.  Observation points: the public pipeline Parser -> generated class -> Executor (whole-file and
entry-point translation, one Parser object re-used for several workbooks, Executor.set_cells overrides), and directly
the lexer (reference tokens), handle_cell and Excel.get_matrix / get_range / fill_cell.
"""
import itertools
import os
import random
import re
import time

from pv import codec
from pv.nat import lib

BLANK = {'$e': 1}
FCOL0, FCOLS, FROW0 = 10, 8, 40          # formulas live in J..Q from row 40 downwards on every sheet
DRIVER = (18, 40)                        # R40 of sheet 0: depends on every formula cell (entry point)
HELP_COL = 9                             # I1..I8 hold 1..8 (row / column numbers for INDEX)
NPROC = 16


# ------------------------------------------------------------------ specification
def colnum(letters):
    n = 0
    for ch in letters:
        n = n * 26 + (ord(ch) - 64)
    return n


def colname(n):
    s = ''
    while n > 0:
        n, rem = divmod(n - 1, 26)
        s = chr(65 + rem) + s
    return s


def planted(s, col, row):
    return (s + 1) * 10 ** 10 + row * 10 ** 5 + col


def unquoted_ok(title):
    """titles the grammar accepts without quotes: word characters only"""
    return re.fullmatch(r'\w+', title) is not None


def mkref(sheet, quoted, c1, r1, c2=None, r2=None, dollars=(0, 0, 0, 0)):
    return {'sheet': sheet, 'quoted': bool(quoted), 'c1': c1, 'r1': r1, 'c2': c2, 'r2': r2, 'abs': [int(x) for x in dollars]}


def spell(ref, titles):
    pre = ''
    if ref['sheet'] is not None:
        t = titles[ref['sheet']]
        pre = ("'" + t + "'!") if ref['quoted'] else (t + '!')
    d = ref['abs']
    a = ('$' if d[0] else '') + colname(ref['c1'])
    if ref['r1'] is not None:
        a += ('$' if d[1] else '') + str(ref['r1'])
    if ref['c2'] is None:
        return pre + a
    b = ('$' if d[2] else '') + colname(ref['c2'])
    if ref['r2'] is not None:
        b += ('$' if d[3] else '') + str(ref['r2'])
    return pre + a + ':' + b


def shape_of(ref):
    if ref['c2'] is None:
        return 'cell'
    if ref['r1'] is None:
        return 'wholecol1' if ref['c1'] == ref['c2'] else 'wholecolN'
    if ref['c1'] == ref['c2']:
        return 'colrange'
    if ref['r1'] == ref['r2']:
        return 'rowrange'
    return 'rect'


def prefix_kind(ref, own):
    if ref['sheet'] is None:
        return 'bare'
    return ('own' if ref['sheet'] == own else 'other') + ('_quoted' if ref['quoted'] else '_unquoted')


class Model:
    """The reference workbook: planted cells and overrides per sheet index."""

    def __init__(self, titles, cells=None):
        self.titles = list(titles)
        self.cells = [dict() for _ in titles]
        self.over = {}
        for s, c, r, v in (cells or []):
            self.cells[s][(c, r)] = v

    def plant(self, s, col, row, v=None):
        self.cells[s][(col, row)] = planted(s, col, row) if v is None else v

    def val(self, s, col, row):
        if (s, col, row) in self.over:
            return self.over[(s, col, row)]
        return self.cells[s].get((col, row), BLANK)

    def maxrow(self, s):
        rows = [r for (_, r) in self.cells[s]] + [r for (t, _, r) in self.over if t == s]
        return max(rows) if rows else 0

    def area(self, ref, own):
        s = own if ref['sheet'] is None else ref['sheet']
        if ref['c2'] is None:
            return s, [ref['r1']], [ref['c1']]
        rows = list(range(ref['r1'], ref['r2'] + 1)) if ref['r1'] is not None else list(range(1, self.maxrow(s) + 1))
        return s, rows, list(range(ref['c1'], ref['c2'] + 1))

    def matrix(self, ref, own):
        s, rows, cols = self.area(ref, own)
        return [[self.val(s, c, r) for c in cols] for r in rows]

    def cell_list(self):
        return [[s, c, r, v] for s, d in enumerate(self.cells) for (c, r), v in sorted(d.items())]


def is_blank(v):
    return isinstance(v, dict) and '$e' in v


def num(v):
    return 0 if is_blank(v) else v


def expected(model, own, obs):
    """obs = {'form': ..., 'ref': ..., 'args': [...]} -> encoded expected value (from the statement)."""
    form, ref = obs['form'], obs['ref']
    if form == 'fn':
        return fn_expected(model, own, obs)
    m = model.matrix(ref, own)
    if form == 'direct':
        return m[0][0] if ref['c2'] is None else m
    flat = [v for row in m for v in row]
    if form == 'sum':
        return sum(v for v in flat if not is_blank(v))
    if form == 'plus0':
        return num(m[0][0])
    if form == 'index':
        i, j = obs['args']
        return m[i - 1][j - 1] if i - 1 < len(m) else BLANK       # rows below the last written row of a whole column are blank
    if form == 'index1':
        return flat[obs['args'][0] - 1] if obs['args'][0] - 1 < len(flat) else BLANK
    raise ValueError(form)


def strict_eq(got, exp):
    """encoded values: same type, same value (1 is not True, 1 is not 1.0); blank only equals blank"""
    if is_blank(got) or is_blank(exp):
        return is_blank(got) and is_blank(exp)
    if isinstance(exp, list):
        return isinstance(got, list) and len(got) == len(exp) and all(strict_eq(g, e) for g, e in zip(got, exp))
    return type(got) is type(exp) and got == exp


def conforms(obs, got, exp):
    """does the observed (encoded) value meet the contract"""
    if obs['form'] == 'fn' and isinstance(exp, int) and not isinstance(exp, bool):
        # through a function a whole number may come back as int or float
        if isinstance(got, dict) and '$f' in got:
            got = float(got['$f'])
        return not isinstance(got, bool) and isinstance(got, (int, float)) and got == exp
    if obs['form'] != 'direct' or obs['ref']['c2'] is None:
        return strict_eq(got, exp)
    if not isinstance(got, list):
        return False
    ncols = len(exp[0]) if exp else (obs['ref']['c2'] - obs['ref']['c1'] + 1)
    whole = obs['ref']['r1'] is None
    if got and not isinstance(got[0], list):
        # a straight line may come back as a flat list; it must still be the row-major sequence
        return not whole and strict_eq(got, [v for row in exp for v in row])
    if not whole and len(got) != len(exp):
        return False
    for i in range(max(len(got), len(exp))):
        g = got[i] if i < len(got) else [BLANK] * ncols
        e = exp[i] if i < len(exp) else [BLANK] * ncols
        if not (isinstance(g, list) and strict_eq(g, e)):
            return False
    return True


def formula_text(obs, titles):
    form = obs['form']
    if form == 'fn':
        return fn_text(obs, titles)
    r = spell(obs['ref'], titles)
    if form == 'direct':
        return '=' + r
    if form == 'sum':
        return f'=SUM({r})'
    if form == 'plus0':
        return f'={r}+0'
    if form == 'index':
        return f'=INDEX({r},{obs["args"][0]},{obs["args"][1]})'
    if form == 'index1':
        return f'=INDEX({r},{obs["args"][0]})'
    raise ValueError(form)


def short(v, n=160):
    s = repr(v)
    return s if len(s) <= n else s[:n] + '...'


def dedupe(fails, cap=25):
    seen, out = set(), []
    for f in fails:
        if f['key'] not in seen:
            seen.add(f['key'])
            out.append(f)
    return out[:cap]


# ------------------------------------------------------------------ running a model through the real pipeline
def fpos(k):
    return FCOL0 + k % FCOLS, FROW0 + k // FCOLS


def build_spec(model, texts, hosts, driver_sheet=None):
    """texts placed at the same addresses on every host sheet; optional driver cell depending on all of them"""
    sheets = [{'title': t, 'cells': [[c, r, v] for (c, r), v in sorted(model.cells[s].items())]}
              for s, t in enumerate(model.titles)]
    for s in hosts:
        for k, text in enumerate(texts):
            c, r = fpos(k)
            sheets[s]['cells'].append([c, r, text])
    if driver_sheet is not None and texts:
        last = fpos(len(texts) - 1)[1]
        parts = []
        for s in hosts:
            for c in range(FCOL0, FCOL0 + min(FCOLS, len(texts))):
                parts.append(f"'{model.titles[s]}'!{colname(c)}{FROW0}:{colname(c)}{last}")
        sheets[driver_sheet]['cells'].append([DRIVER[0], DRIVER[1], '=SUM(' + ','.join(parts) + ')'])
    return {'sheets': sheets}


class Rig:
    """one translation of one workbook, with its own Executor"""

    def __init__(self, parser, path, entry):
        from excel2pycl import Cell, Executor
        self.error, self.cls, self.ex = None, None, None
        parser.set_excel_file_path(path)
        if getattr(parser, '_mon_entry', 'unset') != entry:
            # an unchanged entry cell is not set again: the Parser keeps the Cell object it was given for the previous workbook
            parser.set_entrypoint_cell(Cell(*entry) if entry else None)
            parser._mon_entry = entry
        text = lib.call_catch(parser.get_translation)
        if isinstance(text, codec.Raised):
            self.error = text
            return
        cls = lib.call_catch(lib.load_class_from_text, text)
        if isinstance(cls, codec.Raised):
            self.error = cls
            return
        self.cls = cls
        self.ex = Executor().set_executed_class(class_object=cls)

    def enc(self, v):
        Empty = self.cls.EmptyCell
        return codec.enc(v, is_empty=lambda x: isinstance(x, Empty))

    def get(self, titles, s, col, row, spelled=False):
        from excel2pycl import Cell
        cell = Cell(titles[s], colname(col), str(row)) if spelled else Cell(s, col - 1, row - 1)
        r = lib.call_catch(self.ex.get_cell, cell)
        return self.enc(r if isinstance(r, codec.Raised) else r.value)

    def set(self, titles, batch, spelled=False):
        from excel2pycl import Cell
        cells = [Cell(titles[s], colname(c), str(r), v) if (spelled ^ (i % 2 == 1)) else Cell(s, c - 1, r - 1, v)
                 for i, (s, c, r, v) in enumerate(batch)]
        return lib.call_catch(self.ex.set_cells, cells)


def single_replay(p):
    """kind 'wb': one formula in one workbook; the expected value is recomputed from the structured observation"""
    from excel2pycl import Parser
    model = Model(p['titles'], p['cells'])
    host, obs = p['host'], p['obs']
    text = p.get('formula') or formula_text(obs, model.titles)
    with lib.scratch() as d:
        path = os.path.join(d, 'w.xlsx')
        spec = build_spec(model, [text], [host])
        lib.write_workbook(spec, path)
        entry = (model.titles[host], colname(FCOL0), str(FROW0)) if p.get('mode') == 'entry' else None
        rig = Rig(Parser(), path, entry)
        if rig.error is not None:
            return {'fails': not p.get('reject_ok', False), 'text': f'{text} on sheet {model.titles[host]!r}: translation raised {rig.error!r}',
                    'got': codec.enc(rig.error)}
        for i, batch in enumerate(p.get('rounds', [])):
            rig.set(model.titles, batch, spelled=bool(i % 2))
            for s, c, r, v in batch:
                model.over[(s, c, r)] = v
        got = rig.get(model.titles, host, FCOL0, FROW0)
        exp = expected(model, host, obs)
        ok = conforms(obs, got, exp)
        return {'fails': not ok, 'got': got,
                'text': f'titles={model.titles!r} host={model.titles[host]!r} mode={p.get("mode", "file")} '
                        f'overrides={p.get("rounds", [])!r}: {text} -> {short(got)}; expected {short(exp)}'}


# ------------------------------------------------------------------ workbook and reference generators
TITLES_UNQUOTED = ['S', 'T2', 'Sheet1', 'Sheet10', 'S_1', 'sS2', 'SS', 'Лист1', 'Übersicht', '2024', 'A1', 'SUM', 'IF', 'TRUE', 'XFD1', '日本語', '_x']
TITLES_QUOTED = ['My Sheet', 'a b c', 'Q1-2024 (final)', 'x,y;z', 'p&l + tax', 'He said "hi"', 'sp  ace', ' lead', 'trail ', 'dot.ted',
                 'a=b', '#hash', '100%', 'S ', 'S 2', '{curly}', '日本 語', 'A1:B2'.replace(':', '-'), 'x<y>z', 'B2 C3', '1+1', '@home~', 'T2 ']
EMPTY_TITLE = 'Empty one'


def forbidden(c1, r1, c2, r2):
    """does the area touch the formula cells / the driver"""
    if r1 is None:
        return c1 <= DRIVER[0] and c2 >= FCOL0
    return c1 <= DRIVER[0] and c2 >= FCOL0 and r2 >= FROW0


def near_model(rng, titles):
    m = Model(titles)
    for s, t in enumerate(titles):
        if t == EMPTY_TITLE:
            continue
        hole = rng.randrange(5, 12)
        for r in range(1, 25):
            width = 8
            if r == 7:
                width = 2                      # a short row below the widest row
            if r == 13:
                width = 0                      # a row that was never written
            if r == 24:
                width = 1
            if r in (17, 18) and s % 2:
                width = 5
            for c in range(1, width + 1):
                core = r <= 6 and c <= 4
                if core or (r * 7 + c * 3 + s) % hole:
                    m.plant(s, c, r)
        for r in range(1, 9):
            m.plant(s, HELP_COL, r, r)
        for c, r in [(26, 2), (27, 2), (27, 9), (52, 10), (53, 10), (26, 10), (19, 3), (20, 4)]:
            if rng.random() < 0.8:
                m.plant(s, c, r)
        if s != 1:                              # sheet 1 stays short: different sheets have different numbers of rows
            for r in (99, 100, 101, 105):
                for c in (1, 2, 3):
                    if rng.random() < 0.85:
                        m.plant(s, c, r)
    return m


def pick_target(rng, titles, own_only=False):
    """-> (sheet or None, quoted)"""
    k = rng.random()
    if k < 0.3:
        return None, False
    s = rng.randrange(len(titles))
    q = True if not unquoted_ok(titles[s]) else rng.random() < 0.4
    return s, q


def near_ref(rng, titles):
    sheet, quoted = pick_target(rng, titles)
    dollars = [rng.random() < 0.35 for _ in range(4)]
    kind = rng.choice(['cell', 'cell', 'colrange', 'rowrange', 'rect', 'rect', 'whole1', 'wholeN', 'farcell', 'bigrect'])
    lowc = [1, 2, 3, 4, 5, 6, 7, 8]
    if kind == 'cell':
        c = rng.choice(lowc + [9, 19, 20, 26, 27, 52, 53, 8, 1])
        r = rng.choice(list(range(1, 31)) + [7, 7, 13, 24, 99, 100, 101, 105, 39])
        return mkref(sheet, quoted, c, r, dollars=dollars)
    if kind == 'farcell':
        c = rng.choice([1, 3, 8, 9, 19, 20, 28, 54, 256])
        r = rng.choice([150, 498, 499, 500, 501, 502, 1000, 1001, 65536, 99999, 1048576])
        if forbidden(c, r, c, r):
            c = 19
        return mkref(sheet, quoted, c, r, dollars=dollars)
    if kind == 'colrange':
        c = rng.choice(lowc + [9, 26, 27])
        r1 = rng.choice([1, 2, 5, 6, 7, 12, 13, 20, 23, 97, 99, 100])
        r2 = r1 + rng.choice([0, 1, 2, 3, 6, 11])
        return mkref(sheet, quoted, c, r1, c, r2, dollars)
    if kind == 'rowrange':
        r = rng.choice([1, 2, 6, 7, 8, 9, 10, 13, 17, 24, 25, 100, 101])
        c1 = rng.choice([1, 2, 3, 5])
        c2 = c1 + rng.choice([1, 2, 4, 7])
        if r in (2, 9, 10) and rng.random() < 0.5:
            c1, c2 = rng.choice([(25, 28), (26, 27), (51, 54), (1, 53)])
        if forbidden(c1, r, c2, r):
            c2 = 9
        return mkref(sheet, quoted, c1, r, c2, r, dollars)
    if kind == 'rect':
        c1 = rng.choice([1, 1, 2, 3, 4, 6])
        c2 = min(9, c1 + rng.choice([1, 1, 2, 3, 5]))
        r1 = rng.choice([1, 1, 2, 4, 6, 7, 11, 12, 16, 22, 98, 99])
        r2 = r1 + rng.choice([1, 1, 2, 3, 5, 8])
        return mkref(sheet, quoted, c1, r1, c2, r2, dollars)
    if kind == 'bigrect':
        c1, r1, c2, r2 = rng.choice([(1, 1, 8, 24), (1, 1, 27, 4), (18, 1, 28, 12), (1, 497, 3, 503), (19, 498, 20, 502), (2, 6, 8, 8),
                                     (1, 1, 8, 130), (2, 1, 2, 1100)])     # the last two have more than 1000 cells
        return mkref(sheet, quoted, c1, r1, c2, r2, dollars)
    if kind == 'whole1':
        c = rng.choice(lowc + [26, 27, 9])
        return mkref(sheet, quoted, c, None, c, None, dollars)
    c1 = rng.choice([1, 1, 2, 4, 6])
    c2 = min(8, c1 + rng.choice([1, 2, 2, 3]))
    if rng.random() < 0.15:
        c1, c2 = 26, 27
    return mkref(sheet, quoted, c1, None, c2, None, dollars)


def forms_for(rng, ref, model_rows=24):
    sh = shape_of(ref)
    if sh == 'cell':
        return [{'form': f, 'ref': ref, 'args': []} for f in rng.sample(['direct', 'direct', 'plus0', 'sum'], 2)]
    out = [{'form': 'sum', 'ref': ref, 'args': []}]
    if sh in ('wholecol1', 'wholecolN'):
        nr, nc = model_rows, ref['c2'] - ref['c1'] + 1
        if rng.random() < 0.12:
            out.append({'form': 'direct', 'ref': ref, 'args': []})
    else:
        nr, nc = ref['r2'] - ref['r1'] + 1, ref['c2'] - ref['c1'] + 1
        if nr * nc <= 40 and rng.random() < 0.5:
            out.append({'form': 'direct', 'ref': ref, 'args': []})
    picks = {(1, 1), (nr, nc), (1, nc), (nr, 1), (rng.randint(1, nr), rng.randint(1, nc))}
    for i, j in rng.sample(sorted(picks), min(2, len(picks))):
        out.append({'form': 'index', 'ref': ref, 'args': [i, j]})
    if (nr == 1) != (nc == 1) and sh != 'wholecol1':
        out.append({'form': 'index1', 'ref': ref, 'args': [rng.randint(1, max(nr, nc))]})
    return out


def grid_obs(titles):
    """exhaustive: 6 base areas x every $ pattern x every prefix spelling of every sheet (form SUM, INDEX for areas)"""
    bases = [(2, 2, None, None), (2, 2, 2, 5), (2, 3, 5, 3), (2, 2, 4, 4), (1, None, 1, None), (1, None, 3, None)]
    targets = [(None, False)]
    for s, t in enumerate(titles):
        targets.append((s, True))
        if unquoted_ok(t):
            targets.append((s, False))
    out = []
    for (c1, r1, c2, r2) in bases:
        free = [0, 1] if c2 is None else ([0, 2] if r1 is None else [0, 1, 2, 3])
        for bits in itertools.product([0, 1], repeat=len(free)):
            dollars = [0, 0, 0, 0]
            for pos, b in zip(free, bits):
                dollars[pos] = b
            for sheet, quoted in targets:
                ref = mkref(sheet, quoted, c1, r1, c2, r2, dollars)
                if c2 is None:
                    out.append({'form': 'direct', 'ref': ref, 'args': []})
                    out.append({'form': 'sum', 'ref': ref, 'args': []})
                else:
                    out.append({'form': 'sum', 'ref': ref, 'args': []})
                    nr = 3 if r1 is None else r2 - r1 + 1
                    out.append({'form': 'index', 'ref': ref, 'args': [min(2, nr), c2 - c1 + 1]})
    return out


FAR_COLS = [26, 27, 52, 53, 702, 703, 704, 705, 1024, 16383, 16384]


def far_model(rng, titles, deep):
    m = Model(titles)
    rows = [1, 2, 9, 10, 11, 99, 100, 101, 999, 1000, 1001] + ([9999, 10000, 12345, 65536, 99999] if deep else [])
    for s in range(len(titles)):
        for c in (1, 2, 3):
            for r in rows:
                if rng.random() < 0.8:
                    m.plant(s, c, r)
        widest = rng.sample(rows[:8], 2)
        for r in rows:
            for c in FAR_COLS:
                if c >= 16383 and r not in widest:
                    continue
                if c >= 700 and r > 1001:
                    continue
                if rng.random() < 0.6:
                    m.plant(s, c, r)
        m.plant(s, 16384, widest[0])
        m.plant(s, 703, 100)
        m.plant(s, 704, 1000)
    return m, rows


def far_ref(rng, titles, rows, deep):
    sheet, quoted = pick_target(rng, titles)
    dollars = [rng.random() < 0.35 for _ in range(4)]
    kind = rng.choice(['cell', 'cell', 'colrange', 'rowrange', 'rect'] + ([] if deep else ['whole']))
    c = rng.choice(FAR_COLS + [25, 28, 51, 54, 701, 706, 16382, 1, 3])
    r = rng.choice(rows + [rows[rng.randrange(len(rows))] + rng.choice([-1, 1])])
    r = max(1, r)
    if kind == 'cell':
        return mkref(sheet, quoted, c, r, dollars=dollars)
    if kind == 'colrange':
        r1 = max(1, r - rng.choice([0, 1, 2]))
        return mkref(sheet, quoted, c, r1, c, r1 + rng.choice([1, 2, 3, 12]), dollars)
    if kind == 'rowrange':
        c1 = max(1, c - rng.choice([0, 1, 2]))
        return mkref(sheet, quoted, c1, r, min(16384, c1 + rng.choice([1, 2, 3, 30])), r, dollars)
    if kind == 'rect':
        c1, r1 = max(1, c - rng.choice([0, 1, 2])), max(1, r - rng.choice([0, 1, 2]))
        return mkref(sheet, quoted, c1, r1, min(16384, c1 + rng.choice([1, 2, 3])), r1 + rng.choice([1, 2, 3]), dollars)
    c1 = rng.choice([26, 702, 703, 16383, 16384, 1])
    c2 = min(16384, c1 + rng.choice([0, 1, 2]))
    return mkref(sheet, quoted, c1, None, c2, None, dollars)


def far_ok(ref):
    r1 = ref['r1']
    c2 = ref['c2'] if ref['c2'] is not None else ref['c1']
    r2 = ref['r2'] if ref['c2'] is not None else ref['r1']
    return not forbidden(ref['c1'], r1, c2, r2)


# ------------------------------------------------------------------ one job = two workbooks through one Parser
def make_book(rng, job, titles):
    plan = job['plan']
    if plan == 'far':
        model, rows = far_model(rng, titles, job.get('deep', False))
        obs = []
        while len(obs) < job['n']:
            ref = far_ref(rng, titles, rows, job.get('deep', False))
            if far_ok(ref):
                obs.extend(forms_for(rng, ref, model_rows=12))
    else:
        model = near_model(rng, titles)
        obs = grid_obs(titles) if plan == 'grid' else []
        while len(obs) < job['n']:
            if plan == 'fn':
                obs.append(fn_obs(rng, titles))
            else:
                obs.extend(forms_for(rng, near_ref(rng, titles)))
    empty = [s for s, t in enumerate(titles) if t == EMPTY_TITLE]
    obs = [o for o in obs if not (o['ref']['sheet'] in empty and o['ref']['r1'] is None and o['ref']['c2'] is not None
                                  and o['form'] in ('index', 'index1', 'direct'))]
    hosts = [s for s in range(len(titles)) if s not in empty]
    return model, obs, hosts


def screen(obs, titles):
    """lexer contract on a whole formula: the reference tokens, in order, are exactly the spelled references.
    -> None or (key, text)"""
    from excel2pycl.src.lexer import Lexer
    from excel2pycl.src.cell import Cell
    own = 7
    in_cell = Cell(own, 3, 4)
    in_cell._handled_identifiers = True
    text = formula_text(obs, titles)
    if obs['form'] == 'fn':
        order = [int(x) for x in re.findall(r'\{(\d+)\}', FN_TEMPLATES[obs['fn']])]
        refs = [obs['refs'][i] for i in order]
    else:
        refs = [obs['ref']]
    want = []
    for r in refs:
        t = own if r['sheet'] is None else titles[r['sheet']]
        cells = [(t, colname(r['c1']), None if r['r1'] is None else str(r['r1']))]
        if r['c2'] is not None:
            cells.append((t, colname(r['c2']), None if r['r2'] is None else str(r['r2'])))
        want.append(cells)
    toks = lib.call_catch(Lexer.parse, text, in_cell)
    if isinstance(toks, codec.Raised):
        return f'C02.lexer.formula.{obs.get("fn", obs["form"])}', f'Lexer.parse({text!r}) raised {toks!r}'
    seen = []
    for t in toks:
        name = type(t).__name__
        if name in REF_TOKENS:
            cells = [t.cell] if name == 'CellIdentifierToken' else list(t.matrix if name == 'MatrixOfCellIdentifiersToken' else t.range)
            seen.append([(c.title, c.column, c.row or None) for c in cells])
    if seen == want:
        return None
    span = any(isinstance(c[0], str) and "'!" in c[0] for cells in seen for c in cells)
    key = SPAN_KEY if span else f'C02.lexer.formula.{obs.get("fn", obs["form"])}'
    return key, f'Lexer.parse({text!r}): reference tokens {short(seen, 200)}, spelled {short(want, 200)}'


def override_batches(rng, model, plan):
    n = len(model.titles)
    cands = []
    for s in range(n):
        if plan == 'far':
            cands += [(s, c, r) for c in (703, 16384, 27, 1) for r in (2, 100, 1000)]
            continue
        cands += [(s, rng.randint(1, 4), rng.randint(1, 6)), (s, rng.randint(3, 8), 7), (s, rng.randint(1, 8), 13),
                  (s, rng.randint(1, 8), rng.randint(8, 24)), (s, rng.choice([19, 20]), rng.randint(498, 502)),
                  (s, 28, 2), (s, 19, 3), (s, 2, 2), (s, 2, 3)]
        if s != 1:                              # sheet 1 has no stored rows that far down (see whole_column check)
            cands.append((s, rng.randint(1, 3), rng.choice([99, 100, 101])))
        if model.titles[s] == EMPTY_TITLE:
            cands = [x for x in cands if x[0] != s] + [(s, 19, 3), (s, 20, 4)]
    rng.shuffle(cands)
    cands = list(dict.fromkeys(cands))
    k = max(2, len(cands) // 2)
    first = [(s, c, r, 7 * 10 ** 12 + i) for i, (s, c, r) in enumerate(cands[:k])]
    again = [(s, c, r, 8 * 10 ** 12 + i) for i, (s, c, r) in enumerate(cands[k // 2:k + k // 2])]   # half of them a second time
    return [first, again]


def run_book(stats, fails, rig, model, obs, hosts, phase, job, rounds, mode):
    titles = model.titles
    for s in hosts:
        for k, o in enumerate(obs):
            c, r = fpos(k)
            got = rig.get(titles, s, c, r, spelled=(k % 3 == 0))
            exp = expected(model, s, o)
            stats['evals'] += 1
            stats['by_phase'][phase] = stats['by_phase'].get(phase, 0) + 1
            if len(stats['samples']) < 3 and k % 37 == 5:
                stats['samples'].append({'formula': formula_text(o, titles), 'host': titles[s], 'phase': phase, 'value': short(got, 60)})
            if conforms(o, got, exp):
                continue
            key = f'C02.{phase}.{shape_of(o["ref"])}.{prefix_kind(o["ref"], s)}'
            if o['form'] == 'fn':
                key = f'C02.{phase}.fn.{o["fn"]}'
            if any(f['key'] == key for f in fails):
                continue
            text = formula_text(o, titles)
            payload = {'kind': 'wb', 'titles': titles, 'cells': model.cell_list(), 'host': s, 'obs': o, 'mode': mode,
                       'rounds': [[list(x) for x in b] for b in rounds]}
            used = {s} | {r['sheet'] for r in o.get('refs', [o['ref']])}
            small = dict(payload, cells=[x for x in payload['cells'] if x[0] in used])
            for cand in (small, payload):
                rp = lib.call_catch(single_replay, cand)
                if isinstance(rp, dict) and rp['fails']:
                    payload = cand
                    break
            else:
                payload = {'kind': 'job', 'job': job, 'key': key}
            fails.append({'key': key, 'what': f'[{phase}, sheets {titles!r}, host {titles[s]!r}] {text} -> {short(got, 90)}, expected {short(exp, 90)}',
                          'replay': payload})


def book_job(job):
    """Book A: whole-file, then entry-point translation, then two override rounds; book B (other sheet order, same Parser
    object, entry cell kept): overrides first, then values; then whole-file again."""
    from excel2pycl import Parser
    rng = random.Random(job['seed'])
    stats = {'evals': 0, 'by_phase': {}, 'samples': [], 'seconds': 0.0}
    fails = []
    t0 = time.time()
    parser = Parser()
    titles_a = list(job['titles'])
    home = titles_a[0]
    with lib.scratch() as d:
        for book in ('A', 'B'):
            titles = list(titles_a)
            if book == 'B':
                if not job.get('second', True):
                    break
                while titles == titles_a and len(titles) > 1:
                    rng.shuffle(titles)
            model, obs, hosts = make_book(rng, job, titles)
            kept = []
            for o in obs:
                bad = screen(o, titles)
                stats['evals'] += 1
                stats['by_phase']['lexer'] = stats['by_phase'].get('lexer', 0) + 1
                if bad is None:
                    kept.append(o)
                elif not any(f['key'] == bad[0] for f in fails):
                    fails.append({'key': bad[0], 'what': bad[1],
                                  'replay': {'kind': 'wb', 'titles': titles, 'cells': model.cell_list(), 'host': hosts[0], 'obs': o, 'mode': 'file'}})
            obs = kept
            texts = [formula_text(o, titles) for o in obs]
            drv = titles.index(home)
            path = os.path.join(d, f'{book}.xlsx')
            lib.write_workbook(build_spec(model, texts, hosts, drv), path)
            entry = (home, colname(DRIVER[0]), str(DRIVER[1]))
            order = [('file', None), ('entry', entry)] if book == 'A' else [('entry', entry), ('file', None)]
            for mode, ent in order:
                rig = Rig(parser, path, ent)
                phase = {'A': {'file': 'ref', 'entry': 'entry'}, 'B': {'file': 'reuse', 'entry': 'reuse'}}[book][mode]
                if rig.error is not None:
                    fails.append({'key': f'C02.{phase}.translation', 'what': f'[{mode}, sheets {titles!r}] translation raised {rig.error!r}',
                                  'replay': {'kind': 'job', 'job': job, 'key': f'C02.{phase}.translation'}})
                    continue
                model.over = {}
                if book == 'A' and mode == 'file':
                    run_book(stats, fails, rig, model, obs, hosts, phase, job, [], mode)
                elif book == 'A':
                    run_book(stats, fails, rig, model, obs, hosts, phase, job, [], mode)
                    done = []
                    for i, batch in enumerate(override_batches(rng, model, job['plan'])):
                        r = rig.set(titles, batch, spelled=bool(i % 2))
                        if isinstance(r, codec.Raised):
                            fails.append({'key': 'C02.override.set_cells', 'what': f'set_cells({batch!r}) raised {r!r}',
                                          'replay': {'kind': 'job', 'job': job, 'key': 'C02.override.set_cells'}})
                            break
                        done.append(batch)
                        for s, c, r_, v in batch:
                            model.over[(s, c, r_)] = v
                        run_book(stats, fails, rig, model, obs, hosts, 'override', job, done, mode)
                elif mode == 'entry':
                    batch = override_batches(rng, model, job['plan'])[0]
                    r = rig.set(titles, batch, spelled=True)       # overrides before the first evaluation
                    if isinstance(r, codec.Raised):
                        fails.append({'key': 'C02.reuse.set_cells', 'what': f'set_cells({batch!r}) raised {r!r}',
                                      'replay': {'kind': 'job', 'job': job, 'key': 'C02.reuse.set_cells'}})
                        continue
                    for s, c, r_, v in batch:
                        model.over[(s, c, r_)] = v
                    run_book(stats, fails, rig, model, obs, hosts, phase, job, [batch], mode)
                else:
                    run_book(stats, fails, rig, model, obs, hosts, phase, job, [], mode)
    stats['seconds'] = time.time() - t0
    return {'stats': stats, 'fails': fails, 'plan': job['plan']}


def pool_map(fn, items):
    if len(items) <= 1:
        return [fn(x) for x in items]
    import multiprocessing
    with multiprocessing.get_context('fork').Pool(min(NPROC, len(items))) as pool:
        return pool.map(fn, items, chunksize=1)


# ------------------------------------------------------------------ lexer: one reference token with the spelled coordinates
LEX_COLS = ['A', 'B', 'Z', 'AA', 'AZ', 'BA', 'ZZ', 'AAA', 'AAB', 'XFD', 'IF', 'OR', 'SUM', 'MAX', 'MIN', 'DAY', 'AND', 'MID', 'E', 'IFS', 'XFC', 'ABC']
LEX_ROWS = ['1', '9', '10', '99', '100', '101', '1000', '12345', '99999', '1048576', '7', '65536']
LEX_SUFFIX = ['', '+1', '*2', ')', ',1)', ';2)', '=0', '<>B7', '&"x"', ' )', '%', ' +1', '>=C3', "+'zz zz'!B2", ",'q r'!A1:B2)", '+Other!C3',
              '-D4:D5', ')*(1+2)', ",'q r'!A1:A5)", "+SUM('q r'!B2:D2)", ",'q r'!C:C)", ',"it\'s")', '<B2', '/2']
LEX_TITLES_Q = TITLES_QUOTED + TITLES_UNQUOTED[:6] + ['bang!in', 'a!', '!b']
SPAN_KEY = 'C02.lexer.quoted_title_spans_two_references'
REF_TOKENS = ('MatrixOfCellIdentifiersToken', 'CellIdentifierRangeToken', 'CellIdentifierToken')


def lex_cases(rng, per_combo):
    prefixes = [(None, False)] + [(t, False) for t in TITLES_UNQUOTED] + [(t, True) for t in LEX_TITLES_Q]
    shapes = [('cell', 2), ('colrange', 4), ('rowrange', 4), ('rect', 4), ('whole1', 2), ('wholeN', 2)]
    for (title, quoted), (shape, nd) in itertools.product(prefixes, shapes):
        for bits in itertools.product([0, 1], repeat=nd):
            for _ in range(per_combo):
                c1, c2 = rng.choice(LEX_COLS), rng.choice(LEX_COLS)
                r1, r2 = rng.choice(LEX_ROWS), rng.choice(LEX_ROWS)
                if shape == 'cell':
                    cells = [(c1, r1)]
                    text = ('$' if bits[0] else '') + c1 + ('$' if bits[1] else '') + r1
                elif shape in ('whole1', 'wholeN'):
                    if shape == 'whole1':
                        c2 = c1
                    elif c1 == c2:
                        c2 = 'C' if c1 != 'C' else 'D'
                    cells = [(c1, None), (c2, None)]
                    text = ('$' if bits[0] else '') + c1 + ':' + ('$' if bits[1] else '') + c2
                else:
                    if shape == 'colrange':
                        c2 = c1
                    elif shape == 'rowrange':
                        r2 = r1
                        if c1 == c2:
                            c2 = 'C' if c1 != 'C' else 'D'
                    else:
                        if c1 == c2:
                            c2 = 'C' if c1 != 'C' else 'D'
                        if r1 == r2:
                            r2 = '3' if r1 != '3' else '4'
                    cells = [(c1, r1), (c2, r2)]
                    text = ('$' if bits[0] else '') + c1 + ('$' if bits[1] else '') + r1 + ':' + \
                           ('$' if bits[2] else '') + c2 + ('$' if bits[3] else '') + r2
                pre = '' if title is None else (("'" + title + "'!") if quoted else title + '!')
                yield {'title': title, 'quoted': quoted, 'shape': shape, 'text': pre + text, 'cells': cells, 'suffix': rng.choice(LEX_SUFFIX)}


def tok_sig(tokens):
    out = []
    for t in tokens:
        name = type(t).__name__
        if name == 'CellIdentifierToken':
            c = t.cell
            out.append((name, c.title, c.column, c.row))
        elif name == 'MatrixOfCellIdentifiersToken':
            out.append((name,) + tuple((c.title, c.column, c.row) for c in t.matrix))
        elif name == 'CellIdentifierRangeToken':
            out.append((name,) + tuple((c.title, c.column, c.row) for c in t.range))
        else:
            out.append((name, repr(t.value)))
    return out


def lex_one(case):
    """-> None (conforms), 'skip' (no clause) or a failure description"""
    from excel2pycl.src.lexer import Lexer
    from excel2pycl.src.cell import Cell
    own = 7
    in_cell = Cell(own, 3, 4)
    in_cell._handled_identifiers = True
    got = lib.call_catch(Lexer.parse, '=' + case['text'] + case['suffix'], in_cell)
    bang = case['title'] is not None and '!' in case['title']
    if isinstance(got, codec.Raised):
        if bang and got.isa('E2PyclException'):
            return 'skip'                      # a quoted title containing '!' may be refused, never misread
        return f'raised {got!r}'
    if len(got) < 2 or type(got[0]).__name__ != 'EqOperatorToken' or type(got[1]).__name__ not in REF_TOKENS:
        return f'tokens {short(tok_sig(got))}'
    t = got[1]
    name = type(t).__name__
    cells = [t.cell] if name == 'CellIdentifierToken' else list(t.matrix if name == 'MatrixOfCellIdentifiersToken' else t.range)
    want_title = own if case['title'] is None else case['title']
    seen = [(c.title, c.column, c.row or None) for c in cells]
    want = [(want_title, c, r) for c, r in case['cells']]
    if seen != want:
        if isinstance(seen[0][0], str) and "'!" in seen[0][0]:
            return f'SPAN cells {seen}, spelled {want}'
        if bang:
            # a quoted title containing '!' may be split wrongly as long as no complete formula can be built from the pieces
            from excel2pycl.src.ast_builder import AstBuilder
            for wrap in ('={}', '=SUM({})', '=SUM({},1)', '={}+1'):
                toks = lib.call_catch(Lexer.parse, wrap.format(case['text']), in_cell)
                ast = toks if isinstance(toks, codec.Raised) else lib.call_catch(AstBuilder.parse, toks, in_cell)
                if not (isinstance(ast, codec.Raised) and ast.isa('E2PyclException')):
                    return f'cells {seen}, spelled {want}, and {wrap.format(case["text"])} is accepted by the grammar'
            return 'skip'
        return f'cells {seen}, spelled {want}'
    rest = lib.call_catch(Lexer.parse, case['suffix'], in_cell)
    if isinstance(rest, codec.Raised) or tok_sig(got[2:]) != tok_sig(rest):
        return f'text after the reference lexed as {short(tok_sig(got[2:]))}, alone as {short(rest if isinstance(rest, codec.Raised) else tok_sig(rest))}'
    return None


def lex_job(job):
    rng = random.Random(job['seed'])
    n = skipped = 0
    fails = []
    samples = []
    t0 = time.time()
    first = [{'title': 'q r', 'quoted': True, 'shape': 'cell', 'text': "'q r'!A1", 'cells': [('A', '1')], 'suffix': "+SUM('q r'!B1:B3)"}]
    for case in itertools.chain(first, lex_cases(rng, job['per_combo'])):
        r = lex_one(case)
        if r == 'skip':
            skipped += 1
            continue
        n += 1
        if len(samples) < 2 and n % 1001 == 7:
            samples.append({'text': '=' + case['text'] + case['suffix'], 'result': 'one reference token, spelled coordinates'})
        if r is not None:
            pk = 'bare' if case['title'] is None else ('quoted' if case['quoted'] else 'unquoted')
            key = f'C02.lexer.{case["shape"]}.{pk}'
            if r.startswith('SPAN'):
                key = SPAN_KEY
            if not any(f['key'] == key for f in fails):
                fails.append({'key': key, 'what': f'Lexer.parse({"=" + case["text"] + case["suffix"]!r}): {r}', 'replay': {'kind': 'lex', 'case': case}})
    return {'plan': 'lex', 'stats': {'evals': n, 'skipped': skipped, 'samples': samples, 'seconds': time.time() - t0}, 'fails': fails}


# ------------------------------------------------------------------ coordinates: letters / digits / titles -> (sheet, column, row)
def coords_check(tier):
    from excel2pycl import Cell, Executor
    from excel2pycl.src.handle_cell import handle_cell
    t0 = time.time()
    fails, n = [], 0
    titles = {'S': 0, 'My Sheet': 1, '2': 2, '0': 3, 's': 4, 'S ': 5, 'Sheet1': 6, 'Sheet10': 7, 'Sheet11': 8, 'A1': 9, 'Лист1': 10, '10': 11}

    def one(title, letters, digits, want, kind):
        nonlocal n
        n += 1
        c = Cell(title, letters, digits)
        r = lib.call_catch(handle_cell, c, dict(titles))
        seen = r if isinstance(r, codec.Raised) else (c.title, c.column, c.row)
        if seen != want:
            key = f'C02.coords.{kind}'
            if not any(f['key'] == key for f in fails):
                fails.append({'key': key, 'what': f'handle_cell(Cell({title!r}, {letters!r}, {digits!r})) -> {seen!r}, expected {want!r}',
                              'replay': {'kind': 'handle', 'title': title, 'column': letters, 'row': digits, 'titles': titles,
                                         'want': list(want)}})
    # every column A..XFD (exhaustive), a few rows each
    for k in range(1, 16385):
        one('S', colname(k), str(1 + k % 7), (0, k - 1, k % 7), 'column')
    # every 1..5 digit row (exhaustive) and the last row of a sheet
    for r in list(range(1, 100000)) + [1048576]:
        one('My Sheet', 'B', str(r), (1, 1, r - 1), 'row')
    for t, i in titles.items():
        one(t, 'XFD', '1048576', (i, 16383, 1048575), 'title')
        one(i, 'AAA', '100', (i, 702, 99), 'title_index')
    one('S', 'A', '', (0, 0, None), 'whole_column')
    # the public route: an override written with spelled coordinates is read back with numeric coordinates and vice versa
    cls = lib.load_class_from_text(_render_with_titles(list(titles)))
    ex = Executor().set_executed_class(class_object=cls)
    cols = list(range(1, 16385)) if tier == 'thorough' else sorted(set(list(range(1, 800)) + list(range(16000, 16385)) + list(range(1, 16385, 37))))
    rows = [1, 9, 10, 99, 100, 101, 999, 1000, 1001, 9999, 10000, 65536, 99999, 1048576]
    triples = [(s, c, rows[(c + s) % len(rows)]) for c in cols for s in ((c % len(titles)),)]
    names = list(titles)
    ex.set_cells([Cell(names[s], colname(c), str(r), planted(s, c, r) + 5) for s, c, r in triples])
    for s, c, r in triples:
        n += 1
        got = lib.call_catch(ex.get_cell, Cell(s, c - 1, r - 1))
        got = got if isinstance(got, codec.Raised) else got.value
        if got != planted(s, c, r) + 5 and not any(f['key'] == 'C02.coords.executor' for f in fails):
            fails.append({'key': 'C02.coords.executor', 'what': f'set_cells([Cell({names[s]!r}, {colname(c)!r}, {str(r)!r}, v)]) then '
                          f'get_cell(Cell({s}, {c - 1}, {r - 1})) -> {got!r}, expected v={planted(s, c, r) + 5}',
                          'replay': {'kind': 'exec_coords', 'titles': names, 's': s, 'c': c, 'r': r}})
    # a never-written cell reads as blank, an unknown title is rejected by the Executor as well
    n += 2
    got = lib.call_catch(ex.get_cell, Cell('S', 'XFD', '1048575'))
    if isinstance(got, codec.Raised) or not isinstance(got.value, cls.EmptyCell):
        fails.append({'key': 'C02.coords.blank', 'what': f'get_cell of a never-written cell -> {got!r}, expected blank', 'replay': None})
    got = lib.call_catch(ex.get_cell, Cell('Sheet', 'A', '1'))
    if not isinstance(got, codec.Raised):
        fails.append({'key': 'C02.coords.unknown_title', 'what': f"get_cell(Cell('Sheet','A','1')) with sheets {names!r} -> {got!r}, expected rejection",
                      'replay': None})
    return {'name': 'C02.monitor.coordinates',
            'bound': 'handle_cell on every column string A..XFD (16384), every row string 1..99999 and 1048576, 12 titles (numeric-looking, '
                     'prefix-of-each-other, differing in case / trailing space, non-ASCII) by title and by index; Executor.set_cells with spelled '
                     f'coordinates read back by get_cell with numeric coordinates for {len(triples)} (sheet, column, row) triples '
                     '(columns 1..799, 16000..16384 and every 37th; all 16384 in thorough; rows 1..1048576 around powers of ten)',
            'rule': 'one evaluation = one Cell resolved and compared with (index of the title, colnum(letters)-1, int(digits)-1)',
            'exhaustive': True, 'evaluations': n, 'distinct_nontrivial': n, 'failures': dedupe(fails), 'seconds': time.time() - t0,
            'samples': [{'cell': ['S', 'XFD', '1048576'], 'resolved': [0, 16383, 1048575]}, {'cell': ['My Sheet', 'B', '100'], 'resolved': [1, 1, 99]}]}


def _render_with_titles(titles):
    from excel2pycl.src.context import Context
    ctx = Context()
    ctx._titles = {t: i for i, t in enumerate(titles)}
    ctx._sheets_size = [{'last_column': 0, 'last_row': 0} for _ in titles]
    return ctx.build_class()


# ------------------------------------------------------------------ Excel.get_matrix / get_range / fill_cell on ragged data
def areas_check(tier):
    from excel2pycl.src.excel import Excel
    from excel2pycl.src.cell import Cell
    t0 = time.time()
    lens = [[3, 0, 5, 1, 4, 2], [2, 2], [], [1, 6, 0, 0, 3]]
    titles = ['S', 'My Sheet', 'Empty one', 'T2']
    data = [[[planted(s, c + 1, r + 1) for c in range(n)] for r, n in enumerate(rows)] for s, rows in enumerate(lens)]
    fails, n = [], 0

    def spec(s, c, r):
        return data[s][r][c] if 0 <= r < len(data[s]) and 0 <= c < len(data[s][r]) else None

    def fresh():
        return Excel({'data': data, 'titles': titles, 'suspicious_cells': {}, 'sheets_size': [{} for _ in titles]})

    def fail(key, what, rp):
        if not any(f['key'] == key for f in fails):
            fails.append({'key': key, 'what': what, 'replay': rp})
    x = lib.call_catch(fresh)
    if isinstance(x, codec.Raised):
        fail('C02.areas.api', f'Excel(...) raised {x!r}', None)
        x = None
    maxc, maxr = 7, 8
    for s in range(len(titles) if x else 0):
        for c1, c2 in itertools.combinations_with_replacement(range(maxc), 2):
            for r1, r2 in itertools.combinations_with_replacement(range(maxr), 2):
                n += 1
                spelled = (c1 + r1 + s) % 2 == 0
                a = Cell(titles[s], colname(c1 + 1), str(r1 + 1)) if spelled else Cell(s, c1, r1)
                b = Cell(titles[s], colname(c2 + 1), str(r2 + 1)) if spelled else Cell(s, c2, r2)
                got = lib.call_catch(x.get_matrix, a, b)
                want = [[(s, c, r, spec(s, c, r)) for c in range(c1, c2 + 1)] for r in range(r1, r2 + 1)]
                seen = got if isinstance(got, codec.Raised) else [[(q.title, q.column, q.row, q.value) for q in row] for row in got]
                if seen != want:
                    fail('C02.areas.get_matrix', f'get_matrix(sheet {s}, {colname(c1 + 1)}{r1 + 1}:{colname(c2 + 1)}{r2 + 1}) on rows of lengths '
                         f'{lens[s]} -> {short(seen)}, expected {short(want)}', {'kind': 'areas', 'fn': 'get_matrix', 's': s, 'c1': c1, 'r1': r1, 'c2': c2, 'r2': r2})
                if c1 == c2 or r1 == r2:
                    n += 1
                    got = lib.call_catch(x.get_range, Cell(s, c1, r1), Cell(titles[s], colname(c2 + 1), str(r2 + 1)))
                    wantl = [q for row in want for q in row]
                    seen = got if isinstance(got, codec.Raised) else [(q.title, q.column, q.row, q.value) for q in got]
                    if seen != wantl:
                        fail('C02.areas.get_range', f'get_range(sheet {s}, {colname(c1 + 1)}{r1 + 1}:{colname(c2 + 1)}{r2 + 1}) -> {short(seen)}, '
                             f'expected {short(wantl)}', {'kind': 'areas', 'fn': 'get_range', 's': s, 'c1': c1, 'r1': r1, 'c2': c2, 'r2': r2})
        # whole-column areas: every stored row, row-major
        for c1, c2 in itertools.combinations_with_replacement(range(maxc), 2):
            n += 1
            got = lib.call_catch(x.get_matrix, Cell(titles[s], colname(c1 + 1), ''), Cell(titles[s], colname(c2 + 1), ''))
            want = [[(s, c, r, spec(s, c, r)) for c in range(c1, c2 + 1)] for r in range(len(data[s]))]
            seen = got if isinstance(got, codec.Raised) else [[(q.title, q.column, q.row, q.value) for q in row] for row in got]
            if seen != want:
                fail('C02.areas.whole_column', f'get_matrix(sheet {s}, {colname(c1 + 1)}:{colname(c2 + 1)}) on rows of lengths {lens[s]} -> '
                     f'{short(seen)}, expected {short(want)}', {'kind': 'areas', 'fn': 'whole', 's': s, 'c1': c1, 'c2': c2})
        for c in range(-1, maxc + 1):
            for r in range(-1, maxr + 1):
                n += 1
                got = lib.call_catch(x._fill_cell, Cell(s, c, r))
                seen = got if isinstance(got, codec.Raised) else got.value
                if seen != spec(s, c, r):
                    fail('C02.areas.fill_cell', f'_fill_cell(Cell({s}, {c}, {r})) -> {seen!r}, expected {spec(s, c, r)!r}',
                         {'kind': 'areas', 'fn': 'fill', 's': s, 'c1': c, 'r1': r})
    if x:
        n += 2
        got = lib.call_catch(x.get_matrix, Cell('S', 'A', '1'), Cell('My Sheet', 'B', '2'))
        if not isinstance(got, codec.Raised):
            fail('C02.areas.two_sheets', f'an area whose corners lie on two sheets -> {short(got)}, expected rejection', None)
        got = lib.call_catch(x.fill_cell, Cell('Sheet', 'A', '1'))
        if not isinstance(got, codec.Raised):
            fail('C02.areas.unknown_title', f"fill_cell(Cell('Sheet','A','1')) -> {got!r}, expected rejection", None)
    return {'name': 'C02.monitor.areas',
            'bound': f'Excel object over 4 sheets with row lengths {lens} (ragged, empty rows, an empty sheet): every rectangle with corners in '
                     'columns A..G x rows 1..8 (so past the end of short rows and past the last row), given by title+letters+digits or by numbers; '
                     'every straight line through get_range; every whole-column area A:A..G:G, A:B..F:G; _fill_cell on columns -1..7 x rows -1..8',
            'rule': 'one evaluation = one call; the returned cells must be exactly (sheet, column, row, stored value or None) of the area, row-major',
            'exhaustive': True, 'evaluations': n, 'distinct_nontrivial': n, 'failures': dedupe(fails), 'seconds': time.time() - t0,
            'samples': [{'area': 'S!B1:D3 on rows of lengths [3,0,5]', 'values': [[spec(0, c, r) for c in (1, 2, 3)] for r in (0, 1, 2)]}]}


# ------------------------------------------------------------------ references in function positions
FN_TEMPLATES = {
    'neg': '=-{0}', 'paren': '=({0})', 'mul1': '={0}*1', 'lead0': '=0+{0}', 'minus': '={0}-{1}', 'eq': '={0}={1}', 'lt': '={0}<{1}',
    'if': '=IF({0}>0,{1},{2})', 'iferror': '=IFERROR({0},{1})', 'ifs': '=IFS({0}>{1},{2},{0}<={1},{3})',
    'sum3': '=SUM({0},{1},{2})', 'max': '=MAX({0},{1})', 'min': '=MIN({0},{1})', 'avg': '=AVERAGE({0})', 'count': '=COUNT({0})',
    'countblank': '=COUNTBLANK({0})', 'round': '=ROUND({0},0)', 'index_h': '=INDEX({0},{1},{2})', 'index_area2': '=INDEX(({0},{1}),{a0},{a1},2)',
    'match': '=MATCH({0},{1},0)', 'xmatch': '=XMATCH({0},{1},0)', 'vlookup': '=VLOOKUP({0},{1},{a0},FALSE)',
    'sumif3': '=SUMIF({0},">"&{1},{2})', 'sumif2': '=SUMIF({0},">"&{1})', 'sumif1': '=SUMIF({0},">"&{1},{2})',
    'sumifs': '=SUMIFS({0},{1},">"&{2})', 'sumifs2': '=SUMIFS({0},{1},">"&{2},{3},"<"&{4})', 'countifs': '=COUNTIFS({0},">="&{1})',
    'averageifs': '=AVERAGEIFS({0},{1},"<="&{2})', 'column': '=COLUMN({0})',
}


def fn_text(obs, titles):
    refs = [spell(r, titles) for r in obs['refs']]
    return FN_TEMPLATES[obs['fn']].format(*refs, **{f'a{i}': a for i, a in enumerate(obs['args'])})


def fn_expected(model, own, obs):
    ms = [model.matrix(r, own) for r in obs['refs']]
    fl = [[v for row in m for v in row] for m in ms]
    v = [f[0] for f in fl]
    fn, a = obs['fn'], obs['args']
    nums = lambda xs: [x for x in xs if not is_blank(x)]
    if fn == 'neg':
        return -num(v[0])
    if fn == 'paren':
        return v[0]
    if fn in ('mul1', 'lead0', 'round'):
        return num(v[0])
    if fn == 'minus':
        return num(v[0]) - num(v[1])
    if fn == 'eq':
        return num(v[0]) == num(v[1])
    if fn == 'lt':
        return num(v[0]) < num(v[1])
    if fn == 'if':
        return v[1]
    if fn == 'iferror':
        return v[0]
    if fn == 'ifs':
        return v[2] if v[0] > v[1] else v[3]
    if fn == 'sum3':
        return sum(nums(fl[0] + fl[1] + fl[2]))
    if fn == 'max':
        return max(nums(fl[0] + fl[1]))
    if fn == 'min':
        return min(nums(fl[0] + fl[1]))
    if fn == 'avg':
        return codec.enc(sum(nums(fl[0])) / len(nums(fl[0])))
    if fn == 'count':
        return len(nums(fl[0]))
    if fn == 'countblank':
        return len(fl[0]) - len(nums(fl[0]))
    if fn == 'index_h':
        return ms[0][v[1] - 1][v[2] - 1]
    if fn == 'index_area2':
        return ms[1][a[0] - 1][a[1] - 1]
    if fn in ('match', 'xmatch'):
        return fl[1].index(v[0]) + 1
    if fn == 'vlookup':
        return [row for row in ms[1] if row[0] == v[0]][0][a[0] - 1]
    if fn == 'sumif3':
        return sum(num(y) for x, y in zip(fl[0], fl[2]) if not is_blank(x) and x > v[1])
    if fn == 'sumif2':
        return sum(x for x in fl[0] if not is_blank(x) and x > v[1])
    if fn == 'sumif1':
        # the sum area starts at the given cell and has the shape of the criteria area
        r0, base = obs['refs'][0], obs['refs'][2]
        s = own if base['sheet'] is None else base['sheet']
        out = 0
        for i in range(r0['r2'] - r0['r1'] + 1):
            for j in range(r0['c2'] - r0['c1'] + 1):
                x = ms[0][i][j]
                if not is_blank(x) and x > v[1]:
                    out += num(model.val(s, base['c1'] + j, base['r1'] + i))
        return out
    if fn == 'sumifs':
        return sum(num(y) for y, x in zip(fl[0], fl[1]) if num(x) > v[2])
    if fn == 'sumifs2':
        return sum(num(y) for y, x, z in zip(fl[0], fl[1], fl[3]) if num(x) > v[2] and num(z) < v[4])
    if fn == 'countifs':
        return len([x for x in fl[0] if num(x) >= v[1]])
    if fn == 'averageifs':
        sel = [y for y, x in zip(fl[0], fl[1]) if num(x) <= v[2]]
        return codec.enc(sum(sel) / len(sel))
    if fn == 'column':
        return obs['refs'][0]['c1']
    raise ValueError(fn)


def fn_obs(rng, titles):
    """references on any sheet / any spelling inside every supported function position; areas lie in rows 1..24, columns A..H"""
    def tgt():
        return pick_target(rng, titles)

    def dl():
        return [rng.random() < 0.3 for _ in range(4)]

    def cell(planted_only=True, core=False):
        s, q = tgt()
        if core or planted_only:
            return mkref(s, q, rng.randint(1, 4), rng.randint(1, 6), dollars=dl())
        return mkref(s, q, rng.randint(1, 8), rng.choice([2, 3, 7, 8, 9, 13, 14, 20, 24]), dollars=dl())

    def col(n=None, core=False, c=None, r1=None):
        s, q = tgt()
        n = n or rng.randint(2, 9)
        if core:
            n = min(n, 6)
            r1 = rng.randint(1, 7 - n) if r1 is None else r1
            c = rng.randint(1, 4) if c is None else c
        else:
            r1 = rng.randint(1, 24 - n) if r1 is None else r1
            c = rng.randint(1, 8) if c is None else c
        return mkref(s, q, c, r1, c, r1 + n - 1, dl())

    def rect(core=False):
        s, q = tgt()
        if core:
            c1, r1 = rng.randint(1, 2), rng.randint(1, 3)
            return mkref(s, q, c1, r1, rng.randint(c1 + 1, 4), rng.randint(r1 + 1, 6), dl())
        c1, r1 = rng.randint(1, 6), rng.randint(1, 18)
        return mkref(s, q, c1, r1, rng.randint(c1 + 1, 8), r1 + rng.randint(1, 6), dl())

    def helper(k):
        s, q = tgt()
        return mkref(s, q, HELP_COL, k, dollars=dl())

    fn = rng.choice(sorted(FN_TEMPLATES))
    args = []
    if fn in ('neg', 'paren', 'mul1', 'lead0'):
        refs = [cell(planted_only=False)]
    elif fn == 'round':
        refs = [cell()]
    elif fn in ('minus', 'eq', 'lt'):
        refs = [cell(), cell()]
    elif fn == 'if':
        refs = [cell(), cell(False), cell(False)]
    elif fn == 'iferror':
        refs = [cell(False), cell()]
    elif fn == 'ifs':
        refs = [cell(), cell(), cell(False), cell(False)]
    elif fn == 'sum3':
        refs = [cell(False), col(), rect()]
    elif fn in ('max', 'min'):
        refs = [rect(), cell()]
    elif fn == 'avg':
        refs = [rect(core=True)]
    elif fn in ('count', 'countblank'):
        refs = [rect()]
    elif fn == 'index_h':
        r = rect()
        refs = [r, helper(rng.randint(1, r['r2'] - r['r1'] + 1)), helper(rng.randint(1, r['c2'] - r['c1'] + 1))]
    elif fn == 'index_area2':
        r = rect()
        refs = [rect(), r]
        args = [rng.randint(1, r['r2'] - r['r1'] + 1), rng.randint(1, r['c2'] - r['c1'] + 1)]
    elif fn in ('match', 'xmatch'):
        r = col(core=True)
        k = rng.randint(r['r1'], r['r2'])
        refs = [mkref(r['sheet'], r['quoted'] if r['sheet'] is not None else False, r['c1'], k, dollars=dl()), r]
    elif fn == 'vlookup':
        r = rect(core=True)
        k = rng.randint(r['r1'], r['r2'])
        refs = [mkref(r['sheet'], r['quoted'], r['c1'], k, dollars=dl()), r]
        args = [rng.randint(1, r['c2'] - r['c1'] + 1)]
    elif fn in ('sumif3', 'sumif2'):
        n = rng.randint(2, 9)
        refs = [col(n), cell(), col(n)][:3 if fn == 'sumif3' else 2]
    elif fn == 'sumif1':
        r = rng.choice([col(), rect()])
        s, q = tgt()
        refs = [r, cell(), mkref(s, q, rng.randint(1, 4), rng.randint(1, 10), dollars=dl())]
    elif fn == 'sumifs':
        n = rng.randint(2, 9)
        refs = [col(n), col(n), cell()]
    elif fn == 'sumifs2':
        n = rng.randint(2, 9)
        refs = [col(n), col(n), cell(), col(n), cell()]
    elif fn == 'countifs':
        refs = [col(), cell()]
    elif fn == 'averageifs':
        n = rng.randint(2, 5)
        top = rng.randint(1, 7 - n)
        crit = col(n, core=True, r1=top)
        refs = [col(n, core=True), crit, mkref(crit['sheet'], crit['quoted'], crit['c1'], crit['r2'], dollars=dl())]
    else:
        refs = [cell(False)]
    return {'form': 'fn', 'fn': fn, 'refs': refs, 'ref': refs[0], 'args': args}


# ------------------------------------------------------------------ unknown titles are rejected; titles containing '!' are never misread
def risky_job(job):
    from excel2pycl import Parser, Cell
    rng = random.Random(job['seed'])
    t0 = time.time()
    titles = ['S', 'Sheet1', 'My Sheet', 'bang!in', '10', 'a!', 'Sheet10x']
    model = Model(titles)
    for s in range(len(titles)):
        for r in range(1, 9):
            for c in range(1, 6):
                if (r + c + s) % 5:
                    model.plant(s, c, r)
    unknown_q = ['s', 'S ', ' S', 'Sheet', 'Sheet10', 'Sheet11', 'My  Sheet', 'my sheet', 'MySheet', '0', '1', '2', '3', '6', '7', '-1', 'bang', 'in',
                 'bang!i', 'Ѕ', 'Sheet1 ', 'My Sheet ', '10 ', '010', '1e1', 'S!S', '', 'a', 'Sheet10', 'My', 'My Sheet2', 'None', 'True']
    unknown_u = [t for t in unknown_q if unquoted_ok(t)] + ['']
    shapes = ['B2', '$B$2', 'B2:C3', 'B2:B4', 'B2:D2', 'A:A', 'A:B', 'XFD1048576', 'AAA100:AAB101']
    wraps = ['={}', '=SUM({})', '=SUM(A1,{})', '=IF(A1>0,1,{})', '=A1+{}', '=IFERROR({},0)', '=INDEX({},1,1)']
    items = []
    combos = [(t, True) for t in unknown_q] + [(t, False) for t in unknown_u]
    for t, q in combos:
        picks = list(itertools.product(shapes, wraps))
        rng.shuffle(picks)
        for shape, wrap in picks[:job['per_title']]:
            if wrap.startswith('=INDEX') and ':' not in shape:
                continue
            pre = ("'" + t + "'!") if q else (t + '!')
            items.append({'kind': 'unknown', 'text': wrap.format(pre + shape), 'title': t})
    bang_obs = []
    for s in (3, 5):
        for (c1, r1, c2, r2) in [(2, 2, None, None), (2, 2, 2, 5), (2, 3, 5, 3), (2, 2, 4, 4), (1, None, 1, None), (1, None, 3, None), (27, 100, None, None)]:
            for dollars in ([0, 0, 0, 0], [1, 1, 1, 1], [1, 0, 0, 1]):
                ref = mkref(s, True, c1, r1, c2, r2, dollars)
                for form in (['direct', 'sum', 'plus0'] if c2 is None else ['sum', 'index']):
                    o = {'form': form, 'ref': ref, 'args': [2 if r1 is None or r2 > r1 else 1, 1] if form == 'index' else []}
                    items.append({'kind': 'bang', 'text': formula_text(o, titles), 'obs': o})
    hosts = [0, 2]
    fails, n, rejected = [], 0, 0
    with lib.scratch() as d:
        path = os.path.join(d, 'r.xlsx')
        spec = build_spec(model, [it['text'] for it in items], hosts)
        lib.write_workbook(spec, path)
        parser = Parser()
        parser.set_excel_file_path(path)
        whole = lib.call_catch(parser.get_translation)
        n += 1
        if not isinstance(whole, codec.Raised):
            fails.append({'key': 'C02.unknown_title.whole_file', 'what': 'a workbook with references to unknown titles was translated without error',
                          'replay': None})
        for k, it in enumerate(items):
            for host in hosts:
                if it['kind'] == 'bang' and host != 0 and k % 3:
                    continue
                c, r = fpos(k)
                n += 1
                rig = Rig(parser, path, (titles[host], colname(c), str(r)))     # one Parser object, entry cell changed every time
                if it['kind'] == 'unknown':
                    rp = {'kind': 'unknown', 'titles': titles, 'cells': model.cell_list(), 'host': host, 'formula': it['text']}
                    if rig.error is None:
                        got = rig.get(titles, host, c, r)
                        key = 'C02.unknown_title.empty_title' if it['title'] == '' else 'C02.unknown_title.resolved'
                        if not any(f['key'] == key for f in fails):
                            fails.append({'key': key, 'what': f'sheets {titles!r}, on {titles[host]!r}: {it["text"]} -> {short(got, 80)}, expected rejection '
                                          f'(there is no sheet titled {it["title"]!r})', 'replay': rp})
                    elif not rig.error.isa('E2PyclException'):
                        key = 'C02.unknown_title.not_library_exception'
                        if not any(f['key'] == key for f in fails):
                            fails.append({'key': key, 'what': f'{it["text"]} raised {rig.error!r}, expected a library exception', 'replay': rp})
                else:
                    if rig.error is not None:
                        if rig.error.isa('E2PyclException'):
                            rejected += 1
                            n -= 1
                            continue
                        got = codec.enc(rig.error)
                    else:
                        got = rig.get(titles, host, c, r)
                    exp = expected(model, host, it['obs'])
                    if not conforms(it['obs'], got, exp):
                        key = f'C02.bang_title.{shape_of(it["obs"]["ref"])}'
                        if not any(f['key'] == key for f in fails):
                            fails.append({'key': key, 'what': f'sheets {titles!r}, on {titles[host]!r}: {it["text"]} -> {short(got, 80)}, expected {short(exp, 80)}',
                                          'replay': {'kind': 'wb', 'titles': titles, 'cells': model.cell_list(), 'host': host, 'obs': it['obs'],
                                                     'mode': 'entry', 'reject_ok': True}})
    return {'plan': 'risky', 'fails': fails,
            'stats': {'evals': n, 'skipped': rejected, 'seconds': time.time() - t0,
                      'samples': [{'formula': "=SUM('Sheet'!B2:C3)", 'sheets': titles, 'result': 'E2PyclCellException'}]}}


def unknown_replay(p):
    from excel2pycl import Parser
    model = Model(p['titles'], p['cells'])
    with lib.scratch() as d:
        path = os.path.join(d, 'w.xlsx')
        lib.write_workbook(build_spec(model, [p['formula']], [p['host']]), path)
        rig = Rig(Parser(), path, None)
        if rig.error is not None:
            return {'fails': not rig.error.isa('E2PyclException'), 'text': f'{p["formula"]} with sheets {p["titles"]!r}: translation raised {rig.error!r}'}
        got = rig.get(model.titles, p['host'], FCOL0, FROW0)
        return {'fails': True, 'text': f'{p["formula"]} with sheets {p["titles"]!r} on sheet {model.titles[p["host"]]!r} -> {short(got)}; expected rejection'}


# ------------------------------------------------------------------ whole-column areas
def wholecol_job(job):
    """A:A / A:D on the own sheet, on a sheet with fewer rows and on an empty sheet: row-major, blanks, overrides inside the
    stored rows; and (second part) cells of the column that lie below the last stored row."""
    from excel2pycl import Parser
    t0 = time.time()
    titles = ['S', 'Few rows', EMPTY_TITLE, 'T2']
    model = Model(titles)
    lens = {0: [4, 2, 0, 4, 1, 3, 4, 0, 2, 4, 4, 3], 1: [3, 1, 3], 3: [2, 4, 4, 1, 0, 3]}
    for s, ls in lens.items():
        for r, ln in enumerate(ls, 1):
            for c in range(1, ln + 1):
                if (r * 5 + c + s) % 7:
                    model.plant(s, c, r)
    obs = []
    targets = [(None, False), (0, False), (0, True), (1, True), (2, True), (3, False), (3, True)]
    for sheet, q in targets:
        for c1, c2 in [(1, 1), (2, 2), (4, 4), (1, 2), (1, 4), (2, 4), (3, 5), (5, 5)]:
            for dollars in ([0, 0, 0, 0], [1, 0, 1, 0], [1, 0, 0, 0]):
                ref = mkref(sheet, q, c1, None, c2, None, dollars)
                obs.append({'form': 'sum', 'ref': ref, 'args': []})
                if dollars[0]:
                    continue
                if (c1, c2) in ((1, 2), (2, 2), (1, 4)):
                    obs.append({'form': 'direct', 'ref': ref, 'args': []})
                nrows = {None: 12, 0: 12, 1: 3, 2: 0, 3: 6}[sheet]
                every = (c1, c2) in ((1, 4), (2, 2)) and (sheet, q) in ((None, False), (1, True), (3, False))
                for i in (range(1, nrows + 1) if every else sorted({1, nrows} - {0}) if nrows else []):
                    for j in range(1, c2 - c1 + 2):
                        obs.append({'form': 'index', 'ref': ref, 'args': [i, j]} if c2 > c1 or i % 2 else {'form': 'index1', 'ref': ref, 'args': [i]})
    obs = [o for o in obs if not (o['ref']['sheet'] == 2 and o['form'] == 'direct')] + \
          [{'form': 'direct', 'ref': mkref(2, True, 1, None, 2, None), 'args': []}]
    hosts = [0, 3]
    # formulas sit in J.. from row 40 on S and T2, so those sheets have at least 40 stored rows; 'Few rows' has 3, 'Empty one' none
    beyond = [{'form': 'index1', 'ref': mkref(1, True, 1, None, 1, None), 'args': [5]},
              {'form': 'index', 'ref': mkref(1, True, 1, None, 3, None), 'args': [4, 2]},
              {'form': 'index', 'ref': mkref(2, True, 1, None, 2, None), 'args': [1, 1]},
              {'form': 'index1', 'ref': mkref(None, False, 1, None, 1, None), 'args': [2000]}]
    stats = {'evals': 0, 'by_phase': {}, 'samples': [], 'seconds': 0.0}
    fails = []
    with lib.scratch() as d:
        path = os.path.join(d, 'w.xlsx')
        texts = [formula_text(o, titles) for o in obs + beyond]
        lib.write_workbook(build_spec(model, texts, hosts, 0), path)
        parser = Parser()
        for mode, ent in (('file', None), ('entry', ('S', colname(DRIVER[0]), str(DRIVER[1])))):
            rig = Rig(parser, path, ent)
            if rig.error is not None:
                fails.append({'key': 'C02.wholecol.translation', 'what': f'translation raised {rig.error!r}', 'replay': None})
                continue
            model.over = {}
            run_book(stats, fails, rig, model, obs, hosts, 'wholecol', job, [], mode)
            inside = [(0, 1, 3, 501), (0, 3, 2, 502), (1, 2, 2, 503), (3, 1, 5, 504), (0, 1, 1, 505), (3, 4, 30, 506), (0, 2, 39, 507)]
            rig.set(titles, inside)
            for s, c, r, v in inside:
                model.over[(s, c, r)] = v
            run_book(stats, fails, rig, model, obs, hosts, 'wholecol_override', job, [inside], mode)
            # below the last stored row of the sheet
            below = [(1, 1, 5, 601), (2, 1, 1, 602), (0, 1, 3000, 603), (3, 2, 2500, 604)]
            rig.set(titles, below)
            for s, c, r, v in below:
                model.over[(s, c, r)] = v
            for s in hosts:
                for k, o in enumerate(obs):
                    if o['form'] != 'sum':
                        continue
                    c, r = fpos(k)
                    got = rig.get(titles, s, c, r)
                    exp = expected(model, s, o)
                    stats['evals'] += 1
                    ts, _, cols = model.area(o['ref'], s)
                    touched = any(bs == ts and bc in cols for bs, bc, _, _ in below)
                    if not conforms(o, got, exp) and not touched:
                        key = f'C02.wholecol_override.{shape_of(o["ref"])}.{prefix_kind(o["ref"], s)}'
                        if not any(f['key'] == key for f in fails):
                            fails.append({'key': key, 'what': f'[{mode}] after overrides in other columns {formula_text(o, titles)} on {titles[s]!r} -> '
                                          f'{short(got, 60)}, expected {short(exp, 60)}', 'replay': {'kind': 'job', 'job': job, 'key': key}})
                    elif not conforms(o, got, exp) and not any(f['key'] == STORED_KEY for f in fails):
                        m0 = Model(['S'], [[0, 1, 1, planted(0, 1, 1)]])
                        o0 = {'form': 'sum', 'ref': mkref(None, False, 1, None, 1, None), 'args': []}
                        fails.append({'key': STORED_KEY, 'what': f'[{mode}] after set_cells({below!r}) (cells below the last stored row): '
                                      f'{formula_text(o, titles)} on {titles[s]!r} -> {short(got, 60)}, expected {short(exp, 60)}',
                                      'replay': {'kind': 'wb', 'titles': m0.titles, 'cells': m0.cell_list(), 'host': 0, 'obs': o0, 'mode': mode,
                                                 'rounds': [[[0, 1, 60, 5]]]}})
            for k, o in enumerate(beyond):
                c, r = fpos(len(obs) + k)
                got = rig.get(titles, 0, c, r)
                exp = expected(model, 0, o)
                stats['evals'] += 1
                if not conforms(o, got, exp) and not any(f['key'] == STORED_KEY for f in fails):
                    m0 = Model(['S', 'Few rows'], [[1, 1, 1, planted(1, 1, 1)]])
                    o0 = {'form': 'index1', 'ref': mkref(1, True, 1, None, 1, None), 'args': [3]}
                    fails.append({'key': STORED_KEY, 'what': f'[{mode}] {formula_text(o, titles)} where the sheet has fewer stored rows -> {short(got, 60)}, '
                                  f'expected blank (the cell exists and was never written)',
                                  'replay': {'kind': 'wb', 'titles': m0.titles, 'cells': m0.cell_list(), 'host': 0, 'obs': o0, 'mode': mode}})
    stats['seconds'] = time.time() - t0
    return {'plan': 'wholecol', 'stats': stats, 'fails': fails}


STORED_KEY = 'C02.wholecol.only_stored_rows'


# ------------------------------------------------------------------ orchestration
def dispatch(job):
    fn = {'lex': lex_job, 'risky': risky_job, 'wholecol': wholecol_job}.get(job['plan'], book_job)
    r = lib.call_catch(fn, job)
    if isinstance(r, codec.Raised):
        return {'plan': job['plan'], 'stats': {'evals': 0, 'by_phase': {}, 'samples': [], 'seconds': 0.0},
                'fails': [{'key': f'C02.{job["plan"]}.monitor_crashed', 'what': f'job {job!r} raised {r!r}', 'replay': {'kind': 'job', 'job': job,
                                                                                                          'key': f'C02.{job["plan"]}.monitor_crashed'}}]}
    return r


def title_sets(rng, count, size):
    pool = TITLES_UNQUOTED + TITLES_QUOTED
    out, bag = [], []
    for i in range(count):
        ts = []
        while len(ts) < size:
            if not bag:
                bag = pool[:]
                rng.shuffle(bag)
            t = bag.pop()
            if t not in ts:
                ts.append(t)
        if i % 2 == 0 and size < 10:
            ts.insert(rng.randint(1, len(ts)), EMPTY_TITLE)
        out.append(ts)
    return out


def plan_jobs(tier, seed):
    rng = random.Random(seed)
    big = tier == 'thorough'
    jobs = []

    def add(plan, idx, **kw):
        jobs.append(dict({'plan': plan, 'seed': seed * 1000003 + idx * 7919 + sum(map(ord, plan)), 'n': 0}, **kw))
    for i in range(16 if big else 4):
        add('lex', i, per_combo=18 if big else 2)
    grid_titles = [['S', 'Q1-2024 (final)', 'Лист1'], ['My Sheet', 'T2', 'x,y;z']] + (title_sets(rng, 6, 3) if big else [])
    for i, ts in enumerate(grid_titles):
        add('grid', i, titles=ts, second=False)
    for i, ts in enumerate(title_sets(rng, 48 if big else 12, 3)):
        add('sample', i, titles=ts, n=300 if big else 130, second=True)
    for i, ts in enumerate(title_sets(rng, 9 if big else 3, 14)):
        add('titles', i, titles=ts, n=60 if big else 28, second=big or i == 0)
    for i, ts in enumerate(title_sets(rng, 14 if big else 3, 2)):
        ts = [t for t in ts if t != EMPTY_TITLE]
        add('far', i, titles=ts, n=200 if big else 80, deep=(i % 3 == 2), second=(i % 2 == 0))
    for i, ts in enumerate(title_sets(rng, 28 if big else 4, 3)):
        ts = [t for t in ts if t != EMPTY_TITLE]
        add('fn', i, titles=ts, n=300 if big else 180, second=(i % 4 == 0))
    add('risky', 0, per_title=14 if big else 3)
    add('wholecol', 0)
    cost = {'grid': 9, 'titles': 8, 'sample': 6, 'wholecol': 7, 'risky': 5, 'fn': 4, 'far': 4, 'lex': 1}
    jobs.sort(key=lambda j: -cost[j['plan']] * (2 if j.get('second', False) else 1))
    return jobs


CHECKS = [
    ('lexer', 'C02.monitor.lexer',
     'reference spellings = (no prefix | 17 unquoted titles | 32 quoted titles incl. spaces, punctuation, quotes, non-ASCII, three with "!") x '
     '(cell | column range | row range | rectangle | A:A | A:C) x every $ pattern (4 / 16 / 4) x columns from {A,B,Z,AA,AZ,BA,ZZ,AAA,AAB,XFD,XFC,ABC '
     'and the keyword-like IF,OR,SUM,MAX,MIN,DAY,AND,MID,IFS,E} x rows from {1,7,9,10,99,100,101,1000,12345,65536,99999,1048576} x 23 continuations '
     '(operators, separators, brackets, %, a second quoted reference); every combination of prefix/shape/$ is covered, coordinates and continuation are '
     'seeded samples per combination; plus every formula of the workbook checks below',
     'one evaluation = Lexer.parse of one formula; it must yield exactly one reference token per spelled reference carrying the spelled (title or own sheet, '
     'letters, digits), and the text after it must lex as it does alone; quoted titles containing "!" may be refused by the grammar (not counted)', False),
    ('grid', 'C02.monitor.spellings',
     '6 base areas (B2, B2:B5, B3:E3, B2:D4, A:A, A:C) x all $ patterns x {no prefix, quoted and (if word-only) unquoted title of every sheet} x {=ref, SUM(ref), '
     'INDEX(ref,i,j)} on every sheet of 3-sheet workbooks (same text at the same address on every sheet), whole-file and entry-point translation',
     'one evaluation = value of one formula cell compared with the planted numbers of exactly the denoted cells (strict type and value; blank must be blank)', True),
    ('sample', 'C02.monitor.pipeline',
     'seeded references over planted workbooks of 3-4 sheets (ragged rows: a 2-wide row under an 8-wide one, an empty row, holes, an empty sheet, a sheet with '
     'fewer rows): cells, ranges, rectangles up to 8x24 / 27x4 / 8x130 (1040 cells) and B1:B1100, A:A..A:D, Z:AA, columns A..BA, rows 1..105 planted and 150..1048576 blank; forms =ref, ref+0, '
     'SUM, INDEX(i,j), INDEX(k); identical formula list at identical addresses on every sheet; whole-file and entry-point translation',
     'one evaluation = one formula cell on one sheet; unprefixed references are judged against the sheet that holds the formula', False),
    ('titles', 'C02.monitor.titles_and_sheet_order',
     'workbooks with 14 sheets (two-digit sheet indices) drawn so that each of the 40 titles (word-only incl. 2024, A1, SUM, IF, TRUE, XFD1, non-ASCII; quoted with '
     'spaces, leading/trailing space, , ; & + = # % " . ( ) { } < > @ ~) occurs; second workbook has the same titles in another order',
     'as pipeline', False),
    ('far', 'C02.monitor.far_coordinates',
     'planted cells at columns Z,AA,AZ,BA,ZZ,AAA,AAB,AAC,AMJ,XFC,XFD and rows 1,2,9..11,99..101,999..1001 (and 9999,10000,12345,65536,99999 in every third '
     'workbook); references at these coordinates and their +-1 neighbours, ranges / rectangles across the 26|27, 702|703, 16383|16384 and 99|100, 999|1000 '
     'borders, whole columns AAA:AAB / XFD:XFD', 'as pipeline', False),
    ('fn', 'C02.monitor.function_positions',
     '30 function positions (unary -, brackets, * + - = <, IF, IFS, IFERROR, SUM of 3, MAX, MIN, AVERAGE, COUNT, COUNTBLANK, ROUND, INDEX with row/column taken '
     'from cells, INDEX of two areas, MATCH, XMATCH, VLOOKUP, SUMIF with 3 / 2 arguments and with a one-cell sum area, SUMIFS with 1 and 2 criteria, COUNTIFS, '
     'AVERAGEIFS, COLUMN), every reference with its own sheet prefix / quoting / $ pattern',
     'one evaluation = one formula cell; expected value = the function applied to the planted numbers of the denoted cells (criteria use > on numbers only)', False),
    ('override', 'C02.monitor.overrides',
     'after the values above: Executor.set_cells of planted cells, holes, cells past the end of a short row, cells of a never-written row, cells beyond the used '
     'columns and beyond the used rows, cells of other sheets and of the empty sheet, given by title/letters/digits and by numbers; then a second batch that '
     'overrides half of them again; every formula is re-evaluated after each batch',
     'one evaluation = one formula cell after a batch; expected = the most recent value of exactly the denoted cells', False),
    ('reuse', 'C02.monitor.parser_reuse',
     'the same Parser object (entry cell kept) translates a second workbook with the same titles in another order and other holes: entry-point translation with '
     'overrides applied before the first evaluation, then whole-file translation', 'as pipeline', False),
    ('wholecol', 'C02.monitor.whole_column',
     'A:A, B:B, D:D, E:E, A:B, A:D, B:D, C:E on the own sheet (12 / 6 data rows), a 3-row sheet and an empty sheet, 3 $ patterns, 7 prefixes: SUM, =ref, '
     'INDEX at every (row, column) for two areas and the corners for the rest; overrides inside the stored rows; then cells below the last stored row '
     '(INDEX below it, overrides below it)', 'as pipeline; a whole column has every row of the sheet, never-written ones are blank', False),
    ('risky', 'C02.monitor.unknown_titles',
     '33 absent titles (other case, trailing / leading / doubled space, prefix and extension of existing titles, sheet indices 0..7 as text, look-alike letter, '
     'empty title) quoted and unquoted x 9 area shapes x 7 positions (seeded subset per title), each translated alone through the entry point with one '
     're-used Parser, on two sheets; plus 2 existing titles containing "!" x 7 areas x 3 $ patterns x forms',
     'one evaluation = one translation; an absent title must raise a library exception; a title with "!" must give the right value or be refused (not counted)', False),
]


def owner(key, plan):
    part = key.split('.')[1]
    if part == 'lexer':
        return 'lexer'
    if part in ('override', 'reuse'):
        return part
    if part in ('wholecol', 'wholecol_override'):
        return 'wholecol'
    if part in ('unknown_title', 'bang_title'):
        return 'risky'
    return plan


def run(tier='quick', seed=0):
    t0 = time.time()
    jobs = plan_jobs(tier, seed)
    results = pool_map(dispatch, jobs)
    evals = {c[0]: 0 for c in CHECKS}
    secs = {c[0]: 0.0 for c in CHECKS}
    samples = {c[0]: [] for c in CHECKS}
    fails = {c[0]: [] for c in CHECKS}
    skipped = 0
    allfails = []
    for job, r in zip(jobs, results):
        plan = job['plan']
        st = r['stats']
        skipped += st.get('skipped', 0)
        secs[plan if plan in secs else 'sample'] += st.get('seconds', 0.0)
        if plan in ('lex', 'risky', 'wholecol'):
            evals[{'lex': 'lexer'}.get(plan, plan)] += st['evals']
            samples[{'lex': 'lexer'}.get(plan, plan)] += st.get('samples', [])
        else:
            for ph, k in st['by_phase'].items():
                evals[{'ref': plan, 'entry': plan, 'lexer': 'lexer', 'override': 'override', 'reuse': 'reuse'}[ph]] += k
            samples[plan] += st.get('samples', [])
        for f in r['fails']:
            allfails.append((owner(f['key'], {'lex': 'lexer'}.get(plan, plan)), f))
    ref_failed = {f['key'].split('.', 2)[2] for _, f in allfails if f['key'].startswith('C02.ref.')}
    for own, f in allfails:
        ph = f['key'].split('.')[1]
        if ph in ('entry', 'override', 'reuse') and f['key'].split('.', 2)[2] in ref_failed:
            continue                              # same root cause as the plain whole-file failure
        fails[own].append(f)
    checks = [coords_check(tier), areas_check(tier)]
    for cid, name, bound, rule, exhaustive in CHECKS:
        checks.append({'name': name, 'bound': bound + (f' [{skipped} refused spellings with "!" in the title not counted]' if cid in ('lexer', 'risky') else ''),
                       'rule': rule, 'exhaustive': exhaustive, 'evaluations': evals[cid], 'distinct_nontrivial': evals[cid],
                       'failures': dedupe(sorted(fails[cid], key=lambda f: len(f['what']))), 'samples': samples[cid][:3], 'seconds': round(secs.get(cid, 0.0), 1)})
    checks[0]['seconds'] = round(checks[0]['seconds'], 2)
    return {'checks': checks, 'wall': round(time.time() - t0, 1), 'jobs': len(jobs)}


def replay(payload):
    if not payload:
        return {'fails': False, 'text': 'nothing to replay'}
    k = payload.get('kind')
    if k == 'wb':
        r = single_replay(payload)
        return {'fails': r['fails'], 'text': r['text']}
    if k == 'unknown':
        return unknown_replay(payload)
    if k == 'lex':
        r = lex_one(payload['case'])
        return {'fails': r not in (None, 'skip'), 'text': f'Lexer.parse({"=" + payload["case"]["text"] + payload["case"]["suffix"]!r}): {r or "conforms"}'}
    if k == 'job':
        r = dispatch(payload['job'])
        hit = [f for f in r['fails'] if f['key'] == payload['key']]
        return {'fails': bool(hit), 'text': hit[0]['what'] if hit else f'job re-run, {payload["key"]} did not occur'}
    if k == 'handle':
        from excel2pycl.src.handle_cell import handle_cell
        from excel2pycl.src.cell import Cell
        c = Cell(payload['title'], payload['column'], payload['row'])
        r = lib.call_catch(handle_cell, c, dict(payload['titles']))
        seen = r if isinstance(r, codec.Raised) else [c.title, c.column, c.row]
        return {'fails': seen != payload['want'], 'text': f'handle_cell(Cell({payload["title"]!r}, {payload["column"]!r}, {payload["row"]!r})) -> {seen!r}; '
                                                          f'expected {payload["want"]!r}'}
    if k == 'exec_coords':
        from excel2pycl import Cell, Executor
        names, s, c, r = payload['titles'], payload['s'], payload['c'], payload['r']
        ex = Executor().set_executed_class(class_object=lib.load_class_from_text(_render_with_titles(names)))
        ex.set_cells([Cell(names[s], colname(c), str(r), 12345)])
        got = lib.call_catch(ex.get_cell, Cell(s, c - 1, r - 1))
        got = got if isinstance(got, codec.Raised) else got.value
        return {'fails': got != 12345, 'text': f'set_cells([Cell({names[s]!r}, {colname(c)!r}, {str(r)!r}, 12345)]); get_cell(Cell({s}, {c - 1}, {r - 1})) -> {got!r}'}
    if k == 'areas':
        r = areas_check('quick')
        hit = [f for f in r['failures'] if f['replay'] and f['replay'].get('fn') == payload.get('fn')]
        return {'fails': bool(hit), 'text': hit[0]['what'] if hit else 'areas check re-run without this failure'}
    return {'fails': False, 'text': 'nothing to replay'}
