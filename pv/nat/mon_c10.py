"""K4 bounded monitor for C10 (comparisons are exact and lawful).  Runs under /venv/bin/python on the real code.

Contract monitored (executable form of the K1 contract of _compare, observed where the property says: the boolean
returned for =A2<op>B2 under overrides / cell constants / literals, and the helper itself in both runtime copies):
numbers compare exactly (Fraction oracle), same-kind operands obey trichotomy / negation / converse, blank clauses,
date == date-time at its midnight."""
import datetime
import itertools
import time
from fractions import Fraction

from pv import codec
from pv.nat import lib

OPS = ['<', '<=', '>', '>=', '=', '<>']
PYOP = {'<': '<', '<=': '<=', '>': '>', '>=': '>=', '=': '==', '<>': '!='}

NUMS = [0, 1, -1, 2, 3, 10, -868, 9007199254740992, True, False,
        0.5, 1.5, 1.7, -868.5, -868.0, 1.0, 1.0000000000000002, 0.1 + 0.2, 0.3, 1e15 + 0.25, 1e15 + 0.5,
        -0.3, -0.30000000000000004, 2.5, 2.0, 1e-9, -1e-9]
TEXTS = ['', 'a', 'A', 'abc', 'abd', 'B', 'b', 'Hello', 'hello world', 'x1', 'яблоко']
NUMTEXTS = ['10', '9', '-5', '0', '1.5']
DATES = [datetime.datetime(2020, 1, 1), datetime.datetime(2020, 1, 1, 12, 30), datetime.date(2020, 1, 1),
         datetime.date(2019, 12, 31), datetime.datetime(1900, 1, 1), datetime.datetime(2020, 1, 2),
         datetime.date(2024, 2, 29), datetime.datetime(2024, 2, 29, 23, 59, 59)]
BLANK = '__blank__'


def kind(v):
    if v == BLANK if isinstance(v, str) else False:
        return 'blank'
    if isinstance(v, (bool, int, float)):
        return 'num'
    if isinstance(v, str):
        return 'numtext' if v in NUMTEXTS else 'text'
    return 'date'


def frac(v):
    return Fraction(int(v)) if isinstance(v, bool) else Fraction(v)


def instant(v):
    if isinstance(v, datetime.datetime):
        return v
    return datetime.datetime(v.year, v.month, v.day)


def expected(op, a, b):
    """None = the property has no clause for this pair."""
    ka, kb = kind(a), kind(b)
    if ka == 'num' and kb == 'num':
        x, y = frac(a), frac(b)
    elif ka == 'text' and kb == 'text':
        x, y = a, b
    elif ka == 'date' and kb == 'date':
        x, y = instant(a), instant(b)
    elif ka == 'blank' and kb == 'blank':
        x, y = 0, 0
    elif ka == 'blank' and kb == 'num':
        x, y = Fraction(0), frac(b)          # a blank cell equals 0 / is smaller than every positive number
        if y < 0:
            return None
    elif ka == 'num' and kb == 'blank':
        x, y = frac(a), Fraction(0)
        if x < 0:
            return None
    elif ka == 'blank' and kb == 'text':
        x, y = 0, (0 if b == '' else 1)
    elif ka == 'text' and kb == 'blank':
        x, y = (0 if a == '' else 1), 0
    elif ka == 'blank' and kb == 'date':
        x, y = 0, 1
    elif ka == 'date' and kb == 'blank':
        x, y = 1, 0
    else:
        return None
    return eval(f'x {PYOP[op]} y')


def key_for(a, b, where):
    ka, kb = kind(a), kind(b)
    return f'C10.{where}.{ka}_vs_{kb}'


def _helper_sweep(which, values, fails, stats):
    cls = lib.get_class(which)
    inst = cls()
    Empty = cls.EmptyCell

    def conv(v):
        return Empty() if (isinstance(v, str) and v == BLANK) else v
    for a, b in itertools.product(values, repeat=2):
        res = {}
        for op in OPS:
            exp = expected(op, a, b)
            got = lib.call_catch(inst._compare, PYOP[op], conv(a), conv(b))
            res[op] = got
            if exp is None:
                continue
            stats['evaluations'] += 1
            if got is not exp and not (isinstance(got, bool) and got == exp):
                fails.append({'key': key_for(a, b, 'helper'), 'what': f'{which}._compare({PYOP[op]!r}, {a!r}, {b!r}) -> {got!r}, '
                              f'expected {exp!r}', 'replay': {'kind': 'helper', 'which': which, 'op': op,
                                                             'a': codec.enc(conv(a), is_empty=lambda x: isinstance(x, Empty)),
                                                             'b': codec.enc(conv(b), is_empty=lambda x: isinstance(x, Empty))}})
        # laws for operands of one kind
        if kind(a) == kind(b) and kind(a) in ('num', 'text', 'date', 'blank') and \
                all(isinstance(res[o], bool) for o in OPS):
            stats['evaluations'] += 1
            lt, eq, gt = res['<'], res['='], res['>']
            ok = (lt + eq + gt == 1) and res['<>'] == (not eq) and res['<='] == (not gt) and res['>='] == (not lt)
            conv_gt = lib.call_catch(inst._compare, '>', conv(b), conv(a))
            ok = ok and conv_gt == lt
            if not ok:
                fails.append({'key': key_for(a, b, 'laws'), 'what': f'{which}: laws broken for ({a!r}, {b!r}): {res}, b>a={conv_gt!r}',
                              'replay': {'kind': 'laws', 'which': which,
                                         'a': codec.enc(conv(a), is_empty=lambda x: isinstance(x, Empty)),
                                         'b': codec.enc(conv(b), is_empty=lambda x: isinstance(x, Empty))}})


def _pipeline_sweep(values, fails, stats, limit):
    """=A2<op>B2 with both operands supplied as overrides (the observation point the property names)."""
    from excel2pycl import Cell
    cells = []
    with lib.scratch() as d:
        p = lib.Pipe({'sheets': [{'title': 'S', 'cells': [['Z', i + 1, f'=A2{op}B2'] for i, op in enumerate(OPS)]}]}, d)
        if p.error is not None:
            fails.append({'key': 'C10.pipeline.translate', 'what': f'translation failed: {p.error!r}', 'replay': None})
            return
        ex = p.executor
        Empty = p.cls.EmptyCell
        n = 0
        for a, b in itertools.product(values, repeat=2):
            if n >= limit:
                break
            if BLANK in (a, b) if isinstance(a, str) or isinstance(b, str) else False:
                pass
            n += 1
            va = Empty() if (isinstance(a, str) and a == BLANK) else a
            vb = Empty() if (isinstance(b, str) and b == BLANK) else b
            ex.set_cells([Cell(0, 0, 1, va), Cell(0, 1, 1, vb)])
            for i, op in enumerate(OPS):
                exp = expected(op, a, b)
                if exp is None:
                    continue
                got = p.value(0, 25, i)
                stats['evaluations'] += 1
                if not (isinstance(got, bool) and got == exp):
                    fails.append({'key': key_for(a, b, 'override'), 'what': f'=A2{op}B2 with A2={a!r}, B2={b!r} -> {got!r}, expected {exp!r}',
                                  'replay': {'kind': 'override', 'op': op, 'a': codec.enc(va, is_empty=lambda x: isinstance(x, Empty)),
                                             'b': codec.enc(vb, is_empty=lambda x: isinstance(x, Empty))}})


def _literal_sweep(fails, stats):
    """numeric and text literals / cell constants through the real translator"""
    lits = [('1.5', 1.5), ('1.7', 1.7), ('2', 2), ('868.5', 868.5), ('0.25', 0.25), ('10', 10), ('"abc"', 'abc'), ('"abd"', 'abd'),
            ('""', ''), ('TRUE', True)]
    formulas, meta = [], []
    for (ta, a), (tb, b) in itertools.product(lits, repeat=2):
        for op in OPS:
            exp = expected(op, a, b)
            if exp is None:
                continue
            formulas.append(f'={ta}{op}{tb}')
            meta.append((ta, tb, op, exp))
    r = lib.eval_formulas(formulas)
    if r['error'] is not None:
        fails.append({'key': 'C10.literal.translate', 'what': f'translation failed: {r["error"]}', 'replay': None})
        return
    for f, (ta, tb, op, exp), got in zip(formulas, meta, r['values']):
        stats['evaluations'] += 1
        if got is not exp:
            fails.append({'key': 'C10.literal', 'what': f'{f} -> {got!r}, expected {exp!r}',
                          'replay': {'kind': 'formula', 'formula': f, 'expected': exp}})


def run(tier='quick', seed=0):
    t0 = time.time()
    values = NUMS + TEXTS + NUMTEXTS + DATES + [BLANK]
    fails, stats = [], {'evaluations': 0}
    _helper_sweep('runtime', values, fails, stats)
    _helper_sweep('abstract', values, fails, stats)
    _pipeline_sweep(values, fails, stats, limit=len(values) ** 2 if tier == 'thorough' else 1200)
    _literal_sweep(fails, stats)
    # one failure per root-cause key
    seen, uniq = set(), []
    for f in fails:
        if f['key'] not in seen:
            seen.add(f['key'])
            uniq.append(f)
    return {'checks': [{
        'name': 'C10.monitor.grid',
        'bound': f'{len(values)} x {len(values)} operand values (ints, doubles differing in the last bit, booleans, texts, numeric '
                 'texts, dates, date-times, blank) x 6 operators; helper in both runtime copies, =A2<op>B2 under overrides, '
                 'literal pairs through the translator',
        'rule': 'one evaluation = one (operator, left, right) comparison checked against exact rational / lexicographic / '
                'instant comparison, or one operand pair checked against the five laws; pairs of different kinds for which '
                'the property has no clause are not counted',
        'exhaustive': True, 'evaluations': stats['evaluations'], 'distinct_nontrivial': stats['evaluations'],
        'failures': uniq[:25], 'seconds': time.time() - t0,
        'samples': [{'op': '<', 'a': 1.5, 'b': 1.7, 'expected': True}, {'op': '=', 'a': 'blank', 'b': '', 'expected': True}],
    }]}


def replay(payload):
    k = payload.get('kind')
    if k in ('helper', 'laws'):
        cls = lib.get_class(payload['which'])
        enc, dec = lib.coder(cls)
        a, b = dec(payload['a']), dec(payload['b'])
        inst = cls()
        if k == 'helper':
            op = payload['op']
            A = BLANK if isinstance(a, cls.EmptyCell) else a
            B = BLANK if isinstance(b, cls.EmptyCell) else b
            exp = expected(op, A, B)
            got = lib.call_catch(inst._compare, PYOP[op], a, b)
            return {'fails': got is not exp and not (isinstance(got, bool) and got == exp),
                    'text': f'_compare({PYOP[op]!r}, {a!r}, {b!r}) -> {got!r}; expected {exp!r}'}
        res = {op: lib.call_catch(inst._compare, PYOP[op], a, b) for op in OPS}
        lt, eq, gt = res['<'], res['='], res['>']
        ok = all(isinstance(v, bool) for v in res.values()) and (lt + eq + gt == 1) and res['<>'] == (not eq) and \
            res['<='] == (not gt) and res['>='] == (not lt) and lib.call_catch(inst._compare, '>', b, a) == lt
        return {'fails': not ok, 'text': f'laws on ({a!r}, {b!r}): {res}'}
    if k == 'override':
        from excel2pycl import Cell
        with lib.scratch() as d:
            p = lib.Pipe({'sheets': [{'title': 'S', 'cells': [['Z', 1, f'=A2{payload["op"]}B2']]}]}, d)
            enc, dec = lib.coder(p.cls)
            a, b = dec(payload['a']), dec(payload['b'])
            p.executor.set_cells([Cell(0, 0, 1, a), Cell(0, 1, 1, b)])
            got = p.value(0, 25, 0)
            A = BLANK if isinstance(a, p.cls.EmptyCell) else a
            B = BLANK if isinstance(b, p.cls.EmptyCell) else b
            exp = expected(payload['op'], A, B)
            return {'fails': not (isinstance(got, bool) and got == exp),
                    'text': f'=A2{payload["op"]}B2 with A2={a!r}, B2={b!r} -> {got!r}; expected {exp!r}'}
    if k == 'formula':
        r = lib.eval_formulas([payload['formula']])
        got = r['values'][0] if r['values'] else r['error']
        return {'fails': got is not payload['expected'], 'text': f'{payload["formula"]} -> {got!r}; expected {payload["expected"]!r}'}
    return {'fails': False, 'text': 'nothing to replay'}
