"""K2 (finite-exhaustive) obligations of C14 on the real code: ADDRESS for every column, COLUMN for every column name."""
from pv.nat import lib


def letters(n):
    s = ''
    while n > 0:
        n, r = divmod(n - 1, 26)
        s = chr(65 + r) + s
    return s


def _exp(row, col, ref):
    L = letters(col)
    return {None: f'${L}${row}', '1': f'${L}${row}', '2': f'{L}${row}', '3': f'${L}{row}', '4': f'{L}{row}'}[ref]


def address_all():
    bad, n = [], 0
    for which in ('runtime', 'abstract'):
        cls = lib.get_class(which)
        inst = cls()
        for col in range(1, 16385):
            for row, ref in ((1, None), (7, '1'), (12, '2'), (1048576, '3'), (99, '4')):
                args = (row, col) if ref is None else (row, col, ref)
                got = lib.call_catch(inst._address, *args)
                n += 1
                if got != _exp(row, col, ref):
                    if len(bad) < 20:
                        bad.append([which, row, col, ref, repr(got)[:60], _exp(row, col, ref)])
    return {'n': n, 'bad': bad}


def address_one(case):
    which, row, col, ref = case[:4]
    inst = lib.get_class(which)()
    args = (row, col) if ref is None else (row, col, ref)
    got = lib.call_catch(inst._address, *args)
    return {'fails': got != _exp(row, col, ref), 'text': f'{which}._address{args} -> {got!r}; expected {_exp(row, col, ref)!r}'}


def column_all():
    names = [letters(c) for c in range(1, 16385)]
    bad = []
    step = 2048
    for i in range(0, len(names), step):
        chunk = names[i:i + step]
        r = lib.eval_formulas([f'=COLUMN({nm}1)' for nm in chunk])
        if r['error'] is not None:
            bad.append([chunk[0], 'translation failed: ' + str(r['error'])[:100], None])
            continue
        for j, (nm, v) in enumerate(zip(chunk, r['values'])):
            if v != i + j + 1:
                if len(bad) < 20:
                    bad.append([nm, v, i + j + 1])
    return {'n': len(names), 'bad': bad}


def column_one(case):
    nm = case[0]
    r = lib.eval_formulas([f'=COLUMN({nm}1)'])
    got = r['values'][0] if r['values'] else r['error']
    return {'fails': got != case[2], 'text': f'=COLUMN({nm}1) -> {got!r}; expected {case[2]!r}'}
