"""Native-side helpers (run under /venv/bin/python, import the real repository)."""
import contextlib
import os
import shutil
import string
import sys
import tempfile
import traceback

from pv import codec

REPO = os.environ.get('E2PYCL_REPO', '/repo')


# ------------------------------------------------------------------ runtime classes
def render_runtime_text():
    """The emitted runtime: the class template after str.format with an empty context."""
    from excel2pycl.src.context import Context
    return Context().build_class()


def template_fields():
    from excel2pycl.src.context import Context
    tpl = getattr(Context(), '_Context__class_template')
    return sorted({f for _, f, _, _ in string.Formatter().parse(tpl) if f is not None})


_RT = {}


def runtime_class(text=None):
    key = text or '__default__'
    if key not in _RT:
        ns = {}
        exec(compile(text or render_runtime_text(), '<emitted-runtime>', 'exec'), ns)
        _RT[key] = ns['ExcelInPython']
    return _RT[key]


def abstract_class():
    from excel2pycl.src.utilities.abstract_excel_in_python_class import AbstractExcelInPython
    return AbstractExcelInPython


def get_class(which):
    return runtime_class() if which == 'runtime' else abstract_class()


def coder(cls):
    """(enc, dec) pair bound to cls.EmptyCell."""
    Empty = cls.EmptyCell

    def e(v):
        return codec.enc(v, is_empty=lambda x: isinstance(x, Empty))

    def d(j):
        return codec.dec(j, make_empty=Empty, make_cell=make_cell)
    return e, d


def make_cell(title, column, row, value=None, handled=False):
    from excel2pycl.src.cell import Cell
    c = Cell(title, column, row, value)
    c._handled_identifiers = handled
    return c


def call_catch(f, *a, **k):
    try:
        return f(*a, **k)
    except RecursionError as e:
        return codec.Raised('RecursionError', 'recursion', [c.__name__ for c in type(e).__mro__])
    except BaseException as e:  # noqa
        return codec.Raised(type(e).__name__, str(e)[:300], [c.__name__ for c in type(e).__mro__])


# ------------------------------------------------------------------ workbooks
@contextlib.contextmanager
def scratch():
    d = tempfile.mkdtemp(prefix='pvnat_')
    try:
        yield d
    finally:
        shutil.rmtree(d, ignore_errors=True)


def write_workbook(spec, path):
    """spec: {'sheets': [{'title': str, 'cells': [[col(1-based)|letters, row(1-based), encoded value], ...]}]}"""
    from openpyxl import Workbook
    from openpyxl.utils import column_index_from_string
    wb = Workbook()
    first = True
    for sh in spec['sheets']:
        if first:
            ws = wb.active
            ws.title = sh['title']
            first = False
        else:
            ws = wb.create_sheet(sh['title'])
        for col, row, val in sh.get('cells', []):
            if isinstance(col, str):
                col = column_index_from_string(col)
            v = codec.dec(val)
            ws.cell(row=row, column=col, value=v)
    wb.save(path)
    wb.close()


def translate(path, entry=None, safety=True):
    """Returns translation text or Raised."""
    from excel2pycl import Parser, Cell
    p = Parser()
    if not safety:
        p.disable_safety_check()
    p.set_excel_file_path(path)
    if entry is not None:
        p.set_entrypoint_cell(Cell(*entry))
    return call_catch(p.get_translation)


def load_class_from_text(text):
    ns = {}
    exec(compile(text, '<translation>', 'exec'), ns)
    return ns['ExcelInPython']


class Pipe:
    """Workbook spec -> real Parser -> real Executor."""

    def __init__(self, spec, tmpdir, entry=None, safety=True, name='wb.xlsx'):
        from excel2pycl import Executor
        self.path = os.path.join(tmpdir, name)
        write_workbook(spec, self.path)
        self.text = translate(self.path, entry, safety)
        self.error = self.text if isinstance(self.text, codec.Raised) else None
        self.cls = None
        self.executor = None
        if self.error is None:
            r = call_catch(load_class_from_text, self.text)
            if isinstance(r, codec.Raised):
                self.error = r
            else:
                self.cls = r
                self.executor = Executor().set_executed_class(class_object=self.cls)

    def value(self, title, column, row):
        """column letters/0-based int, row 1-based text / 0-based int, as Cell accepts"""
        from excel2pycl import Cell
        r = call_catch(self.executor.get_cell, Cell(title, column, row))
        return r if isinstance(r, codec.Raised) else r.value

    def enc(self, v):
        Empty = self.cls.EmptyCell
        return codec.enc(v, is_empty=lambda x: isinstance(x, Empty))


def eval_formulas(formulas, cells=None, titles=('S',), safety=False):
    """Translate one workbook whose sheet 0 holds `formulas` in column Z (rows 1..n) plus `cells`
    ([[sheet_index, col, row, enc value]]); returns encoded values / exceptions per formula."""
    sheets = [{'title': t, 'cells': []} for t in titles]
    for (s, c, r, v) in (cells or []):
        sheets[s]['cells'].append([c, r, v])
    for i, f in enumerate(formulas):
        sheets[0]['cells'].append(['Z', i + 1, f])
    out = []
    with scratch() as d:
        p = Pipe({'sheets': sheets}, d, safety=safety)
        if p.error is not None:
            return {'error': codec.enc(p.error), 'values': None, 'text': None}
        for i in range(len(formulas)):
            out.append(p.enc(p.value(0, 25, i)))
        return {'error': None, 'values': out, 'text': p.text}
