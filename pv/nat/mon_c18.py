"""K4 bounded monitor for C18 (the workbook is read at true coordinates, with true types and sizes).
Runs under /venv/bin/python on the real code.

Contract monitored (executable form of the property statement; the oracle is the generator's own cell map, confirmed to be
what the file stores by openpyxl's ordinary (not read-only) loader - never the library's reader):

  for a workbook W with worksheets w_0..w_{n-1} (workbook order) and stored cells W[s][(column, row)]
    * Executor.get_cell(Cell(s, column-1, row-1)) and Executor.get_cell(Cell(title_s, letters(column), str(row))) evaluate
        - a constant cell to a value of exactly the stored type and value (True is not 1 is not 1.0, 0.0 is not -0.0),
        - a cell that is not stored (gap, beyond the used range, empty sheet, explicitly stored blank) to the blank cell,
        - an array-formula cell to the value of its formula text,
        - a formula `=<reference>` to the value stored at the referenced (sheet, column, row);
    * get_titles() == {title_s: s} in workbook order, get_sheets_size()[s] == {last_column: max column, last_row: max row}
      of the stored cells of w_s (0/0 for an empty sheet), Executor.get_sheet(s) is the last_row x last_column matrix of
      those values;
  and all of this independently of what was translated / executed before in the same process (other workbooks, the same
  Parser or Executor object, overrides of other cells, entry-point translation of the cells the entry cell reads).
"""
import datetime
import itertools
import multiprocessing
import os
import random
import time
import zipfile

from pv import codec
from pv.nat import lib

PLACEHOLDER = 918273645000000
GET_SHEET_AREA = 12000


# ----------------------------------------------------------------------------------------------- value pools (encoded)
def _e(v):
    return codec.enc(v)


def RAW(t):
    return {'$raw': t}


INTS = [0, 1, -1, 2, 7, 100, 101, 1000, 1001, 2 ** 31 - 1, 2 ** 31, 2 ** 53, -(10 ** 15), RAW('9007199254740993'),
        RAW('100000000000000000000')]
FLOATS = [_e(x) for x in (0.5, -0.5, 0.1, 1.5, 1e-7, 1e20, 1e16, 5e-324, 2.5, 1 / 3, 123456.789, 0.1 + 0.2)] + \
         [RAW('1.0'), RAW('0.0'), RAW('-0.0'), RAW('2.0'), RAW('1.7976931348623157E308'), RAW('1E2'), RAW('1001.0')]
BOOLS = [True, False]
TEXTS_SAFE = [' ', 'a', 'A', 'TRUE', 'FALSE', 'True', '1', '0', '1.0', 'None', "it's", 'say "hi"', 'back\\slash',
              'line\nbreak', 'tab\there', '{x}', '{{', '{0}', '}', '%s', 'a=b', ' =1+1', 'SUM(1)', 'x' * 51, 'y' * 300,
              'z' * 5000, 'яблоко', '#N/A', '#DIV/0!', "'''", '"""', "\\'", '2020-01-01', 'ends with backslash\\',
              '\\n', 'emoji \U0001F600', '0x10', '1e3', ' 1', '-', '+1']
TEXTS_CALL = ['self.EmptyCell()', 'datetime.datetime(2020, 1, 1)', 'f(x)', 'eval(1)', "__import__('os')"]
DT = datetime.datetime
DATES = [_e(x) for x in (DT(2020, 1, 1), DT(2020, 1, 1, 12, 30, 15), DT(2051, 6, 7, 23, 59, 59), DT(1900, 1, 1),
                         DT(1900, 2, 28), DT(1900, 3, 1), DT(1999, 12, 31, 23, 59, 59), DT(2000, 2, 29),
                         DT(2024, 2, 29, 6, 0), DT(2100, 1, 1), DT(9999, 12, 31, 23, 59, 59),
                         DT(2020, 1, 1, 0, 0, 0, 500000), DT(2050, 12, 31), DT(2051, 1, 1),
                         datetime.date(2024, 2, 29), datetime.time(13, 5, 7), datetime.time(0, 0))]
FAMILIES_SAFE = [INTS, FLOATS, BOOLS, TEXTS_SAFE, DATES]
ALL_VALUES = INTS + FLOATS + BOOLS + TEXTS_SAFE + TEXTS_CALL + DATES
SMALL = [0, 1, True, False, RAW('1.0'), RAW('0.0'), 'a', '1', ' ', _e(0.5), _e(DT(2020, 1, 1)), -1, 'TRUE', RAW('-0.0'),
         _e(DT(2051, 1, 1, 1, 1, 1)), 7, 'x' * 51]

TITLES = ['S', 'Sheet1', 'Лист1', 'T t', 'A1', '1', '0', 'b', 'a', 'Z', 'x{y}', 'x-y', '{0}', 'TRUE', 'E', 'S!', 'R1C1',
          '31 characters long title 123456', 'Data2', '10', '2', 'q.r', 'my sheet', 'a b c', 'T', 'U', 'V', 'W', '%s']
COLS = [1, 2, 3, 4, 5, 25, 26, 27, 28, 52, 53, 256, 257, 702, 703, 704]
ROWS = [1, 2, 3, 4, 5, 9, 10, 11, 99, 100, 101, 102, 999, 1000, 1001, 1002, 5000]


def letters(n):
    """bijective base-26 column letters, written from the definition (1 -> A, 26 -> Z, 27 -> AA, 16384 -> XFD)"""
    s = ''
    while n > 0:
        n, r = divmod(n - 1, 26)
        s = chr(65 + r) + s
    return s


def stored_value(val):
    """the Python value a stored constant denotes"""
    if isinstance(val, dict) and '$raw' in val:
        t = val['$raw']
        return float(t) if any(ch in t for ch in '.eE') else int(t)
    v = codec.dec(val)
    if type(v) is datetime.date:                    # a date is stored as the date-time of its midnight
        return DT(v.year, v.month, v.day)
    return v


def kind_of(v):
    if isinstance(v, bool):
        return 'bool_true' if v else 'bool_false'
    if isinstance(v, int):
        return 'int_zero' if v == 0 else 'int'
    if isinstance(v, float):
        return 'float_zero' if v == 0 else ('float_integral' if v.is_integer() else 'float')
    if isinstance(v, str):
        return 'text'
    if isinstance(v, DT):
        return 'datetime'
    return type(v).__name__


def exact(got, exp):
    if type(got) is not type(exp):
        return False
    if isinstance(exp, float):
        return repr(got) == repr(exp)
    return got == exp


def is_blank(v):
    return type(v).__name__ == 'EmptyCell'


def short(v):
    r = repr(v)
    return r if len(r) <= 60 else r[:40] + f'...<{len(r)} chars>'


# ----------------------------------------------------------------------------------------------- workbook writer
def write_book(spec, path):
    """spec: {'sheets': [{'title', 'cells': [[col, row, encoded value(, expect)], ...], 'state'?}],
              'chartsheets': [[position among all sheets, title], ...]}
    encoded value: codec.enc value | '=formula' | {'$raw': xml number text} | {'$arr': [ref, text]} | {'$styled': 1}"""
    from openpyxl import Workbook
    from openpyxl.styles import Font
    from openpyxl.worksheet.formula import ArrayFormula
    wb = Workbook()
    raws = {}
    first = True
    sheets = []
    for sh in spec['sheets']:
        if first:
            ws = wb.active
            ws.title = sh['title']
            first = False
        else:
            ws = wb.create_sheet(sh['title'])
        sheets.append(ws)
        if ws.title != sh['title']:
            raise ValueError(f"generator: title {sh['title']!r} was stored as {ws.title!r}")
        if sh.get('state'):
            ws.sheet_state = sh['state']
        for cell in sh.get('cells', []):
            col, row, val = cell[0], cell[1], cell[2]
            if isinstance(val, dict) and '$raw' in val:
                ph = PLACEHOLDER + len(raws)
                raws[str(ph)] = val['$raw']
                ws.cell(row=row, column=col, value=ph)
            elif isinstance(val, dict) and '$arr' in val:
                ws.cell(row=row, column=col).value = ArrayFormula(val['$arr'][0], val['$arr'][1])
            elif isinstance(val, dict) and '$styled' in val:
                ws.cell(row=row, column=col).font = Font(bold=True)
            else:
                ws.cell(row=row, column=col, value=codec.dec(val))
    for pos, title in spec.get('chartsheets', []):
        from openpyxl.chart import BarChart, Reference
        cs = wb.create_chartsheet(title, pos)
        ch = BarChart()
        ch.add_data(Reference(sheets[0], min_col=1, min_row=1, max_row=1))
        cs.add_chart(ch)
    wb.save(path)
    wb.close()
    if raws:
        tmp = path + '.tmp'
        with zipfile.ZipFile(path) as zin, zipfile.ZipFile(tmp, 'w', zipfile.ZIP_DEFLATED) as zout:
            for item in zin.infolist():
                data = zin.read(item.filename)
                if item.filename.startswith('xl/worksheets/sheet'):
                    text = data.decode('utf-8')
                    for ph, raw in raws.items():
                        text = text.replace(f'<v>{ph}</v>', f'<v>{raw}</v>')
                    data = text.encode('utf-8')
                zout.writestr(item, data)
        os.replace(tmp, path)


# ----------------------------------------------------------------------------------------------- reference model
BLANK = ('blank',)


class Model:
    """What the workbook holds, from the generator's cell map (confirmed by openpyxl's ordinary loader)."""

    def __init__(self, spec, path=None):
        self.spec = spec
        self.titles = [sh['title'] for sh in spec['sheets']]
        self.cells = []
        self.unstorable = 0
        for sh in spec['sheets']:
            d = {}
            for cell in sh.get('cells', []):
                col, row, val = cell[0], cell[1], cell[2]
                expect = cell[3] if len(cell) > 3 else None
                if isinstance(val, dict) and '$arr' in val:
                    d[(col, row)] = {'kind': 'array', 'text': val['$arr'][1], 'expect': expect}
                elif isinstance(val, dict) and '$styled' in val:
                    d[(col, row)] = {'kind': 'styled'}
                elif isinstance(val, str) and val.startswith('='):
                    d[(col, row)] = {'kind': 'formula', 'text': val, 'expect': expect}
                else:
                    d[(col, row)] = {'kind': 'const', 'value': stored_value(val), 'storable': True}
            self.cells.append(d)
        if path is not None:
            self._conform(path)

    def _conform(self, path):
        from openpyxl import load_workbook
        wb = load_workbook(path)
        for s, ws in enumerate(wb.worksheets):
            for (c, r), e in self.cells[s].items():
                if e['kind'] == 'const':
                    got = ws.cell(row=r, column=c).value
                    if not exact(got, e['value']):
                        e['storable'] = False
                        self.unstorable += 1
        wb.close()

    def size(self, s, values_only=False):
        ks = [k for k, e in self.cells[s].items() if not (values_only and e['kind'] == 'styled')]
        return {'last_column': max((c for c, r in ks), default=0), 'last_row': max((r for c, r in ks), default=0)}

    def has_styled(self, s):
        return any(e['kind'] == 'styled' for e in self.cells[s].values())

    def expect(self, s, c, r, ov, depth=0):
        """BLANK | ('val', v) | ('num', n) | None (the property has no clause)"""
        if (s, c, r) in ov:
            v = ov[(s, c, r)]
            return BLANK if v is BLANK else ('val', v)
        if not (0 <= s < len(self.cells)):
            return None
        e = self.cells[s].get((c, r))
        if e is None or e['kind'] == 'styled':
            return BLANK
        if e['kind'] == 'const':
            return ('val', e['value']) if e['storable'] else None
        x = e['expect']
        if x is None or depth > 20:
            return None
        if 'const' in x:
            return ('val', stored_value(x['const']))
        if 'ref' in x:
            t = self.expect(x['ref'][0], x['ref'][1], x['ref'][2], ov, depth + 1)
            return t if t is not None and t[0] in ('val', 'num') else None     # a reference to a blank cell: no clause
        if 'sum' in x:
            total = 0
            for (s2, c2, r2) in x['sum']:
                t = self.expect(s2, c2, r2, ov, depth + 1)
                if t is None or t[0] != 'val' or type(t[1]) is not int:
                    return None
                total += t[1]
            return ('num', total)
        return None

    def closure(self, s, c, r, acc=None):
        acc = acc if acc is not None else []
        if (s, c, r) in acc or len(acc) > 200:
            return acc
        acc.append((s, c, r))
        e = self.cells[s].get((c, r)) if 0 <= s < len(self.cells) else None
        if e and e['kind'] in ('formula', 'array') and e.get('expect'):
            x = e['expect']
            for t in ([x['ref']] if 'ref' in x else x.get('sum', [])):
                self.closure(t[0], t[1], t[2], acc)
        return acc


# ----------------------------------------------------------------------------------------------- observation
class Out:
    def __init__(self, scn):
        self.scn = scn
        self.evals = 0
        self.nontrivial = 0
        self.fails = {}
        self.samples = []
        self.skipped = 0

    def fail(self, key, what):
        if self.scn.get('rootkey'):
            key = self.scn['rootkey']
            what = f"workbook sheets {[_all_sheets(b['spec']) for b in self.scn['books']]}: {what}"
        if key not in self.fails:
            self.fails[key] = what


def _read(ex, title, column, row):
    from excel2pycl import Cell
    r = lib.call_catch(ex.get_cell, Cell(title, column, row))
    return r if isinstance(r, codec.Raised) else r.value


def _judge(out, ctx, obs, where, got, exp):
    """exp: BLANK | ('val', v) | ('num', n)"""
    out.evals += 1
    if exp is BLANK:
        if is_blank(got):
            return True
        how = 'raised' if isinstance(got, codec.Raised) else 'not_blank'
        out.fail(f'C18.{ctx}blank.{how}', f'{where}: not stored in the workbook, evaluates to {short(got)} '
                                           f'({type(got).__name__}), expected the blank cell')
        return False
    out.nontrivial += 1
    if exp[0] == 'num':
        if isinstance(got, (int, float)) and not isinstance(got, bool) and not is_blank(got) and got == exp[1]:
            return True
        out.fail(f'C18.{ctx}{obs}.sum', f'{where}: evaluates to {short(got)}, expected {exp[1]!r}')
        return False
    v = exp[1]
    if exact(got, v):
        return True
    if isinstance(got, codec.Raised):
        how = 'raised'
    elif is_blank(got):
        how = 'read_as_blank'
    elif type(got) is not type(v):
        how = 'wrong_type'
    else:
        how = 'wrong_value'
    out.fail(f'C18.{ctx}{obs}.{kind_of(v)}.{how}', f'{where}: evaluates to {short(got)} ({type(got).__name__}), '
                                                   f'expected {short(v)} ({type(v).__name__})')
    return False


def _probe_positions(model, s, rng, full_box_area=150, sample=40):
    stored = set(model.cells[s])
    size = model.size(s)
    w, h = size['last_column'], size['last_row']
    pos = []
    if w * h <= full_box_area:
        pos += [(c, r) for r in range(1, h + 1) for c in range(1, w + 1) if (c, r) not in stored]
    else:
        seen = set()
        for _ in range(sample):
            p = (rng.randint(1, w), rng.randint(1, h))
            if p not in stored and p not in seen:
                seen.add(p)
                pos.append(p)
        neigh = []
        for (c, r) in sorted(stored):
            for dc, dr in ((-1, 0), (1, 0), (0, -1), (0, 1), (-1, -1), (1, 1)):
                p = (c + dc, r + dr)
                if p[0] >= 1 and p[1] >= 1 and p not in stored and p not in seen:
                    seen.add(p)
                    neigh.append(p)
        pos += neigh[:80]
    for p in ((w + 1, 1), (1, h + 1), (w + 1, h + 1), (w + 5, h + 7), (1, 1), (2, 2)):
        if p not in stored and p not in pos:
            pos.append(p)
    return pos


def observe(out, model, cls, ex, ctx='', ov=None, entry=None, get_sheet=True, blanks=True, meta=True, seed=0,
            addr=('int', 'str'), area=GET_SHEET_AREA):
    """Compare everything the statement names for one translated workbook against the model."""
    ov = ov or {}
    rng = random.Random(seed)
    n = len(model.titles)
    str_only = bool(model.spec.get('chartsheets'))          # sheet numbers are only defined through the reported titles
    # 1. stored cells (constants, formulas, array formulas, explicit blanks)
    if entry is not None:
        es = model.titles.index(entry[0]) if isinstance(entry[0], str) else entry[0]
        targets = model.closure(es, entry[1], entry[2])
    else:
        targets = [(s, c, r) for s in range(n) for (c, r) in sorted(model.cells[s])]
        targets += [k for k in ov if k not in set(targets)]
    for (s, c, r) in targets:
        exp = model.expect(s, c, r, ov)
        if exp is None:
            out.skipped += 1
            continue
        e = model.cells[s].get((c, r))
        obs = 'overridden' if (s, c, r) in ov else {'const': 'constant', 'formula': 'reference', 'array': 'array_formula',
                                                   'styled': 'stored_blank'}.get(e['kind'] if e else None, 'blank')
        where0 = f"'{model.titles[s]}'!{letters(c)}{r}" + (f" [{e['text']}]" if e and 'text' in e else '')
        for a in addr:
            if a == 'int' and str_only:
                continue
            got = _read(ex, s, c - 1, r - 1) if a == 'int' else _read(ex, model.titles[s], letters(c), str(r))
            ok = _judge(out, ctx, obs, where0 + (f' read as Cell({s}, {c - 1}, {r - 1})' if a == 'int' else
                                                 f' read as Cell({model.titles[s]!r}, {letters(c)!r}, {str(r)!r})'),
                        got, exp)
            if ok and len(out.samples) < 3 and exp is not BLANK:
                out.samples.append({'cell': where0, 'expected': short(exp[1]), 'got': short(got)})
    # 2. cells that are not stored
    if blanks and entry is None:
        for s in range(n):
            for (c, r) in _probe_positions(model, s, rng):
                exp = model.expect(s, c, r, ov)
                if exp is None:
                    continue
                a = 'str' if (str_only or (c + r) % 2) else 'int'
                got = _read(ex, s, c - 1, r - 1) if a == 'int' else _read(ex, model.titles[s], letters(c), str(r))
                _judge(out, ctx, 'blank', f"'{model.titles[s]}'!{letters(c)}{r}", got, exp)
    # 3. titles and sizes
    if meta:
        inst = ex.get_executed_class()
        titles = lib.call_catch(inst.get_titles)
        sizes = lib.call_catch(inst.get_sheets_size)
        out.evals += 1
        out.nontrivial += 1
        if str_only:
            ok = isinstance(titles, dict) and isinstance(sizes, list) and all(
                t in titles and type(titles[t]) is int and 0 <= titles[t] < len(sizes) and
                sizes[titles[t]] == model.size(s) for s, t in enumerate(model.titles))
            if not ok:
                out.fail(f'C18.{ctx}titles.chartsheet', f'workbook sheets {_all_sheets(model.spec)}: get_titles() -> {titles!r}, '
                         f'get_sheets_size() -> {sizes!r}; the worksheets {model.titles} have sizes '
                         f'{[model.size(s) for s in range(n)]}')
        else:
            exp_t = {t: i for i, t in enumerate(model.titles)}
            if not (isinstance(titles, dict) and titles == exp_t and list(titles) == model.titles and
                    all(type(v) is int for v in titles.values())):
                out.fail(f'C18.{ctx}titles', f'get_titles() -> {short(titles)}, expected {short(exp_t)}')
            if not isinstance(sizes, list) or len(sizes) != n:
                out.fail(f'C18.{ctx}sizes.count', f'get_sheets_size() -> {short(sizes)}, expected {n} entries')
            else:
                for s in range(n):
                    out.evals += 1
                    out.nontrivial += 1
                    exp_s = model.size(s)
                    got_s = sizes[s]
                    if model.has_styled(s):
                        lo = model.size(s, values_only=True)
                        ok = isinstance(got_s, dict) and set(got_s) == set(exp_s) and all(
                            type(got_s[k]) is int and lo[k] <= got_s[k] <= exp_s[k] for k in exp_s)
                    else:
                        ok = isinstance(got_s, dict) and got_s == exp_s and all(type(x) is int for x in got_s.values())
                    if not ok:
                        which = 'last_column' if isinstance(got_s, dict) and got_s.get('last_column') != exp_s['last_column'] \
                            else 'last_row'
                        out.fail(f'C18.{ctx}sizes.{which}' + ('.empty_sheet' if not model.cells[s] else ''),
                                 f"sheet {s} '{model.titles[s]}' of {n}: get_sheets_size()[{s}] -> {got_s!r}, expected {exp_s!r} "
                                 f'(all: {short(sizes)})')
    # 4. whole-sheet matrix
    if get_sheet and entry is None and not ov:
        for s in range(n):
            size = model.size(s)
            if size['last_column'] * size['last_row'] > area or model.has_styled(s):
                continue
            for which in ([] if str_only else [s]) + [model.titles[s]]:
                out.evals += 1
                out.nontrivial += 1
                m = lib.call_catch(ex.get_sheet, which)
                bad = None
                if isinstance(m, codec.Raised) or not isinstance(m, list):
                    bad = f'-> {short(m)}'
                elif len(m) != size['last_row'] or any(len(row) != size['last_column'] for row in m):
                    bad = f"has {len(m)} rows of lengths {sorted(set(len(row) for row in m))}, expected " \
                          f"{size['last_row']} x {size['last_column']}"
                else:
                    for i, row in enumerate(m):
                        for j, cell in enumerate(row):
                            exp = model.expect(s, j + 1, i + 1, ov)
                            if exp is None:
                                continue
                            got = cell.value
                            good = is_blank(got) if exp is BLANK else (
                                exact(got, exp[1]) if exp[0] == 'val' else (not is_blank(got) and got == exp[1]))
                            if not good or (cell.column, cell.row) != (j, i):
                                bad = f'[{i}][{j}] is Cell(column={cell.column}, row={cell.row}, value={short(got)}), ' \
                                      f'expected {letters(j + 1)}{i + 1} = {"blank" if exp is BLANK else short(exp[1])}'
                                break
                        if bad:
                            break
                if bad:
                    out.fail(f'C18.{ctx}get_sheet', f"get_sheet({which!r}) of sheet {s} '{model.titles[s]}' {bad}")


def _all_sheets(spec):
    names = [sh['title'] for sh in spec['sheets']]
    for pos, title in sorted(spec.get('chartsheets', [])):
        names.insert(pos, f'<chart {title}>')
    return names


# ----------------------------------------------------------------------------------------------- scenario runner
def _translate(parser, path, entry, safety, shared_entry):
    from excel2pycl import Parser, Cell
    p = parser or Parser()
    if safety:
        p.enable_safety_check()
    else:
        p.disable_safety_check()
    p.set_excel_file_path(path)
    if entry is not None:
        p.set_entrypoint_cell(shared_entry if shared_entry is not None else Cell(entry[0], letters(entry[1]), str(entry[2])))
    return lib.call_catch(p.get_translation)


def run_scenario(scn):
    """scn: {'group', 'mode': fresh|same_parser|same_executor, 'books': [{'spec', 'entry'?, 'safety'?}], 'steps'?: overrides
    of book 0, 'seed', 'get_sheet'?, 'share_entry'?, 'rootkey'?}.  Returns a JSON-able result."""
    from excel2pycl import Parser, Executor, Cell
    out = Out(scn)
    mode = scn.get('mode', 'fresh')
    ctx = '' if mode == 'fresh' else mode + '.'
    seed = scn.get('seed', 0)
    with lib.scratch() as d:
        parser = Parser() if mode == 'same_parser' else None
        shared_entry = None
        models, classes = [], []
        for i, book in enumerate(scn['books']):
            path = os.path.join(d, f'book{i}.xlsx')
            write_book(book['spec'], path)
            model = Model(book['spec'], path)
            out.skipped += model.unstorable
            entry = book.get('entry')
            if entry is not None and scn.get('share_entry') and shared_entry is None:
                shared_entry = Cell(entry[0], letters(entry[1]), str(entry[2]))
            text = _translate(parser, path, entry, book.get('safety', True), shared_entry if scn.get('share_entry') else None)
            cls = None
            if isinstance(text, codec.Raised):
                out.evals += 1
                out.fail(f'C18.{ctx}translate.{text.cls}', f'translation of book {i} raised {text!r}')
            else:
                cls = lib.call_catch(lib.load_class_from_text, text)
                if isinstance(cls, codec.Raised):
                    out.evals += 1
                    out.fail(f'C18.{ctx}load.{cls.cls}', f'generated class of book {i} does not load: {cls!r}')
                    cls = None
            models.append(model)
            classes.append(cls)
        gs = scn.get('get_sheet', True)
        area = scn.get('area', GET_SHEET_AREA)
        if mode == 'same_executor':
            ex = Executor()
            order = list(range(len(models))) + [0]
            for i in order:
                if classes[i] is None:
                    continue
                ex.set_executed_class(class_object=classes[i])
                observe(out, models[i], classes[i], ex, ctx=ctx, entry=scn['books'][i].get('entry'), get_sheet=gs, seed=seed + i, area=area)
        else:
            exs = [Executor().set_executed_class(class_object=c) if c is not None else None for c in classes]
            for i, ex in enumerate(exs):
                if ex is not None:
                    observe(out, models[i], classes[i], ex, ctx=ctx, entry=scn['books'][i].get('entry'), get_sheet=gs, seed=seed + i, area=area)
            if len(exs) > 1:                                  # once more, interleaved, in reverse order
                for i in reversed(range(len(exs))):
                    if exs[i] is not None:
                        observe(out, models[i], classes[i], exs[i], ctx=ctx, entry=scn['books'][i].get('entry'),
                                get_sheet=False, blanks=False, seed=seed + i)
            if scn.get('steps') and exs and exs[0] is not None:
                model, cls, ex = models[0], classes[0], exs[0]
                enc, dec = lib.coder(cls)
                ov = {}
                for step in scn['steps']:
                    cells = []
                    for (s, c, r, val, a) in step:
                        v = dec(val)
                        ov[(s, c, r)] = BLANK if is_blank(v) else v
                        cells.append(Cell(s, c - 1, r - 1, v) if a == 'int' else Cell(model.titles[s], letters(c), str(r), v))
                    rr = lib.call_catch(ex.set_cells, cells)
                    if isinstance(rr, codec.Raised):
                        out.evals += 1
                        out.fail(f'C18.override.set_cells.{rr.cls}', f'set_cells({step!r}) raised {rr!r}')
                        continue
                    observe(out, model, cls, ex, ctx='override.', ov=dict(ov), get_sheet=False, meta=False, seed=seed)
                ex2 = Executor().set_executed_class(class_object=cls)      # a second executor sees the workbook itself
                observe(out, model, cls, ex2, ctx='after_override.', get_sheet=gs, seed=seed, area=area)
    return {'evals': out.evals, 'nontrivial': out.nontrivial, 'skipped': out.skipped, 'samples': out.samples,
            'fails': [[k, w] for k, w in out.fails.items()]}


MEM_LIMIT = 3 * 2 ** 30
SCN_TIMEOUT = 300


def _init_worker():
    """a workbook reader that runs away (pads a far cell's sheet to a full grid) must fail, not take the machine down"""
    import resource
    try:
        resource.setrlimit(resource.RLIMIT_AS, (MEM_LIMIT, MEM_LIMIT))
    except (ValueError, OSError):
        pass


def _work(arg):
    import signal
    import traceback
    idx, scn = arg

    def on_alarm(*a):
        raise TimeoutError(f'not finished after {SCN_TIMEOUT} s')
    try:
        signal.signal(signal.SIGALRM, on_alarm)
        signal.alarm(SCN_TIMEOUT)
    except ValueError:
        pass
    try:
        res = run_scenario(scn)
    except (MemoryError, TimeoutError) as e:
        res = {'evals': 1, 'nontrivial': 0, 'skipped': 0, 'samples': [],
               'fails': [['C18.resource.' + type(e).__name__, f'reading / translating / executing the workbook(s) '
                          f'{[_all_sheets(b["spec"]) for b in scn["books"]]} exhausted {MEM_LIMIT >> 30} GiB or {SCN_TIMEOUT} s: {e!r}']]}
    except BaseException as e:  # noqa - a crash of the monitor itself must be visible, not silent
        res = {'evals': 1, 'nontrivial': 0, 'skipped': 0, 'samples': [],
               'fails': [['C18.monitor_crash.' + type(e).__name__, traceback.format_exc()[-600:]]]}
    finally:
        try:
            signal.alarm(0)
        except ValueError:
            pass
    res['idx'] = idx
    return res


# ----------------------------------------------------------------------------------------------- generators
def pick_value(rng, safe=True):
    fam = rng.choice(FAMILIES_SAFE if safe else FAMILIES_SAFE + [TEXTS_CALL])
    return rng.choice(fam)


def gen_positions(rng, kind):
    if kind == 'empty':
        return []
    if kind == 'single':
        return [(rng.choice(COLS), rng.choice(ROWS))]
    if kind == 'origin':
        return [(1, 1)]
    if kind == 'sparse':
        return sorted({(rng.choice(COLS), rng.choice(ROWS)) for _ in range(rng.randint(2, 8))})
    if kind == 'block':
        c0, r0 = rng.choice([1, 1, 2, 3, 26, 702]), rng.choice([1, 1, 2, 4, 100, 1000])
        w, h = rng.randint(1, 5), rng.randint(1, 5)
        pos = [(c0 + i, r0 + j) for j in range(h) for i in range(w) if rng.random() < 0.75]
        return pos or [(c0, r0)]
    if kind == 'ragged':
        pos = []
        for r in range(1, rng.randint(3, 8)):
            pos += [(c, r) for c in range(1, rng.randint(0, 6) + 1) if rng.random() < 0.8]
        return pos
    if kind == 'diag':
        return [(i, i) for i in sorted(rng.sample(range(1, 30), rng.randint(1, 6)))]
    if kind == 'rows':                                   # sparse rows: whole rows missing between stored ones
        rows = sorted(rng.sample(ROWS, rng.randint(2, 5)))
        return [(c, r) for r in rows for c in sorted(rng.sample(range(1, 8), rng.randint(1, 3)))]
    raise ValueError(kind)


KINDS = ['empty', 'single', 'origin', 'sparse', 'block', 'ragged', 'diag', 'rows']


def gen_sheet_cells(rng, kind, safe=True, bound=None):
    pos = gen_positions(rng, kind)
    if bound is not None:
        w, h = bound
        pos = [(c, r) for (c, r) in pos if c <= w and r <= h]
        for p in ((w, rng.randint(1, h)), (rng.randint(1, w), h)):      # size is exactly (w, h)
            if p not in pos:
                pos.append(p)
    return [[c, r, pick_value(rng, safe)] for (c, r) in pos]


def gen_titles(rng, n):
    if n <= len(TITLES):
        return rng.sample(TITLES, n)
    return rng.sample(TITLES, len(TITLES)) + [f'N{i}' for i in range(n - len(TITLES))]


def gen_book(rng, n_sheets=None, safe=True, shape=None):
    n = n_sheets or rng.choice([1, 2, 2, 3, 3, 4, 5, 6])
    titles = gen_titles(rng, n)
    shape = shape or rng.choice(['free', 'free', 'shrinking', 'growing', 'empties'])
    sheets = []
    if shape in ('shrinking', 'growing'):
        ws = sorted(rng.sample(COLS[:12] + [6, 7, 8], n), reverse=True) if n <= 15 else None
        hs = sorted(rng.sample(ROWS[:14] + [6, 7, 8], n), reverse=True) if n <= 15 else None
        if ws is None:
            shape = 'free'
        else:
            bounds = list(zip(ws, hs))
            if shape == 'growing':
                bounds.reverse()
            for t, b in zip(titles, bounds):
                sheets.append({'title': t, 'cells': gen_sheet_cells(rng, rng.choice(['sparse', 'block', 'ragged', 'rows']), safe, b)})
    if shape in ('free', 'empties'):
        for i, t in enumerate(titles):
            kind = rng.choice(KINDS)
            if shape == 'empties' and (i in (0, n - 1) or rng.random() < 0.4):
                kind = 'empty'
            sheets.append({'title': t, 'cells': gen_sheet_cells(rng, kind, safe)})
    return {'sheets': sheets}


def scn_occupancy(rng, w, h, per_book=32):
    """every occupancy pattern of a w x h grid, one pattern per sheet"""
    pats = list(range(2 ** (w * h)))
    rng.shuffle(pats)
    out = []
    for b in range(0, len(pats), per_book):
        sheets = []
        for p in pats[b:b + per_book]:
            cells = []
            for k in range(w * h):
                if p >> k & 1:
                    cells.append([k % w + 1, k // w + 1, SMALL[(p + 3 * k) % len(SMALL)]])
            sheets.append({'title': f'P{p}', 'cells': cells})
        out.append({'group': f'occupancy{w}x{h}', 'books': [{'spec': {'sheets': sheets}, 'safety': True}], 'seed': b})
    return out


NEAR = [(1, 1), (2, 1), (1, 2), (3, 3), (26, 1), (27, 1), (52, 2), (53, 2), (702, 3), (703, 3), (704, 1), (1, 100), (1, 101),
        (2, 1000), (2, 1001), (27, 101), (3, 5), (5, 3), (10, 10), (256, 1), (257, 1), (1, 256), (1, 257), (100, 100)]


def scn_value_x_position():
    out = []
    n = len(NEAR)
    k = (len(ALL_VALUES) + n - 1) // n
    for rot in range(n):
        sheets = [{'title': f'V{i}', 'cells': []} for i in range(k)]
        for j, v in enumerate(ALL_VALUES):
            c, r = NEAR[(j + rot) % n]
            sheets[j // n]['cells'].append([c, r, v])
        out.append({'group': 'value_x_position', 'books': [{'spec': {'sheets': sheets}, 'safety': False}], 'seed': rot,
                    'get_sheet': rot < 4})
    return out


def scn_far(tier):
    vals = [True, 0, RAW('1.0'), 'far', _e(DT(2051, 1, 1)), False, 1, _e(0.5)]
    far = [(16384, 1), (16383, 2), (16384, 3), (1, 65536), (2, 65537), (703, 1001), (16278, 5), (3, 1048576),
           (16384, 1048576)]
    out = []
    for i, (c, r) in enumerate(far):
        if r > 100000 and tier != 'thorough' and c < 16384:
            continue
        v = vals[i % len(vals)]
        s0 = {'title': 'Far', 'cells': [[c, r, v], [1, 1, vals[(i + 1) % len(vals)]]]}
        s1 = {'title': 'near', 'cells': [[2, 2, vals[(i + 2) % len(vals)]], [1, 3, f'=Far!{letters(c)}{r}', {'ref': [0, c, r]}],
                                         [3, 1, f'=Far!${letters(c)}${r}', {'ref': [0, c, r]}]]}
        s2 = {'title': 'E', 'cells': []}
        for order in ([s0, s1, s2], [s2, s1, s0]):
            spec = {'sheets': order}
            if order[0] is s2:
                spec = {'sheets': [s2, {'title': 'near', 'cells': [[2, 2, s1['cells'][0][2]],
                                                                    [1, 3, s1['cells'][1][2], {'ref': [2, c, r]}],
                                                                    [3, 1, s1['cells'][2][2], {'ref': [2, c, r]}]]}, s0]}
            out.append({'group': 'far_cells', 'books': [{'spec': spec, 'safety': True}], 'seed': i, 'area': 60000})
        out.append({'group': 'far_cells', 'books': [{'spec': {'sheets': [s0, s1, s2]}, 'safety': True, 'entry': ['near', 1, 3]}],
                    'seed': i})
    # the longest text a cell can hold, next to its neighbours
    out.append({'group': 'far_cells', 'seed': 0, 'books': [{'safety': False, 'spec': {'sheets': [
        {'title': 'Long', 'cells': [[2, 2, 'z' * 32767], [3, 2, 'q' * 32766 + "'"], [2, 3, 1], [1, 2, True]]}]}}]})
    return out


def scn_many_sheets(rng, tier):
    out = []
    counts = [1, 2, 3, 4, 5, 6, 12, 40] if tier != 'thorough' else [1, 2, 3, 4, 5, 6, 7, 11, 12, 13, 40, 101]
    reps = 3 if tier != 'thorough' else 8
    for n in counts:
        for rep in range(reps):
            for shape in ('free', 'shrinking', 'growing', 'empties'):
                spec = gen_book(rng, n, True, shape)
                out.append({'group': 'many_sheets', 'books': [{'spec': spec, 'safety': True}], 'seed': rep})
    out.append({'group': 'many_sheets', 'books': [{'spec': {'sheets': [{'title': 'only', 'cells': []}]}}], 'seed': 0})
    out.append({'group': 'many_sheets', 'books': [{'spec': {'sheets': [{'title': t, 'cells': []} for t in ('e1', 'e0', 'e2')]}}],
                'seed': 0})
    out.append({'group': 'many_sheets', 'seed': 0, 'books': [{'spec': {'sheets': [
        {'title': 'vis', 'cells': [[2, 2, 1]]}, {'title': 'hid', 'cells': [[3, 1, 'h']], 'state': 'hidden'},
        {'title': 'very', 'cells': [[1, 3, True]], 'state': 'veryHidden'}, {'title': 'last', 'cells': [[1, 1, 'l']]}]}}]})
    return out


def scn_titles():
    out = []
    for perm in itertools.permutations(['b', 'a', '1', '0']):
        sheets = [{'title': t, 'cells': [[i + 1, 4 - i, f'in {t}'], [1, 1, i]]} for i, t in enumerate(perm)]
        out.append({'group': 'titles', 'books': [{'spec': {'sheets': sheets}}], 'seed': 0})
    for ts in (TITLES[:10], TITLES[10:20], TITLES[20:], ['Sheet3', 'Sheet1', 'Sheet2'], ['2', '0', '1'], ['10', '9', '1']):
        sheets = [{'title': t, 'cells': [[i + 1, len(ts) - i, f'in {t}']]} for i, t in enumerate(ts)]
        out.append({'group': 'titles', 'books': [{'spec': {'sheets': sheets}}], 'seed': 0})
    # chart sheets are sheets of the workbook but not worksheets
    for pos in (0, 1, 2, 3):
        sheets = [{'title': 'S', 'cells': [[1, 1, 1]]}, {'title': 'T', 'cells': [[1, 1, 'tt'], [2, 2, '=S!A1', {'ref': [0, 1, 1]}]]},
                  {'title': 'H', 'cells': [[1, 1, 'hh'], [3, 3, True]]}][:min(3, max(2, pos + 1))]
        out.append({'group': 'titles', 'rootkey': 'C18.titles.chartsheet_shifts_index', 'seed': 0,
                    'books': [{'spec': {'sheets': sheets, 'chartsheets': [[pos, 'Chart']]}}]})
    return out


FAM1 = [True, 1, RAW('1.0')]
FAM0 = [False, 0, RAW('0.0'), RAW('-0.0')]
FAMT = ['1', 1, True, 'TRUE']
FAMX = [0, False, '0', ' ']


def scn_equal_types(tier):
    out = []
    fams = [FAM1, FAM0] + ([FAMT, FAMX] if tier == 'thorough' else [])
    # (a) in a row, (b) in a column, (c) same coordinate of different sheets: one permutation per sheet / workbook
    for lay in ('row', 'column'):
        sheets = []
        for f_i, fam in enumerate([FAM1, FAM0, FAMT, FAMX]):
            for p_i, perm in enumerate(itertools.permutations(fam)):
                cells = [[(i + 1) if lay == 'row' else 2, 3 if lay == 'row' else (i + 1), v] for i, v in enumerate(perm)]
                sheets.append({'title': f'F{f_i}P{p_i}', 'cells': cells})
        out.append({'group': 'equal_across_types', 'books': [{'spec': {'sheets': sheets}}], 'seed': 0})
    for f_i, fam in enumerate([FAM1, FAM0, FAMT, FAMX]):
        for perm in itertools.permutations(fam):
            sheets = [{'title': f's{i}', 'cells': [[1, 1, v]]} for i, v in enumerate(perm)]
            out.append({'group': 'equal_across_types', 'books': [{'spec': {'sheets': sheets}}], 'seed': 0})
    # (d) one value per workbook, several workbooks translated in one process
    for fam in fams:
        for perm in itertools.permutations(fam):
            for mode in ('fresh', 'same_parser', 'same_executor'):
                books = [{'spec': {'sheets': [{'title': 'S', 'cells': [[1, 1, v]]}]}} for v in perm]
                out.append({'group': 'equal_across_types', 'mode': mode, 'books': books, 'seed': 0})
    # overrides with equal values of different types over each other
    for fam in (FAM1[:2] + [_e(1.0)], FAM0[:2] + [_e(0.0)]):
        for perm in itertools.permutations(fam):
            cells = [[i + 1, 1, v] for i, v in enumerate(fam)] + [[5, 1, '=A1', {'ref': [0, 1, 1]}]]
            steps = [[[0, i + 1, 1, v, 'int' if i % 2 else 'str'] for i, v in enumerate(perm)]]
            out.append({'group': 'equal_across_types', 'books': [{'spec': {'sheets': [{'title': 'S', 'cells': cells}]}}],
                        'steps': steps, 'seed': 0})
    return out


def _ref_text(rng, model_titles, s_from, s_to, c, r):
    a = rng.choice([f'{letters(c)}{r}', f'${letters(c)}${r}', f'{letters(c)}${r}', f'${letters(c)}{r}'])
    t = model_titles[s_to]
    if s_from == s_to and rng.random() < 0.6:
        return '=' + a
    q = t if t.isalnum() and t.isascii() and not t[0].isdigit() and rng.random() < 0.6 else "'" + t + "'"
    return f'={q}!{a}'


def gen_ref_book(rng, far=False):
    titles = rng.sample(['S', 'T t', 'Data2', 'U', 'x-y', 'Sheet1'], rng.choice([2, 3, 4]))
    n = len(titles)
    const_pos = [(2, 2), (1, 1), (3, 5), (27, 3), (2, 101), (703, 2)] + ([(16384, 1), (2, 65537)] if far else [])
    sheets = [{'title': t, 'cells': []} for t in titles]
    used = [set() for _ in titles]
    for s in range(n):
        for (c, r) in rng.sample(const_pos, rng.randint(2, len(const_pos))):
            sheets[s]['cells'].append([c, r, pick_value(rng, True)])
            used[s].add((c, r))
    # the same unqualified reference at the same coordinate of every sheet
    for s in range(n):
        if (2, 2) in used[s]:
            sheets[s]['cells'].append([5, 7, '=B2', {'ref': [s, 2, 2]}])
            used[s].add((5, 7))
    forms = []
    for _ in range(rng.randint(3, 8)):
        s_from, s_to = rng.randrange(n), rng.randrange(n)
        c, r = rng.choice(sorted(used[s_to] - {(5, 7)}))
        if any(x[0] == c and x[1] == r and isinstance(x[2], str) and x[2].startswith('=') for x in sheets[s_to]['cells']):
            continue
        pos = (rng.choice([4, 6, 8, 30]), rng.choice([1, 2, 9, 120]))
        if pos in used[s_from]:
            continue
        used[s_from].add(pos)
        sheets[s_from]['cells'].append([pos[0], pos[1], _ref_text(rng, titles, s_from, s_to, c, r), {'ref': [s_to, c, r]}])
        forms.append((s_from, pos))
    # a reference to a reference
    if forms:
        s_f, (c, r) = forms[0]
        for s in range(n):
            if (9, 9) not in used[s]:
                sheets[s]['cells'].append([9, 9, f"='{titles[s_f]}'!{letters(c)}{r}", {'ref': [s_f, c, r]}])
                used[s].add((9, 9))
                forms.append((s, (9, 9)))
                break
    return {'sheets': sheets}, forms


def scn_references(rng, tier):
    out = []
    nb = 12 if tier != 'thorough' else 80
    for b in range(nb):
        spec, forms = gen_ref_book(rng, far=(b % 4 == 3))
        out.append({'group': 'references', 'books': [{'spec': spec}], 'seed': b})
        titles = [sh['title'] for sh in spec['sheets']]
        for (s, (c, r)) in forms[:4] + [(s, (5, 7)) for s in range(len(titles)) if any(
                x[0] == 5 and x[1] == 7 for x in spec['sheets'][s]['cells'])][:2]:
            out.append({'group': 'references', 'books': [{'spec': spec, 'entry': [titles[s], c, r]}], 'seed': b})
        # entry point that is a constant cell
        s = rng.randrange(len(titles))
        consts = [x for x in spec['sheets'][s]['cells'] if not (isinstance(x[2], str) and x[2].startswith('='))]
        if consts:
            x = rng.choice(consts)
            out.append({'group': 'references', 'books': [{'spec': spec, 'entry': [titles[s], x[0], x[1]]}], 'seed': b})
        # the same parser, the same entry Cell object, a second workbook whose sheets are in another order
        spec2 = {'sheets': list(reversed(spec['sheets']))}
        n = len(titles)
        spec2 = _remap_sheets(spec2, {i: n - 1 - i for i in range(n)})
        if forms:
            s, (c, r) = forms[0]
            out.append({'group': 'references', 'mode': 'same_parser', 'share_entry': True, 'seed': b,
                        'books': [{'spec': spec, 'entry': [titles[s], c, r]}, {'spec': spec2, 'entry': [titles[s], c, r]},
                                  {'spec': spec, 'entry': [titles[s], c, r]}]})
    return out


def _remap_sheets(spec, mapping):
    """renumber the sheet indexes inside the expectations after the sheets were reordered"""
    sheets = []
    for sh in spec['sheets']:
        cells = []
        for cell in sh['cells']:
            if len(cell) > 3 and cell[3]:
                x = dict(cell[3])
                if 'ref' in x:
                    x['ref'] = [mapping[x['ref'][0]], x['ref'][1], x['ref'][2]]
                if 'sum' in x:
                    x['sum'] = [[mapping[t[0]], t[1], t[2]] for t in x['sum']]
                cells.append([cell[0], cell[1], cell[2], x])
            else:
                cells.append(list(cell))
        sheets.append(dict(sh, cells=cells))
    return dict(spec, sheets=sheets)


def scn_array(rng, tier):
    out = []
    nb = 6 if tier != 'thorough' else 40
    for b in range(nb):
        c0, r0 = rng.choice([(1, 1), (2, 2), (3, 1), (26, 100), (1, 1001)])
        ints = [rng.choice([0, 1, 2, 7, 100, -3]) for _ in range(3)]
        v = pick_value(rng, True)
        cells = [[c0, r0 + i, x] for i, x in enumerate(ints)] + [[c0 + 1, r0, v]]
        ca = c0 + 3
        rng_txt = f'{letters(c0)}{r0}:{letters(c0)}{r0 + 2}'
        cells += [
            [ca, r0, {'$arr': [f'{letters(ca)}{r0}:{letters(ca)}{r0}', f'=SUM({rng_txt})']}, {'sum': [[0, c0, r0 + i] for i in range(3)]}],
            [ca, r0 + 1, {'$arr': [f'{letters(ca)}{r0 + 1}:{letters(ca)}{r0 + 2}', f'={letters(c0 + 1)}{r0}']}, {'ref': [0, c0 + 1, r0]}],
            [ca + 1, r0 + 4, {'$arr': [f'{letters(ca + 1)}{r0 + 4}:{letters(ca + 1)}{r0 + 4}', '=1+2']}, {'const': 3}],
            [ca + 2, r0, f'=SUM({rng_txt})', {'sum': [[0, c0, r0 + i] for i in range(3)]}],
            [ca + 3, r0 + 1, f'={letters(ca)}{r0 + 1}', {'ref': [0, ca, r0 + 1]}],
        ]
        sheets = [{'title': 'Arr', 'cells': cells}, {'title': 'other', 'cells': [
            [1, 1, f"=Arr!{letters(ca)}{r0}", {'ref': [0, ca, r0]}],
            [2, 2, {'$arr': ['B2:B2', f"=Arr!{letters(c0 + 1)}{r0}"]}, {'ref': [0, c0 + 1, r0]}]]}]
        if b % 2:
            sheets.reverse()
            sheets = _remap_sheets({'sheets': sheets}, {0: 1, 1: 0})['sheets']
        out.append({'group': 'array_formula', 'books': [{'spec': {'sheets': sheets}}], 'seed': b})
        t = 'Arr'
        out.append({'group': 'array_formula', 'books': [{'spec': {'sheets': sheets}, 'entry': [t, ca, r0]}], 'seed': b})
    return out


def scn_styled(rng, tier):
    out = []
    nb = 6 if tier != 'thorough' else 30
    for b in range(nb):
        spec = gen_book(rng, rng.choice([1, 2, 3]), True, 'free')
        for sh in spec['sheets']:
            taken = {(x[0], x[1]) for x in sh['cells']}
            for _ in range(rng.randint(1, 4)):
                p = (rng.choice(COLS[:8]), rng.choice(ROWS[:8]))
                if p not in taken:
                    taken.add(p)
                    sh['cells'].append([p[0], p[1], {'$styled': 1}])
        out.append({'group': 'stored_blank', 'books': [{'spec': spec}], 'seed': b})
    return out


def scn_reuse(rng, tier):
    out = []
    nb = 20 if tier != 'thorough' else 150
    for b in range(nb):
        big = gen_book(rng, rng.choice([3, 4, 5]), True, 'free')
        small = gen_book(rng, rng.choice([1, 2]), True, rng.choice(['free', 'empties']))
        # the smaller workbook re-uses titles of the bigger one in another order
        ts = [sh['title'] for sh in big['sheets']]
        for i, sh in enumerate(small['sheets']):
            sh['title'] = ts[-1 - i]
        for sh in small['sheets']:
            sh['cells'] = [x for x in sh['cells'] if x[0] <= 5 and x[1] <= 5]
        mode = ['same_parser', 'same_executor', 'fresh'][b % 3]
        out.append({'group': 'reuse', 'mode': mode, 'seed': b,
                    'books': [{'spec': big}, {'spec': small}, {'spec': big}] if b % 2 else [{'spec': small}, {'spec': big}, {'spec': small}]})
    return out


def scn_overrides(rng, tier):
    out = []
    nb = 24 if tier != 'thorough' else 200
    for b in range(nb):
        spec, forms = gen_ref_book(rng)
        model = Model(spec)
        n = len(model.titles)
        steps = []
        for _ in range(rng.randint(1, 3)):
            step = []
            for _ in range(rng.randint(1, 5)):
                s = rng.randrange(n)
                size = model.size(s)
                where = rng.random()
                if where < 0.5 and model.cells[s]:
                    c, r = rng.choice(sorted(model.cells[s]))                       # a stored cell (constant or formula)
                elif where < 0.75:
                    c, r = rng.randint(1, max(1, size['last_column'])), rng.randint(1, max(1, size['last_row']))
                else:
                    c, r = size['last_column'] + rng.randint(1, 3), size['last_row'] + rng.randint(1, 3)   # beyond
                v = rng.choice([True, False, 0, 1, _e(1.0), _e(0.0), _e(-0.0), 'o', '', _e(DT(2051, 2, 3)), {'$e': 1}, 5, _e(2.5)])
                step.append([s, c, r, v, rng.choice(['int', 'str'])])
            steps.append(step)
        out.append({'group': 'overrides', 'books': [{'spec': spec}], 'steps': steps, 'seed': b})
    return out


def scn_random(rng, tier):
    out = []
    nb = 60 if tier != 'thorough' else 2500
    for b in range(nb):
        safe = b % 5 != 0
        out.append({'group': 'random_layouts', 'books': [{'spec': gen_book(rng, None, safe), 'safety': safe}], 'seed': b})
    return out


# ----------------------------------------------------------------------------------------------- shrinking
def _cells_of(scn):
    return sum(len(sh['cells']) for b in scn['books'] for sh in b['spec']['sheets'])


def _fires(scn, key):
    res = _work((0, scn))
    for k, w in res['fails']:
        if k == key:
            return w
    return None


def shrink(scn, key, budget=12.0):
    """greedy: drop override steps, whole sheets' contents, then single cells, while the same key keeps firing"""
    import copy
    t0 = time.time()
    best = copy.deepcopy(scn)
    what = _fires(best, key)
    if what is None:
        return scn, None
    changed = True
    while changed and time.time() - t0 < budget:
        changed = False
        cands = []
        if best.get('steps'):
            for i in range(len(best['steps'])):
                c = copy.deepcopy(best)
                del c['steps'][i]
                cands.append(c)
        for bi, b in enumerate(best['books']):
            for si, sh in enumerate(b['spec']['sheets']):
                if len(sh['cells']) > 1:
                    c = copy.deepcopy(best)
                    c['books'][bi]['spec']['sheets'][si]['cells'] = []
                    cands.append(c)
        if _cells_of(best) <= 40:
            for bi, b in enumerate(best['books']):
                for si, sh in enumerate(b['spec']['sheets']):
                    for ci in range(len(sh['cells'])):
                        c = copy.deepcopy(best)
                        del c['books'][bi]['spec']['sheets'][si]['cells'][ci]
                        cands.append(c)
        else:
            for bi, b in enumerate(best['books']):
                for si, sh in enumerate(b['spec']['sheets']):
                    if len(sh['cells']) > 3:
                        for half in (sh['cells'][:len(sh['cells']) // 2], sh['cells'][len(sh['cells']) // 2:]):
                            c = copy.deepcopy(best)
                            c['books'][bi]['spec']['sheets'][si]['cells'] = copy.deepcopy(half)
                            cands.append(c)
        for c in cands:
            if time.time() - t0 > budget:
                break
            w = _fires(c, key)
            if w is not None:
                best, what, changed = c, w, True
                break
    return best, what


# ----------------------------------------------------------------------------------------------- driver
GROUPS = {
    'occupancy3x3': ('all 512 occupancy patterns of the 3 x 3 grid A1:C3 (one pattern per sheet, 32 sheets per workbook, sheet '
                     'order shuffled), values cycling through 17 constants of every type',
                     True),
    'occupancy4x3': ('all 4096 occupancy patterns of the 4 x 3 grid A1:D3 (one per sheet, 32 sheets per workbook)', True),
    'value_x_position': (f'{len(ALL_VALUES)} constants (ints up to 10^20, floats incl. 1.0/0.0/-0.0/5e-324/1.797e308, booleans, '
                         f'{len(TEXTS_SAFE) + len(TEXTS_CALL)} texts up to 5000 chars with quotes, braces, backslashes, line breaks, '
                         'call-like text, date-times 1900..9999, times) x 24 positions (columns 1,2,3,5,10,26,27,52,53,100,256,257,'
                         '702,703,704; rows 1,2,3,5,10,100,101,256,257,1000,1001): every pair', True),
    'far_cells': ('cells at XFD1, XFC2, XFD3, A65536, B65537, AAA1001, XAB5, XFD1048576 (thorough: also C1048576) with a later narrower '
                  'sheet and an empty sheet, both sheet orders, references to the far cell, entry-point translation; two texts of 32767 '
                  'characters', True),
    'many_sheets': ('workbooks of 1..6, 12, 40 (thorough: ..101) sheets; free / strictly shrinking / strictly growing / '
                    'empty-first-and-last layouts; all-empty workbooks; hidden sheets', False),
    'titles': ('all 24 orders of the titles b, a, 1, 0; 30 titles (unicode, spaces, braces, digits, 31 chars) in unsorted order; '
               'a chart sheet before / between / after the worksheets', True),
    'equal_across_types': ('TRUE/1/1.0, FALSE/0/0.0/-0.0, "1"/1/TRUE/"TRUE", 0/FALSE/"0"/" ": every permutation in a row, in a '
                           'column, at A1 of consecutive sheets, and one per workbook with workbooks translated one after another '
                           '(fresh objects, one Parser, one Executor); overrides of equal values of another type', True),
    'references': ('formulas =<ref> (relative, $-absolute, qualified, quoted titles, reference to a reference, the same text =B2 at '
                   'E7 of every sheet) to constants at B2, A1, C5, AA3, B101, AAA2 (XFD1, B65537); whole file, entry-point at '
                   'formulas and constants, one Parser + one entry Cell object over workbooks with reversed sheet order', False),
    'array_formula': ('array formulas =SUM(range), =<ref>, =1+2, =Sheet!ref at 5 offsets, next to the same ordinary formula, '
                      'referenced from another sheet, whole file and entry point', False),
    'stored_blank': ('random workbooks with 1..4 explicitly stored (formatted) blank cells per sheet', False),
    'reuse': ('triples big/small/big and small/big/small of random workbooks sharing titles in another order: one Parser, one '
              'Executor, or fresh objects with interleaved reads', False),
    'overrides': ('reference workbooks with 1..3 set_cells calls of 1..5 overrides (stored constants, formula cells, gaps, cells '
                  'beyond the used range; values TRUE/FALSE/0/1/1.0/0.0/-0.0/text/""/date/blank), int and string addressing; a '
                  'second Executor afterwards', False),
    'random_layouts': ('seeded random workbooks: 1..6 sheets, layouts empty/single/origin/sparse/block/ragged/diagonal/sparse-rows '
                       'over columns up to 704 and rows up to 5000, shrinking and growing sheet sequences', False),
}
RULE = ('one evaluation = one read of a cell through the real Parser -> generated class -> Executor (by 0-based numbers and by '
        'title/letters/row text) compared for exact type and value with the generator\'s cell map, or one get_titles / '
        'get_sheets_size entry / get_sheet matrix compared with it; non-trivial = the expectation is not "blank"; constants that '
        'openpyxl\'s ordinary loader does not read back as written, references to blank cells and un-translated cells under an '
        'entry point have no clause and are skipped')


def build(tier, seed):
    rng = random.Random(seed)
    scns = []
    scns += scn_occupancy(rng, 3, 3)
    if tier == 'thorough':
        scns += scn_occupancy(rng, 4, 3)
    scns += scn_value_x_position()
    scns += scn_far(tier)
    scns += scn_many_sheets(rng, tier)
    scns += scn_titles()
    scns += scn_equal_types(tier)
    scns += scn_references(rng, tier)
    scns += scn_array(rng, tier)
    scns += scn_styled(rng, tier)
    scns += scn_reuse(rng, tier)
    scns += scn_overrides(rng, tier)
    scns += scn_random(rng, tier)
    return scns


CTXS = ('same_parser.', 'same_executor.', 'override.', 'after_override.')


def _implied(key, fired):
    """True if `key` is a consequence of a more basic key that fired too (the same defect seen through a reference, an array
    formula, get_sheet, or in a multi-workbook / override context)"""
    rest = key[len('C18.'):]
    ctx = next((c for c in CTXS if rest.startswith(c)), '')
    plain = rest[len(ctx):]
    cands = ['C18.' + plain] if ctx else []
    b = _base(plain)
    if b != 'C18.' + plain:
        cands.append(b)
        if ctx:
            cands.append('C18.' + ctx + b[len('C18.'):])
    if any(c in fired for c in cands):
        return True
    if plain == 'get_sheet':
        pre = tuple(p + x for p in {'C18.', 'C18.' + ctx} for x in ('constant.', 'sizes.', 'blank.'))
        return any(k.startswith(pre) for k in fired)
    return False


def _base(rest):
    for p in ('reference.', 'array_formula.'):
        if rest.startswith(p):
            return 'C18.constant.' + rest[len(p):]
    return 'C18.' + rest


def run(tier='quick', seed=0):
    t0 = time.time()
    scns = build(tier, seed)
    ctx = multiprocessing.get_context('fork')
    results = []
    with ctx.Pool(16, initializer=_init_worker) as pool:
        handles = [pool.apply_async(_work, ((i, scn),)) for i, scn in enumerate(scns)]
        deadline = time.time() + (900 if tier != 'thorough' else 3000)
        for i, h in enumerate(handles):
            try:
                results.append(h.get(timeout=max(1.0, deadline - time.time())))
            except multiprocessing.TimeoutError:            # the worker process was killed from outside: never silent
                results.append({'idx': i, 'evals': 1, 'nontrivial': 0, 'skipped': 0, 'samples': [],
                                'fails': [['C18.resource.worker_lost', 'the worker evaluating this scenario disappeared or '
                                           'did not answer before the deadline']]})
        pool.terminate()
    results.sort(key=lambda r: r['idx'])
    agg = {}
    for res in results:
        scn = scns[res['idx']]
        g = agg.setdefault(scn['group'], {'evals': 0, 'nontrivial': 0, 'skipped': 0, 'fails': {}, 'samples': [], 'n': 0})
        g['evals'] += res['evals']
        g['nontrivial'] += res['nontrivial']
        g['skipped'] += res['skipped']
        g['n'] += 1
        if len(g['samples']) < 3:
            g['samples'] += res['samples'][:3 - len(g['samples'])]
        for k, w in res['fails']:
            size = _cells_of(scn) + 100 * (len(scn['books']) - 1)
            if k not in g['fails'] or size < g['fails'][k][0]:
                g['fails'][k] = (size, res['idx'], w)
    # one failure per root cause: a key that only repeats, in a richer context, a key that fires anyway is dropped
    fired = {k for g in agg.values() for k in g['fails']}
    for g in agg.values():
        g['fails'] = {k: v for k, v in g['fails'].items() if not _implied(k, fired)}
    seen = set()
    checks = []
    total = time.time() - t0
    for name in GROUPS:
        if name not in agg:
            continue
        g = agg[name]
        fails = []
        for k, (size, idx, w) in sorted(g['fails'].items(), key=lambda kv: (kv[1][1], kv[0])):
            if k in seen:
                continue
            seen.add(k)
            scn, what = scns[idx], w
            if len(seen) <= 12 and not scn.get('rootkey') and not k.startswith(('C18.resource.', 'C18.monitor_crash.')) \
                    and 'MemoryError' not in k and 'TimeoutError' not in k:
                small, w2 = shrink(scn, k, budget=8.0)
                if w2 is not None:
                    scn, what = small, w2
            fails.append({'key': k, 'what': what, 'replay': {'scenario': scn, 'key': k}})
        bound, exhaustive = GROUPS[name]
        if name == 'equal_across_types' and tier != 'thorough':     # quick: one-per-workbook part on two families only
            exhaustive = False
        checks.append({'name': f'C18.monitor.{name}', 'bound': f'{bound}; {g["n"]} workbook scenarios', 'rule': RULE +
                       f' ({g["skipped"]} skipped here)', 'exhaustive': exhaustive, 'evaluations': g['evals'],
                       'distinct_nontrivial': g['nontrivial'], 'failures': fails[:25], 'samples': g['samples'],
                       'seconds': round(total * g['n'] / max(1, len(scns)), 2)})
    if checks:
        checks[-1]['seconds'] = round(checks[-1]['seconds'] + (time.time() - t0 - total), 2)
    return {'checks': checks}


def replay(payload):
    if not payload or 'scenario' not in payload:
        return {'fails': False, 'text': 'nothing to replay'}
    _init_worker()
    res = _work((0, payload['scenario']))
    for k, w in res['fails']:
        if k == payload.get('key'):
            return {'fails': True, 'text': w}
    return {'fails': False, 'text': f'{res["evals"]} evaluations, key {payload.get("key")} does not fire'
                                    + (f'; other keys: {[k for k, _ in res["fails"]]}' if res['fails'] else '')}
