"""K4 bounded monitor for C03 (entry-point translation is a closed, faithful slice; cycles are rejected).
Runs under /venv/bin/python on the real code.

Contract monitored (executable form of the property statement, nothing taken from the library):

* a workbook is modelled here as {cell -> constant | formula AST}; `Ref` is an independent mini spreadsheet: it knows which
  cells a formula reads (through A1 / $A$1 / Sheet!A1 / 'Sheet'!A1 references, rectangular ranges, whole-column ranges,
  SUMIF criteria cells and sum ranges, VLOOKUP / INDEX tables, untaken IF branches), computes the transitive closure of an
  entry cell and evaluates the integer fragment of Excel (edit-and-recalculate under overrides);
* closure:   the class generated for an entry cell defines a method for every non-blank cell of Ref's closure and never
             refers (self._cell_preprocessor('<name>')) to a name it does not define, unless that name is a blank cell;
* faithful:  for every cell of the slice, before and after Executor.set_cells overrides, entry-point class and whole-file
             class return the same value (same type, same exception class), and both return the value Ref computes
             whenever the formula lies in the fragment Ref understands;
* cycles:    a workbook whose dependency graph (Ref's, static) has a cycle is rejected with E2PyclParserException by the
             whole-file translation and by every entry cell that reaches the cycle; acyclic look-alikes are accepted.
"""
import multiprocessing
import os
import random
import re
import time

from pv import codec
from pv.nat import lib

BL = '__blank__'                       # Ref's blank value
TITLES = ['S', 'T t', 'U2']            # 'T t' must be quoted in references
INTS = [1, 2, 3, 4, 5, 6, 7, 8, 9, 10, 0, -3, 100, 12]
OV_VALUES = [0, 1, 7, -2, 1000]


# ------------------------------------------------------------------------------------------------ model / rendering
def letters(c0):
    n, s = c0 + 1, ''
    while n:
        n, k = divmod(n - 1, 26)
        s = chr(65 + k) + s
    return s


def uid(cell):
    return f'_{cell[0]}_{cell[1]}_{cell[2]}'


def addr(titles, cell):
    return f"'{titles[cell[0]]}'!{letters(cell[1])}{cell[2] + 1}"


def qual(titles, s, quoted):
    if s is None:
        return ''
    t = titles[s]
    if quoted or not t.isalnum():
        return f"'{t}'!"
    return t + '!'


def render(ast, titles):
    k = ast[0]
    if k == 'num':
        return str(ast[1])
    if k == 'str':
        return '"' + ast[1] + '"'
    if k == 'bool':
        return 'TRUE' if ast[1] else 'FALSE'
    if k == 'ref':
        _, s, c, r, ab, q = ast
        return qual(titles, s, q) + (f'${letters(c)}${r + 1}' if ab else f'{letters(c)}{r + 1}')
    if k == 'rng':
        _, s, c1, r1, c2, r2, ab = ast
        d = '$' if ab else ''
        return qual(titles, s, False) + f'{d}{letters(c1)}{d}{r1 + 1}:{d}{letters(c2)}{d}{r2 + 1}'
    if k == 'cols':
        _, s, c1, c2 = ast
        return qual(titles, s, False) + f'{letters(c1)}:{letters(c2)}'
    if k == 'bin':
        op, l, r = ast[1], ast[2], ast[3]
        lt, rt = render(l, titles), render(r, titles)
        if op == '*' and l[0] == 'bin' and l[1] in '+-':
            lt = '(' + lt + ')'
        if op in '*-' and r[0] == 'bin':
            rt = '(' + rt + ')'
        return lt + op + rt
    if k == 'par':
        return '(' + render(ast[1], titles) + ')'
    if k == 'agg':
        return ast[1] + '(' + ';'.join(render(a, titles) for a in ast[2]) + ')'
    if k == 'if':
        _, op, l, r, a, b = ast
        return f'IF({render(l, titles)}{op}{render(r, titles)};{render(a, titles)};{render(b, titles)})'
    if k == 'sumif':
        _, R, crit, R2 = ast
        ct = render(crit[1], titles) if crit[0] == 'eq' else '"' + {'gt': '>', 'lt': '<', 'ge': '>='}[crit[0]] + str(crit[1]) + '"'
        return f'SUMIF({render(R, titles)};{ct}' + (f';{render(R2, titles)})' if R2 else ')')
    if k == 'vlookup':
        return f'VLOOKUP({render(ast[1], titles)};{render(ast[2], titles)};{ast[3]};0)'
    if k == 'index':
        return f'INDEX({render(ast[1], titles)};{ast[2]};{ast[3]})'
    if k == 'column':
        return f'COLUMN({render(ast[1], titles)})'
    if k == 'opq':
        return ast[2].format(*[render(a, titles) for a in ast[3]])
    raise ValueError(ast)


def model_spec(model):
    titles = model['titles']
    sheets = [{'title': t, 'cells': []} for t in titles]
    for s, c, r, kind, pay in model['cells']:
        if kind == 'f':
            v = '=' + render(pay, titles)
        elif kind == 'p':
            v = ''
        else:
            v = pay
        sheets[s]['cells'].append([c + 1, r + 1, v])
    return {'sheets': sheets}


class Unknown(Exception):
    """the formula leaves the fragment for which the property text fixes a value"""


class Ref:
    """Independent mini spreadsheet (dependencies + values of the integer fragment)."""

    def __init__(self, model):
        self.titles = model['titles']
        self.cm = {(s, c, r): (kind, pay) for s, c, r, kind, pay in model['cells']}
        self.nrows = [0] * len(self.titles)
        for (s, c, r) in self.cm:
            self.nrows[s] = max(self.nrows[s], r + 1)

    # ---- geometry
    def rows_of(self, R, host):
        if R[0] == 'rng':
            _, s, c1, r1, c2, r2, _ab = R
            s = host if s is None else s
            return [[(s, c, r) for c in range(c1, c2 + 1)] for r in range(r1, r2 + 1)]
        if R[0] == 'cols':
            _, s, c1, c2 = R
            s = host if s is None else s
            # whole columns reach as far as the sheet does: the stored rows, extended by cells that were set by hand below
            # them (edit-and-recalculate, C04); during the static dependency analysis there are no overrides
            n = max([self.nrows[s]] + [r + 1 for (s2, _c, r) in (getattr(self, '_ov', None) or {}) if s2 == s])
            return [[(s, c, r) for c in range(c1, c2 + 1)] for r in range(n)]
        if R[0] == 'ref':
            return [[self.cell_of(R, host)]]
        raise ValueError(R)

    @staticmethod
    def cell_of(ref, host):
        return (host if ref[1] is None else ref[1], ref[2], ref[3])

    def sumif_ranges(self, ast, host):
        _, R, crit, R2 = ast
        rows = self.rows_of(R, host)
        if not R2:
            return rows, rows
        top = self.rows_of(R2, host)
        if not top or not top[0] or not rows:
            return rows, []
        s2, c0, r0 = top[0][0]
        s1, ca, ra = rows[0][0]
        return rows, [[(s2, c0 + (c - ca), r0 + (r - ra)) for (_s, c, r) in row] for row in rows]

    # ---- static dependencies: cell -> form through which it is read
    def deps(self, ast, host, out):
        k = ast[0]
        if k in ('num', 'str', 'bool'):
            return out
        if k == 'ref':
            out.setdefault(self.cell_of(ast, host), 'xref' if ast[1] not in (None, host) else ('absref' if ast[4] else 'ref'))
        elif k in ('rng', 'cols'):
            for row in self.rows_of(ast, host):
                for c in row:
                    out.setdefault(c, ('x' if ast[1] not in (None, host) else '') + k)
        elif k == 'bin':
            self.deps(ast[2], host, out)
            self.deps(ast[3], host, out)
        elif k == 'par':
            self.deps(ast[1], host, out)
        elif k == 'agg':
            for a in ast[2]:
                self.deps(a, host, out)
        elif k == 'if':
            for a in ast[2:]:
                self.deps(a, host, out)
        elif k == 'sumif':
            rows, rows2 = self.sumif_ranges(ast, host)
            for row in rows:
                for c in row:
                    out.setdefault(c, 'sumif_range')
            for row in rows2:
                for c in row:
                    out.setdefault(c, 'sumif_sumrange')
            if ast[2][0] == 'eq':
                d = {}
                self.deps(ast[2][1], host, d)
                for c in d:
                    out.setdefault(c, 'sumif_criteria_cell')
        elif k == 'vlookup':
            self.deps(ast[1], host, out)
            for row in self.rows_of(ast[2], host):
                for c in row:
                    out.setdefault(c, 'vlookup_table')
        elif k == 'index':
            for row in self.rows_of(ast[1], host):
                for c in row:
                    out.setdefault(c, 'index_table')
        elif k == 'column':
            for row in self.rows_of(ast[1], host):
                for c in row:
                    out.setdefault(c, 'column_arg')
        elif k == 'opq':
            d = {}
            for a in ast[3]:
                self.deps(a, host, d)
            for c in d:
                out.setdefault(c, 'arg_of_' + ast[1])
        else:
            raise ValueError(ast)
        return out

    def cell_deps(self, cell):
        e = self.cm.get(cell)
        if e and e[0] == 'f':
            return self.deps(e[1], cell[0], {})
        return {}

    def closure(self, entry):
        """cell -> form of the first edge that reaches it; the entry itself has form 'entry'."""
        seen = {entry: 'entry'}
        todo = [entry]
        while todo:
            c = todo.pop()
            for d, form in self.cell_deps(c).items():
                if d not in seen:
                    seen[d] = form
                    todo.append(d)
        return seen

    def on_cycle(self):
        """set of cells that reach themselves"""
        graph = {c: list(self.cell_deps(c)) for c, e in self.cm.items() if e[0] == 'f'}
        res = set()
        for c in graph:
            seen, todo = set(), list(graph[c])
            while todo:
                d = todo.pop()
                if d == c:
                    res.add(c)
                    break
                if d in seen:
                    continue
                seen.add(d)
                todo.extend(graph.get(d, ()))
        return res

    # ---- values
    def value(self, cell, ov, memo):
        if cell in ov:
            return ov[cell]
        if cell in memo:
            v = memo[cell]
            if isinstance(v, Unknown):
                raise v
            return v
        e = self.cm.get(cell)
        try:
            if e is None or e[0] == 'p':
                v = BL
            elif e[0] == 'k':
                v = e[1]
            else:
                v = self.ev(e[1], cell[0], ov, memo)
        except Unknown as u:
            memo[cell] = u
            raise
        memo[cell] = v
        return v

    @staticmethod
    def num(v):
        if v == BL if isinstance(v, str) else False:
            return 0
        if isinstance(v, bool):
            raise Unknown('boolean in arithmetic')
        if isinstance(v, int):
            return v
        raise Unknown('text in arithmetic')

    def ev(self, ast, host, ov, memo):
        self._ov = ov
        k = ast[0]
        if k in ('num', 'str', 'bool'):
            return ast[1]
        if k == 'ref':
            return self.value(self.cell_of(ast, host), ov, memo)
        if k == 'par':
            return self.ev(ast[1], host, ov, memo)
        if k == 'bin':
            a, b = self.num(self.ev(ast[2], host, ov, memo)), self.num(self.ev(ast[3], host, ov, memo))
            return a + b if ast[1] == '+' else a - b if ast[1] == '-' else a * b
        if k == 'agg':
            vals = []
            for a in ast[2]:
                if a[0] in ('rng', 'cols'):
                    vals += [self.value(c, ov, memo) for row in self.rows_of(a, host) for c in row]
                else:
                    raise Unknown('scalar argument')
            nums = [v for v in vals if type(v) is int]
            if ast[1] == 'SUM':
                return sum(nums)
            if ast[1] == 'COUNT':
                return len(nums)
            if not nums:
                raise Unknown('MAX/MIN of nothing')
            return max(nums) if ast[1] == 'MAX' else min(nums)
        if k == 'if':
            _, op, l, r, a, b = ast
            x, y = self.ev(l, host, ov, memo), self.ev(r, host, ov, memo)
            if isinstance(x, bool) or isinstance(y, bool):
                raise Unknown('boolean compared')
            x, y = self.num(x), self.num(y)
            cond = {'>': x > y, '<': x < y, '>=': x >= y, '=': x == y}[op]
            return self.ev(a if cond else b, host, ov, memo)
        if k == 'sumif':
            rows, rows2 = self.sumif_ranges(ast, host)
            xs = [self.value(c, ov, memo) for row in rows for c in row]
            ys = [self.value(c, ov, memo) for row in rows2 for c in row]
            crit = ast[2]
            if crit[0] == 'eq':
                cv = self.ev(crit[1], host, ov, memo)
                if type(cv) is not int or cv == 0:
                    raise Unknown('criteria cell is not a non-zero whole number')
                test = lambda x: x == cv
            else:
                kk = crit[1]
                test = {'gt': lambda x: x > kk, 'lt': lambda x: x < kk, 'ge': lambda x: x >= kk}[crit[0]]
            total = 0
            for x, y in zip(xs, ys):
                if x == BL if isinstance(x, str) else False:
                    if crit[0] in ('lt', 'ge'):
                        raise Unknown('blank against < / >= criterion')
                    continue
                if type(x) is not int:
                    raise Unknown('non-number in criteria range')
                if test(x):
                    if y == BL if isinstance(y, str) else False:
                        continue
                    if type(y) is not int:
                        raise Unknown('non-number in sum range')
                    total += y
            return total
        if k == 'vlookup':
            key = self.ev(ast[1], host, ov, memo)
            if type(key) is not int or key == 0:
                raise Unknown('key')
            table = self.rows_of(ast[2], host)
            _ = [self.value(c, ov, memo) for row in table for c in row]      # an unknown cell anywhere in the table: no verdict
            for row in table:
                x = self.value(row[0], ov, memo)
                if x == BL if isinstance(x, str) else False:
                    continue
                if type(x) is not int:
                    raise Unknown('mixed key column')
                if x == key:
                    return self.value(row[ast[3] - 1], ov, memo)
            raise Unknown('key absent')
        if k == 'index':
            rows = self.rows_of(ast[1], host)
            _ = [self.value(c, ov, memo) for row in rows for c in row]       # an unknown cell anywhere in the table: no verdict
            return self.value(rows[ast[2] - 1][ast[3] - 1], ov, memo)
        if k == 'column':
            return self.rows_of(ast[1], host)[0][0][1] + 1
        if k == 'opq':
            raise Unknown('function outside the evaluated fragment: only dependencies are modelled')
        raise ValueError(ast)


def agrees(got, exp, Empty):
    """does the observed value equal the reference value (Excel shows a blank read through a formula as 0)"""
    if isinstance(got, codec.Raised):
        return False
    if isinstance(exp, str) and exp == BL:
        return isinstance(got, Empty) or (type(got) in (int, float) and got == 0)
    if isinstance(exp, bool):
        return got is exp
    if isinstance(exp, int):
        if isinstance(got, Empty):
            return exp == 0
        return type(got) in (int, float) and got == exp
    return type(got) is str and got == exp


def show(v, Empty=None):
    if Empty is not None and isinstance(v, Empty):
        return 'EmptyCell'
    if isinstance(v, str) and v == BL:
        return 'blank'
    return repr(v)


def venc(v, Empty):
    """strict identity of two observed values: same type and value, or same exception class"""
    if isinstance(v, codec.Raised):
        return 'raised:' + v.cls
    return repr(codec.enc(v, is_empty=lambda x: isinstance(x, Empty)))


# ------------------------------------------------------------------------------------------------ checking one DAG model
# a quoted sheet title on a single-cell reference followed, later in the same formula, by a quoted title on a range: the random
# generator avoids this shape (it has its own hand-made witness, family lookalike_quoted_title_pair)
QUOTED_PAIR = re.compile(r"'[^']*'!\$?[A-Z]+\$?\d+(?![\d:]).*'[^']*'!\$?[A-Z]+\$?\d*:")
NAME_RE = re.compile(r"_cell_preprocessor\('([^']*)'\)")
CELL_RE = re.compile(r'_(\d+)_(\d+)_(\d+)$')


def entry_form(titles, cell, style):
    s, c, r = cell
    if style % 2 == 0:
        return (titles[s], letters(c), str(r + 1))
    return (s, c, r)


def check_model(job):
    """job: {'model', 'entries': [[s,c,r]...], 'stages': [{'ov': [[s,c,r,v]...], 'ref': bool}...], 'family', 'reuse', 'id'}"""
    from excel2pycl import Executor, Cell, Parser
    model, family, gid = job['model'], job['family'], job.get('id')
    ref = Ref(model)
    titles = model['titles']
    fails = []
    ev = {'closure': 0, 'faithful': 0, 'reference': 0, 'reuse': 0, 'accept': 0}
    size = len(model['cells'])
    colfam = family == 'column'

    def fail(key, what, entry):
        if family == 'lookalike_quoted_title_pair' and key.startswith('C03.dag.rejected'):
            key = 'C03.dag.quoted_title_spans_two_references'
        rank = size
        if colfam:
            # one root cause (ColumnControlConstructionTokenTranslator writes the cells to the right of the formula); prefer the
            # entry-vs-whole witness
            rank = size - (0.5 if '.entry_vs_whole.' in key else 0)
            key = 'C03.column_range.overwrites_neighbour_cells'
        fails.append({'key': key, 'what': f'[{family} #{gid}, {size} cells] ' + what, 'size': rank,
                      'replay': {'kind': 'model', 'key': key,
                                 'job': dict(job, entries=[list(entry)] if entry is not None else job['entries'], reuse=False)}})

    def kind_of(cell):
        e = ref.cm.get(cell)
        if e is None or e[0] == 'p':
            return 'blank'
        if e[0] == 'k':
            return 'const'
        return 'formula_' + (e[1][1].lower() if e[1][0] in ('agg', 'opq') else e[1][0])

    with lib.scratch() as d:
        path = os.path.join(d, 'wb.xlsx')
        lib.write_workbook(model_spec(model), path)
        wtext = lib.translate(path)
        ev['accept'] += 1
        if isinstance(wtext, codec.Raised):
            fail(f'C03.dag.rejected_whole.{wtext.cls}', f'acyclic workbook: whole-file translation raised {wtext!r}', None)
            return {'ev': ev, 'fails': fails}
        wcls = lib.call_catch(lib.load_class_from_text, wtext)
        if isinstance(wcls, codec.Raised):
            fail('C03.dag.whole_class_does_not_load', f'whole-file class does not load: {wcls!r}', None)
            return {'ev': ev, 'fails': fails}
        entries = [tuple(e) for e in job['entries']]
        slices = {e: ref.closure(e) for e in entries}
        need = sorted(set().union(*[set(s) for s in slices.values()])) if slices else []
        stages = job['stages']

        def run_stages(cls, cells):
            ex = Executor().set_executed_class(class_object=cls)
            out = []
            for st in stages:
                if st['ov']:
                    ex.set_cells([Cell(s, c, r, v) for s, c, r, v in st['ov']])
                row = {}
                for cell in cells:
                    got = lib.call_catch(ex.get_cell, Cell(cell[0], cell[1], cell[2]))
                    row[cell] = got if isinstance(got, codec.Raised) else got.value
                out.append(row)
            return out

        wv = run_stages(wcls, need)
        WEmpty = wcls.EmptyCell
        # reference values per stage (cumulative overrides)
        refv, cum = [], {}
        for st in stages:
            for s, c, r, v in st['ov']:
                cum[(s, c, r)] = v
            memo, row = {}, {}
            if st['ref']:
                for cell in need:
                    try:
                        row[cell] = ref.value(cell, cum, memo)
                    except Unknown:
                        pass
            refv.append(row)
        for i, st in enumerate(stages):
            for cell in need:
                if cell in refv[i]:
                    ev['reference'] += 1
                    if not agrees(wv[i][cell], refv[i][cell], WEmpty):
                        fail(f'C03.faithful.vs_reference.{kind_of(cell)}',
                             f'whole-file translation: {addr(titles, cell)} (={_text_of(ref, cell)}) after overrides '
                             f'{_ovs(titles, stages, i)} -> {show(wv[i][cell], WEmpty)}, statement demands {show(refv[i][cell])}', None)

        reuse_parser = None
        if job.get('reuse'):
            reuse_parser = Parser().set_excel_file_path(path)
        for n, entry in enumerate(entries):
            eform = entry_form(titles, entry, n)
            text = lib.translate(path, eform)
            ev['accept'] += 1
            ename = addr(titles, entry)
            if isinstance(text, codec.Raised):
                fail(f'C03.dag.rejected_entry.{text.cls}', f'acyclic workbook: entry {ename} raised {text!r} '
                     f'(whole-file translation succeeds)', entry)
                continue
            if reuse_parser is not None:
                ev['reuse'] += 1
                t2 = lib.call_catch(reuse_parser.set_entrypoint_cell(Cell(*eform)).get_translation)
                if t2 != text:
                    fail('C03.reuse.parser_reused_differs', f'entry {ename}: a Parser already used for other entry cells of '
                         f'the same file returns a different translation than a fresh Parser '
                         f'({"exception " + repr(t2) if isinstance(t2, codec.Raised) else "text differs"})', entry)
            cls = lib.call_catch(lib.load_class_from_text, text)
            ev['closure'] += 1
            if isinstance(cls, codec.Raised):
                fail('C03.closure.class_does_not_load', f'entry {ename}: generated class does not load: {cls!r}', entry)
                continue
            defined = set(vars(cls))
            sl = slices[entry]
            for cell in sorted(sl):
                e = ref.cm.get(cell)
                if e is not None and e[0] in ('k', 'f') and uid(cell) not in defined:
                    fail(f'C03.closure.missing_cell.{sl[cell]}', f'entry {ename}: the class has no method for {addr(titles, cell)} '
                         f'({kind_of(cell)}) which the entry reads through a {sl[cell]} edge', entry)
            body = text[text.find('\n    def _cell_preprocessor'):]
            for name in sorted(set(NAME_RE.findall(body))):
                if name in defined:
                    continue
                m = CELL_RE.match(name)
                if m:
                    cell = tuple(int(x) for x in m.groups())
                    e = ref.cm.get(cell)
                    if e is None or e[0] == 'p':
                        continue
                    fail('C03.closure.dangling_cell', f'entry {ename}: code refers to {name} ({addr(titles, cell)}, {kind_of(cell)}) '
                         f'but the class does not define it', entry)
                else:
                    fail('C03.closure.dangling_subcell', f'entry {ename}: code refers to sub-cell {name} which the class does not define', entry)
            cells = sorted(sl)
            evs = run_stages(cls, cells)
            Empty = cls.EmptyCell
            for i, st in enumerate(stages):
                for cell in cells:
                    got, w = evs[i][cell], wv[i][cell]
                    ev['faithful'] += 1
                    if venc(got, Empty) != venc(w, WEmpty):
                        fail(f'C03.faithful.entry_vs_whole.{kind_of(cell)}',
                             f'entry {ename}: slice cell {addr(titles, cell)} (={_text_of(ref, cell)}) after overrides '
                             f'{_ovs(titles, stages, i)}: entry-point class -> {show(got, Empty)}, whole-file class -> '
                             f'{show(w, WEmpty)}' + (f', reference {show(refv[i][cell])}' if cell in refv[i] else ''), entry)
                    if cell in refv[i]:
                        ev['reference'] += 1
                        if not agrees(got, refv[i][cell], Empty):
                            fail(f'C03.faithful.vs_reference.{kind_of(cell)}',
                                 f'entry {ename}: {addr(titles, cell)} (={_text_of(ref, cell)}) after overrides '
                                 f'{_ovs(titles, stages, i)} -> {show(got, Empty)}, statement demands {show(refv[i][cell])}', entry)
        if reuse_parser is not None and entries:
            # back to the first entry after all the others
            ev['reuse'] += 1
            eform = entry_form(titles, entries[0], 0)
            t2 = lib.call_catch(reuse_parser.set_entrypoint_cell(Cell(*eform)).get_translation)
            if t2 != lib.translate(path, eform):
                fail('C03.reuse.parser_reused_differs', f'entry {addr(titles, entries[0])} translated again by a re-used Parser differs '
                     f'from a fresh Parser', entries[0])
    return {'ev': ev, 'fails': fails}


def _text_of(ref, cell):
    e = ref.cm.get(cell)
    if e is None:
        return 'blank'
    if e[0] == 'p':
        return "''"
    if e[0] == 'k':
        return repr(e[1])
    return render(e[1], ref.titles)


def _ovs(titles, stages, i):
    cum = {}
    for st in stages[:i + 1]:
        for s, c, r, v in st['ov']:
            cum[(s, c, r)] = v
    return '{' + ', '.join(f'{addr(titles, k)}={v!r}' for k, v in sorted(cum.items())) + '}'


# ------------------------------------------------------------------------------------------------ checking one cyclic model
def check_cycle(job):
    """job: {'model', 'form', 'id'}; the model is cyclic according to Ref."""
    model, form = job['model'], job['form']
    ref = Ref(model)
    titles = model['titles']
    cyc = ref.on_cycle()
    fails, n = [], 0
    size = len(model['cells'])
    if not cyc:
        return {'ev': {'cycle': 0}, 'fails': [{'key': 'C03.monitor_bug.not_cyclic', 'what': 'internal: model is not cyclic',
                                                'size': size, 'replay': None}]}
    text = ', '.join(f'{addr(titles, (s, c, r))}=' + (render(p, titles) if k == 'f' else repr(p))
                     for s, c, r, k, p in model['cells'][:8])

    def judge(res, where, entry):
        if isinstance(res, codec.Raised) and res.isa('E2PyclParserException'):
            return
        kform = 'special' if form.startswith('special_') else form      # hand-made cycles share one key, the smallest one is kept
        if isinstance(res, codec.Raised):
            key, obs = f'C03.cycle.wrong_exception.{kform}.{res.cls}', repr(res)
        else:
            key, obs = f'C03.cycle.accepted.{kform}', 'a translation'
        fails.append({'key': key, 'what': f'[cycle {form} #{job.get("id")}] {text}: {where} -> {obs}, expected E2PyclParserException',
                      'size': size, 'replay': {'kind': 'cycle', 'key': key, 'job': job}})

    with lib.scratch() as d:
        path = os.path.join(d, 'wb.xlsx')
        lib.write_workbook(model_spec(model), path)
        n += 1
        judge(lib.translate(path), 'whole-file translation', None)
        k = 0
        for s, c, r, kind, pay in model['cells']:
            cell = (s, c, r)
            if kind != 'f':
                continue
            if not (set(ref.closure(cell)) & cyc):
                continue                        # the entry does not reach the cycle: no clause
            n += 1
            k += 1
            judge(lib.translate(path, entry_form(titles, cell, k)), f'entry {addr(titles, cell)}', cell)
    return {'ev': {'cycle': n}, 'fails': fails}


def _work(job):
    try:
        if job['kind'] == 'cycle':
            return check_cycle(job)
        return check_model(job)
    except Exception as e:  # a crash of the monitor itself must be visible, never silent
        import traceback
        return {'ev': {}, 'fails': [{'key': 'C03.monitor_bug.' + type(e).__name__, 'what': traceback.format_exc()[-600:],
                                     'size': 0, 'replay': None}]}


# ------------------------------------------------------------------------------------------------ generators
def R_(s, c, r, ab=False, q=False):
    return ['ref', s, c, r, ab, q]


def plus(terms):
    out = terms[0]
    for t in terms[1:]:
        out = ['bin', '+', out, t]
    return out


def digraph_model(n, adj, form):
    """adj[i] = list of j such that cell i reads cell j.  Forms place the cells and choose the reference syntax."""
    if form == 'bare':
        titles, pos = TITLES[:1], [(0, 0, i) for i in range(n)]
    elif form == 'xsheet':
        titles, pos = TITLES[:2], [(i % 2, 0, i // 2) for i in range(n)]
    elif form == 'range':
        titles, pos = TITLES[:1], [(0, 1, n - 1 - i) for i in range(n)]
    elif form == 'cols':
        titles, pos = TITLES[:2], [(1, i, i % 2) for i in range(n)]
    elif form == 'untaken_if':
        titles, pos = TITLES[:1], [(0, i, 0) for i in range(n)]
    else:
        raise ValueError(form)
    cells = []
    for i in range(n):
        s, c, r = pos[i]
        ds = adj[i]
        if not ds:
            cells.append([s, c, r, 'k', i + 1])
            continue
        if form == 'bare':
            ast = plus([R_(None, pos[j][1], pos[j][2]) for j in ds])
        elif form == 'xsheet':
            ast = plus([R_(pos[j][0], pos[j][1], pos[j][2], False, j % 2 == 0) for j in ds])
        elif form == 'range':
            ast = ['agg', 'SUM', [['rng', None, pos[j][1], pos[j][2], pos[j][1], pos[j][2], j % 2 == 1] for j in ds]]
        elif form == 'cols':
            ast = ['agg', 'SUM', [['cols', None, pos[j][1], pos[j][1]] for j in ds]]
        else:
            ast = ['if', '>', ['num', 1], ['num', 0], ['num', i + 1], plus([R_(None, pos[j][1], pos[j][2], True) for j in ds])]
        cells.append([s, c, r, 'f', ast])
    return {'titles': titles, 'cells': cells}


def is_cyclic(n, adj):
    state = [0] * n

    def dfs(i):
        state[i] = 1
        for j in adj[i]:
            if state[j] == 1 or (state[j] == 0 and dfs(j)):
                return True
        state[i] = 2
        return False
    return any(state[i] == 0 and dfs(i) for i in range(n))


def all_digraphs(n):
    pairs = [(i, j) for i in range(n) for j in range(n)]
    for mask in range(1 << len(pairs)):
        adj = [[] for _ in range(n)]
        for b, (i, j) in enumerate(pairs):
            if mask >> b & 1:
                adj[i].append(j)
        yield adj


def simple_stages(model, picks):
    """override the picked cells with whole numbers: stage 0 nothing, stage 1 first pick, stage 2 all picks / new values"""
    st = [{'ov': [], 'ref': True}]
    if picks:
        st.append({'ov': [[*picks[0], 7]], 'ref': True})
        st.append({'ov': [[*p, 1000 + i] for i, p in enumerate(picks)], 'ref': True})
    return st


def ordered_dags(n):
    """every DAG on nodes 0..n-1 whose edges go from a node to a lower-numbered node"""
    pairs = [(i, j) for i in range(n) for j in range(i)]
    for mask in range(1 << len(pairs)):
        adj = [[] for _ in range(n)]
        for b, (i, j) in enumerate(pairs):
            if mask >> b & 1:
                adj[i].append(j)
        yield adj


def exhaustive_dag_jobs(nmax):
    jobs = []
    forms = ['bare', 'xsheet', 'range', 'cols', 'untaken_if']
    for n in range(1, nmax + 1):
        for adj in ordered_dags(n):
            for form in forms:
                if form == 'untaken_if' and n > 3:
                    continue
                model = digraph_model(n, adj, form)
                cells = [tuple(c[:3]) for c in model['cells']]
                blank = (0, 3, 7)
                picks = [cells[0]] + ([cells[1]] if n > 2 else [])
                jobs.append({'kind': 'model', 'family': 'small_dag_' + form, 'model': model, 'entries': [list(c) for c in cells] + [list(blank)],
                             'stages': simple_stages(model, picks), 'reuse': n == 3})
    return jobs


def digraph_jobs(nmax_full, forms_full, sample_n, sample_count, rng):
    """every digraph (self loops included) on <= nmax_full cells, plus a sample of larger ones."""
    jobs = []
    allforms = ['bare', 'xsheet', 'range', 'cols', 'untaken_if']

    def add(n, adj, form):
        model = digraph_model(n, adj, form)
        if is_cyclic(n, adj):
            jobs.append({'kind': 'cycle', 'model': model, 'form': form})
        else:
            cells = [tuple(c[:3]) for c in model['cells']]
            jobs.append({'kind': 'model', 'family': 'digraph_' + form, 'model': model, 'entries': [list(c) for c in cells],
                         'stages': simple_stages(model, cells[:1]), 'reuse': False})
    for n in range(1, nmax_full + 1):
        for adj in all_digraphs(n):
            for form in allforms:
                if n == nmax_full and n > 2 and form not in forms_full:
                    continue
                add(n, adj, form)
    for _ in range(sample_count):
        n = sample_n
        adj = [[j for j in range(n) if rng.random() < 0.28] for i in range(n)]
        add(n, adj, rng.choice(allforms))
    # rings and rings with tails of every length up to 6, every form (the plain =B2 / =Sheet2!A1 chains)
    for n in range(1, 7):
        for tail in range(0, 3):
            adj = [[(i + 1) % n] for i in range(n)] + [[n + t - 1 if t else 0] for t in range(tail)]
            for form in allforms:
                add(n + tail, adj, form)
    return jobs


def special_cycle_jobs():
    S = TITLES[:2]
    rng_ = lambda c1, r1, c2, r2, s=None: ['rng', s, c1, r1, c2, r2, False]
    specs = [
        ('self_bare', [[0, 0, 0, 'f', R_(None, 0, 0)]]),
        ('self_absolute', [[0, 0, 0, 'f', R_(None, 0, 0, True)]]),
        ('self_qualified', [[1, 0, 0, 'f', R_(1, 0, 0, False, True)]]),
        ('self_plus_one', [[0, 0, 0, 'f', ['bin', '+', R_(None, 0, 0), ['num', 1]]]]),
        ('self_in_range', [[0, 0, 0, 'k', 1], [0, 0, 1, 'f', ['agg', 'SUM', [rng_(0, 0, 0, 2)]]], [0, 0, 2, 'k', 3]]),
        ('self_in_matrix', [[0, 0, 0, 'k', 1], [0, 1, 1, 'f', ['agg', 'MAX', [rng_(0, 0, 1, 1)]]]]),
        ('self_in_whole_column', [[0, 0, 0, 'k', 1], [0, 0, 4, 'f', ['agg', 'SUM', [['cols', None, 0, 0]]]]]),
        ('self_in_whole_columns', [[0, 0, 0, 'k', 1], [0, 1, 1, 'f', ['agg', 'SUM', [['cols', None, 0, 1]]]]]),
        ('self_in_whole_column_zero_false', [[0, 0, 0, 'k', 0], [0, 0, 1, 'k', False], [0, 0, 2, 'p', ''],
                                             [0, 0, 3, 'f', ['agg', 'COUNT', [['cols', None, 0, 0]]]]]),
        ('sumif_sum_range', [[0, 1, 0, 'k', 1], [0, 1, 1, 'k', 2], [0, 0, 1, 'f', ['sumif', rng_(1, 0, 1, 2), ['gt', 0], rng_(0, 0, 0, 2)]]]),
        ('sumif_criteria_range', [[0, 1, 0, 'k', 1], [0, 0, 0, 'f', ['sumif', rng_(0, 0, 0, 2), ['gt', 0], rng_(1, 0, 1, 2)]]]),
        ('sumif_criteria_cell', [[0, 1, 0, 'k', 1], [0, 3, 0, 'k', 2], [0, 2, 0, 'f', ['sumif', rng_(1, 0, 1, 2), ['eq', R_(None, 2, 0)], rng_(3, 0, 3, 2)]]]),
        ('sumif_criteria_cell_two_step', [[0, 1, 0, 'k', 1], [0, 3, 0, 'k', 2], [0, 2, 0, 'f', ['sumif', rng_(1, 0, 1, 2), ['eq', R_(None, 4, 4)], rng_(3, 0, 3, 2)]],
                                          [0, 4, 4, 'f', R_(None, 2, 0)]]),
        ('vlookup_table', [[0, 0, 0, 'k', 1], [0, 1, 1, 'f', ['vlookup', ['num', 1], rng_(0, 0, 1, 2), 2]]]),
        ('index_table', [[0, 0, 0, 'k', 1], [0, 1, 2, 'f', ['index', rng_(0, 0, 1, 2), 1, 1]]]),
        ('untaken_if_branch', [[0, 0, 0, 'f', ['if', '>', ['num', 1], ['num', 0], ['num', 1], R_(None, 0, 0)]]]),
        ('if_condition', [[0, 0, 0, 'f', ['if', '>', R_(None, 1, 0), ['num', 0], ['num', 1], ['num', 2]]], [0, 1, 0, 'f', R_(None, 0, 0)]]),
        ('two_sheets', [[0, 0, 0, 'f', R_(1, 0, 0)], [1, 0, 0, 'f', R_(0, 0, 0)]]),
        ('two_sheets_via_range', [[0, 0, 0, 'f', ['agg', 'SUM', [rng_(0, 0, 0, 1, 1)]]], [1, 0, 1, 'f', ['bin', '*', R_(0, 0, 0), ['num', 2]]]]),
        ('three_sheets', [[0, 0, 0, 'f', R_(1, 0, 0)], [1, 0, 0, 'f', R_(2, 0, 0)], [2, 0, 0, 'f', R_(0, 0, 0)]]),
        ('cycle_behind_shared_cell', [[0, 0, 0, 'f', ['bin', '+', R_(None, 1, 0), R_(None, 1, 0)]], [0, 1, 0, 'f', R_(None, 2, 0)],
                                      [0, 2, 0, 'f', ['bin', '+', R_(None, 1, 0), ['num', 1]]], [0, 3, 0, 'f', R_(None, 0, 0)]]),
        ('far_row', [[0, 0, 120, 'f', R_(None, 1, 1)], [0, 1, 1, 'f', ['agg', 'SUM', [rng_(0, 119, 0, 121)]]]]),
        ('far_column', [[0, 702, 0, 'f', R_(None, 0, 0)], [0, 0, 0, 'f', R_(None, 702, 0)]]),
    ]
    ring = [[0, 0, i, 'f', R_(None, 0, (i + 1) % 40)] for i in range(40)]
    specs.append(('ring_of_40', ring))
    jobs = []
    for name, cells in specs:
        nsheets = max(c[0] for c in cells) + 1
        jobs.append({'kind': 'cycle', 'model': {'titles': TITLES[:max(nsheets, 1)], 'cells': cells}, 'form': 'special_' + name})
    return jobs


def lookalike_jobs():
    """acyclic workbooks that a careless cycle detector or slice builder gets wrong"""
    rng_ = lambda c1, r1, c2, r2, s=None: ['rng', s, c1, r1, c2, r2, False]
    out = []

    def add(name, titles, cells, entries=None, picks=None, stages=None):
        model = {'titles': titles, 'cells': cells}
        ents = entries or [c[:3] for c in cells]
        out.append({'kind': 'model', 'family': 'lookalike_' + name, 'model': model, 'entries': [list(e) for e in ents],
                    'stages': stages or simple_stages(model, [tuple(p) for p in (picks or [])]), 'reuse': True})
    T2 = TITLES[:2]
    add('same_address_two_sheets', T2, [[0, 0, 0, 'f', R_(1, 0, 0)], [1, 0, 0, 'f', R_(None, 1, 0)], [1, 1, 0, 'k', 3], [0, 1, 0, 'k', 9]],
        picks=[(1, 1, 0), (0, 1, 0)])
    add('same_formula_text_two_sheets', T2, [[0, 0, 0, 'f', R_(None, 1, 0)], [0, 1, 0, 'k', 5], [1, 0, 0, 'f', R_(None, 1, 0)],
                                             [1, 1, 0, 'f', R_(0, 0, 0)]], picks=[(0, 1, 0), (1, 1, 0)])
    add('same_sum_text_two_sheets', T2, [[0, 0, 0, 'k', 1], [0, 0, 1, 'k', 2], [0, 1, 0, 'f', ['agg', 'SUM', [rng_(0, 0, 0, 1)]]],
                                         [1, 0, 0, 'k', 10], [1, 0, 1, 'f', R_(0, 1, 0)], [1, 1, 0, 'f', ['agg', 'SUM', [rng_(0, 0, 0, 1)]]],
                                         [0, 2, 0, 'f', ['bin', '+', R_(None, 1, 0), R_(1, 1, 0)]]], picks=[(0, 0, 0), (1, 0, 0)])
    add('own_address_in_text', TITLES[:1], [[0, 0, 0, 'f', ['if', '>', R_(None, 0, 1), ['num', 0], ['str', 'A1'], ['str', 'x']]], [0, 0, 1, 'k', 2]],
        picks=[(0, 0, 1)])
    add('diamond', TITLES[:1], [[0, 0, 0, 'k', 2], [0, 1, 0, 'f', R_(None, 0, 0)], [0, 2, 0, 'f', ['bin', '*', R_(None, 0, 0), ['num', 3]]],
                                [0, 3, 0, 'f', ['bin', '+', R_(None, 1, 0), R_(None, 2, 0)]],
                                [0, 4, 0, 'f', plus([R_(None, 3, 0), R_(None, 3, 0, True), R_(0, 3, 0)])]], picks=[(0, 0, 0), (0, 2, 0)])
    add('range_next_to_own_cell', TITLES[:1], [[0, 0, 0, 'k', 1], [0, 0, 1, 'k', 2], [0, 0, 2, 'f', ['agg', 'SUM', [rng_(0, 0, 0, 1)]]],
                                               [0, 1, 0, 'f', ['agg', 'SUM', [['cols', None, 0, 0]]]],
                                               [0, 2, 0, 'f', ['bin', '+', ['agg', 'SUM', [rng_(0, 0, 0, 2)]], R_(None, 0, 1)]]], picks=[(0, 0, 1), (0, 0, 2)])
    add('whole_column_zero_false_empty', T2, [[0, 0, 0, 'k', 0], [0, 0, 1, 'k', False], [0, 0, 2, 'p', ''], [0, 0, 3, 'k', 4], [0, 0, 5, 'p', ''],
                                              [0, 1, 0, 'f', ['agg', 'SUM', [['cols', None, 0, 0]]]], [0, 1, 1, 'f', ['agg', 'COUNT', [['cols', None, 0, 0]]]],
                                              [0, 1, 2, 'f', R_(None, 0, 1)], [0, 1, 3, 'f', R_(None, 0, 0)], [0, 1, 4, 'f', R_(None, 0, 2)],
                                              [1, 0, 0, 'f', ['bin', '+', ['agg', 'SUM', [['cols', 0, 0, 1]]], ['agg', 'COUNT', [['cols', 0, 0, 0]]]]],
                                              [1, 1, 0, 'f', ['bin', '+', R_(0, 1, 0), R_(0, 1, 1)]]],
        stages=[{'ov': [], 'ref': True}, {'ov': [[0, 0, 2, 5]], 'ref': True}, {'ov': [[0, 0, 0, 3], [0, 0, 4, 2]], 'ref': True}])
    add('quoted_title_pair', T2, [[0, 0, 0, 'k', 1], [1, 0, 0, 'k', 3], [1, 0, 1, 'k', 4],
                                  [0, 1, 0, 'f', ['bin', '+', R_(0, 0, 0, False, True), ['agg', 'SUM', [['rng', 1, 0, 0, 0, 1, False]]]]]],
        picks=[(0, 0, 0)])
    # running total: B(i) = B(i-1) + A(i)
    for depth in (150, 250):
        cells = [[0, 0, i, 'k', i % 7] for i in range(depth)] + [[0, 1, 0, 'f', R_(None, 0, 0)]] + \
                [[0, 1, i, 'f', ['bin', '+', R_(None, 1, i - 1), R_(None, 0, i)]] for i in range(1, depth)]
        add(f'running_total_{depth}', TITLES[:1], cells, entries=[(0, 1, depth - 1), (0, 1, 1), (0, 1, depth // 2)], picks=[(0, 0, 0), (0, 1, 3)])
    # more than 1000 rows below a whole-column reference, rows > 100
    add('column_of_1001_rows', T2, [[0, 0, 0, 'k', 1], [0, 0, 1, 'k', 2], [0, 0, 100, 'k', 3], [0, 0, 1000, 'k', 5],
                                    [0, 1, 0, 'f', ['agg', 'SUM', [['cols', None, 0, 0]]]], [0, 1, 1, 'f', R_(None, 0, 1000)],
                                    [0, 2, 0, 'f', ['bin', '+', R_(None, 1, 0), R_(None, 1, 1)]],
                                    [1, 0, 0, 'f', ['bin', '+', ['agg', 'SUM', [rng_(0, 99, 0, 101, 0)]], R_(0, 2, 0)]]],
        entries=[(0, 1, 0), (0, 1, 1), (0, 2, 0), (1, 0, 0)], picks=[(0, 0, 1000), (0, 0, 500)])
    # columns Z / AA / ZZ / AAA / XFD
    add('far_columns', TITLES[:1], [[0, 25, 0, 'k', 1], [0, 26, 0, 'k', 2], [0, 701, 0, 'k', 3], [0, 702, 0, 'k', 4], [0, 16383, 1, 'k', 6],
                                    [0, 0, 0, 'f', ['bin', '+', R_(None, 702, 0), R_(None, 16383, 1)]],
                                    [0, 0, 1, 'f', ['agg', 'SUM', [rng_(701, 0, 703, 0)]]], [0, 0, 2, 'f', ['agg', 'SUM', [rng_(25, 0, 26, 0)]]],
                                    [0, 1, 2, 'f', plus([R_(None, 0, 0), R_(None, 0, 1), R_(None, 0, 2)])]],
        entries=[(0, 0, 0), (0, 0, 1), (0, 0, 2), (0, 1, 2), (0, 702, 0)], picks=[(0, 702, 0), (0, 26, 0)])
    # entry at a constant, at a blank cell inside and outside the used range
    add('entry_at_constant_or_blank', T2, [[0, 0, 0, 'k', 0], [0, 1, 0, 'k', False], [0, 2, 0, 'k', 'x'], [1, 1, 1, 'f', R_(0, 0, 0)]],
        entries=[(0, 0, 0), (0, 1, 0), (0, 2, 0), (0, 1, 1), (1, 0, 0), (1, 5, 5), (1, 1, 1)], picks=[(0, 0, 0)])
    return out


def column_jobs():
    rng_ = lambda c1, r1, c2, r2, s=None: ['rng', s, c1, r1, c2, r2, False]
    out = []

    def add(name, cells, picks=()):
        model = {'titles': TITLES[:1], 'cells': cells}
        out.append({'kind': 'model', 'family': 'column', 'model': model, 'entries': [c[:3] for c in cells],
                    'stages': simple_stages(model, [tuple(p) for p in picks]), 'reuse': False, 'name': name})
    add('neighbour_constant', [[0, 1, 0, 'f', ['column', rng_(0, 1, 1, 1)]], [0, 2, 0, 'k', 5], [0, 3, 0, 'f', ['bin', '+', R_(None, 2, 0), ['num', 1]]]])
    add('neighbour_formula', [[0, 0, 0, 'k', 4], [0, 1, 0, 'f', ['column', rng_(0, 1, 2, 1)]], [0, 2, 0, 'f', ['bin', '*', R_(None, 0, 0), ['num', 2]]],
                              [0, 3, 0, 'f', ['bin', '+', R_(None, 1, 0), R_(None, 2, 0)]]])
    add('single_column_range', [[0, 1, 0, 'f', ['column', rng_(2, 0, 2, 3)]], [0, 2, 0, 'k', 5], [0, 3, 0, 'f', ['bin', '+', R_(None, 2, 0), R_(None, 1, 0)]]])
    add('column_of_first_column', [[0, 2, 2, 'f', ['column', rng_(0, 0, 1, 0)]], [0, 0, 2, 'k', 8], [0, 1, 2, 'k', 9],
                                   [0, 3, 2, 'f', plus([R_(None, 0, 2), R_(None, 1, 2), R_(None, 2, 2)])]])
    return out


# functions whose value the reference does not model: only their dependencies (closure) and entry-vs-whole equality are checked.
# argument kinds: c = single cell, R = rectangle, R= = rectangle of the shape of argument 0, V = vector
OPAQUE = [
    ('countifs', 'COUNTIFS({0};">1")', ['R']), ('countifs', 'COUNTIFS({0};{1})', ['R', 'c']),
    ('countifs', 'COUNTIFS({0};">1";{1};"<9")', ['R', 'R=']), ('sumifs', 'SUMIFS({0};{1};">0")', ['R', 'R=']),
    ('sumifs', 'SUMIFS({0};{1};{2})', ['R', 'R=', 'c']), ('averageifs', 'AVERAGEIFS({0};{1};">0")', ['R', 'R=']),
    ('match', 'MATCH({1};{0};0)', ['V', 'c']), ('match', 'MATCH({1};{0};1)', ['V', 'c']), ('xmatch', 'XMATCH({1};{0})', ['V', 'c']),
    ('average', 'AVERAGE({0})', ['R']), ('countblank', 'COUNTBLANK({0})', ['R']), ('min', 'MIN({0};{1})', ['R', 'c']),
    ('sum', 'SUM({0};{1})', ['R', 'c']), ('iferror', 'IFERROR({0}/{1};0)', ['c', 'c']), ('and', 'AND({0}>0;{1}>0)', ['c', 'c']),
    ('or', 'OR({0}>5;{1}>0)', ['c', 'c']), ('concatenate', 'CONCATENATE({0};{1})', ['c', 'c']), ('ampersand', '{0}&{1}', ['c', 'c']),
    ('round', 'ROUND({0}/3;1)', ['c']), ('ifs', 'IFS({0}>1;{1};TRUE;{2})', ['c', 'c', 'c']),
    ('index_match', 'INDEX({0};MATCH({1};{2};0);1)', ['R', 'c', 'V']), ('index_areas', 'INDEX(({0};{1});1;1;2)', ['R', 'R']),
    ('count', 'COUNT({0};{1})', ['R', 'R']),
]


class Gen:
    """random DAG workbooks: 2..8 formula cells on a 4 x 6 grid of up to three sheets, all reference forms"""
    W, H = 4, 6

    def __init__(self, rng, column=False):
        self.rng, self.column = rng, column

    def model(self):
        rng = self.rng
        ns = rng.choice([1, 2, 2, 2, 2, 3])
        self.ns = ns
        titles = TITLES[:ns]
        cm = {}
        grid = [(s, c, r) for s in range(ns) for c in range(self.W) for r in range(self.H)]
        for p in grid:
            if rng.random() < 0.45:
                cm[p] = ('k', rng.choice(INTS))
        for _ in range(rng.choice([0, 0, 1, 2, 3])):
            p = rng.choice(grid)
            v = rng.choice([False, True, 'x', 0, 0, ''])
            cm[p] = ('p', '') if v == '' and not isinstance(v, bool) else ('k', v)
        if rng.random() < 0.2:
            cm[(0, 1, 119)] = ('k', 7)
        if rng.random() < 0.1:
            cm[(ns - 1, 27, 1)] = ('k', 4)
        k = rng.randint(2, 8)
        positions = rng.sample(grid, k)
        if rng.random() < 0.2:
            positions[rng.randrange(k)] = (0, 2, 100 + rng.randint(0, 4))
        if rng.random() < 0.1:
            positions[rng.randrange(k)] = (ns - 1, 26, rng.randint(0, 2))
        positions = list(dict.fromkeys(positions))
        for p in positions:
            cm[p] = ('f', ['num', 1])
        self.extra = [p for p in cm if p not in grid]
        self.grid = grid
        model = {'titles': titles, 'cells': None}
        ref = Ref({'titles': titles, 'cells': [[*p, *e] for p, e in cm.items()]})
        self.ref = ref
        asts = []
        for i, pos in enumerate(positions):
            later = set(positions[i:])
            best = None
            for attempt in range(25):
                ast = self.formula(pos, positions[:i], later, asts)
                if ast is None or QUOTED_PAIR.search(render(ast, titles)):
                    continue
                try:
                    if set(ref.deps(ast, pos[0], {})) & later:
                        continue
                except IndexError:
                    continue
                ref.cm[pos] = ('f', ast)
                try:
                    ref.value(pos, {}, {})
                    best = ast
                    break
                except Unknown:
                    if ast[0] == 'opq':
                        best = ast
                        break
                    best = best or ast
                except IndexError:
                    continue
            if best is None:
                best = ['bin', '+', ['num', i], ['num', 1]]
            ref.cm[pos] = ('f', best)
            asts.append(best)
        model['cells'] = [[*p, e[0], e[1]] for p, e in sorted(ref.cm.items())]
        self.positions = positions
        return model

    # -- pieces
    def ref_to(self, host, cell):
        rng = self.rng
        s = None if (cell[0] == host[0] and rng.random() < 0.7) else cell[0]
        return R_(s, cell[1], cell[2], rng.random() < 0.25, rng.random() < 0.3)

    def pick_cell(self, host, earlier, later):
        rng = self.rng
        for _ in range(20):
            x = rng.random()
            if earlier and x < 0.55:
                c = rng.choice(earlier)
            elif x < 0.9 or not self.extra:
                c = rng.choice(self.grid)
            elif x < 0.95:
                c = rng.choice(self.extra)
            else:
                c = (host[0], rng.randrange(self.W), self.H + rng.randint(0, 3))
            if c not in later:
                return c
        return None

    def pick_ref(self, host, earlier, later):
        c = self.pick_cell(host, earlier, later)
        return None if c is None else self.ref_to(host, c)

    def pick_range(self, host, later, shape=None, allow_cols=True):
        rng = self.rng
        for _ in range(15):
            s = host[0] if rng.random() < 0.6 else rng.randrange(self.ns)
            sq = None if (s == host[0] and rng.random() < 0.7) else s
            if allow_cols and shape is None and rng.random() < 0.15:
                c1 = rng.randrange(self.W)
                c2 = c1 if rng.random() < 0.7 else min(c1 + 1, self.W - 1)
                R = ['cols', sq, c1, c2]
            else:
                if shape:
                    h, w = shape
                else:
                    o = rng.random()
                    h, w = (rng.randint(2, 4), 1) if o < 0.45 else (1, rng.randint(2, 3)) if o < 0.7 else (rng.randint(2, 3), rng.randint(2, 3))
                c1 = rng.randrange(0, self.W - w + 1)
                r1 = rng.randrange(0, self.H - h + 2)
                R = ['rng', sq, c1, r1, c1 + w - 1, r1 + h - 1, rng.random() < 0.2]
            cells = {c for row in self.ref.rows_of(R, host[0]) for c in row}
            if not (cells & later):
                return R
        return None

    def operand(self, host, earlier, later):
        if self.rng.random() < 0.2:
            return ['num', self.rng.choice([0, 1, 2, 3, 10])]
        return self.pick_ref(host, earlier, later)

    def formula(self, host, earlier, later, asts):
        rng = self.rng
        x = rng.random()
        if self.column and x < 0.3:
            R = self.pick_range(host, later, allow_cols=False)
            return None if R is None else ['column', R]
        if rng.random() < 0.14:
            name, tpl, kinds = rng.choice(OPAQUE)
            args = []
            for kd in kinds:
                if kd == 'c':
                    a = self.pick_ref(host, earlier, later)
                elif kd == 'R':
                    a = self.pick_range(host, later, allow_cols=False)
                elif kd == 'V':
                    a = self.pick_range(host, later, shape=(rng.randint(2, 4), 1) if rng.random() < 0.6 else (1, rng.randint(2, 3)))
                else:
                    a = self.pick_range(host, later, shape=(args[0][5] - args[0][3] + 1, args[0][4] - args[0][2] + 1))
                if a is None:
                    return None
                args.append(a)
            return ['opq', name, tpl, args]
        x = rng.random()
        if x < 0.14:
            return self.pick_ref(host, earlier, later)
        if x < 0.36:
            ops = [self.operand(host, earlier, later) for _ in range(rng.choice([2, 2, 3]))]
            if any(o is None for o in ops):
                return None
            out = ops[0]
            for o in ops[1:]:
                out = ['bin', rng.choice(['+', '+', '-', '*']), out, o]
            return out
        if x < 0.62:
            name = rng.choice(['SUM', 'SUM', 'SUM', 'MAX', 'MIN', 'COUNT'])
            rs = [self.pick_range(host, later) for _ in range(rng.choice([1, 1, 2]))]
            if any(r is None for r in rs):
                return None
            if len(rs) == 2 and rng.random() < 0.3:
                rs[1] = rs[0]
            ast = ['agg', name, rs]
            y = rng.random()
            if y < 0.3:
                o = self.operand(host, earlier, later)
                return None if o is None else ['bin', rng.choice(['+', '-']), ast, o]
            if y < 0.4:
                return ['bin', '+', ast, ast]                 # the same sub-expression twice
            return ast
        if x < 0.72:
            l = self.pick_ref(host, earlier, later)
            a, b = self.operand(host, earlier, later), self.operand(host, earlier, later)
            if None in (l, a, b):
                return None
            return ['if', rng.choice(['>', '<', '>=', '=']), l, ['num', rng.choice([0, 1, 3, 5])], a, b]
        if x < 0.82:
            R = self.pick_range(host, later)
            if R is None:
                return None
            if R[0] == 'cols':
                R2 = self.pick_range(host, later)
                if R2 is None or R2[0] != 'cols' or (R2[3] - R2[2]) != (R[3] - R[2]):
                    R2 = None
                    if rng.random() < 0.5:
                        return None
            else:
                R2 = self.pick_range(host, later, shape=(R[5] - R[3] + 1, R[4] - R[2] + 1)) if rng.random() < 0.8 else None
            if rng.random() < 0.35:
                cr = self.pick_ref(host, earlier, later)
                if cr is None:
                    return None
                crit = ['eq', cr]
            else:
                crit = [rng.choice(['gt', 'gt', 'lt', 'ge']), rng.choice([0, 1, 2, 4])]
            return ['sumif', R, crit, R2]
        if x < 0.88:
            R = self.pick_range(host, later, shape=(rng.randint(2, 4), rng.randint(2, 3)))
            if R is None:
                return None
            firsts = []
            for row in self.ref.rows_of(R, host[0]):
                try:
                    v = self.ref.value(row[0], {}, {})
                except Unknown:
                    v = None
                if type(v) is int and v > 0:
                    firsts.append((v, row[0]))
            if firsts and rng.random() < 0.85:
                key = ['num', rng.choice(firsts)[0]]
            else:
                key = ['num', 1]
            return ['vlookup', key, R, rng.randint(1, R[4] - R[2] + 1)]
        if x < 0.94:
            R = self.pick_range(host, later, shape=(rng.randint(1, 3), rng.randint(1, 3)))
            if R is None:
                return None
            return ['index', R, rng.randint(1, R[5] - R[3] + 1), rng.randint(1, R[4] - R[2] + 1)]
        if asts:
            return rng.choice(asts)                           # the same formula text in another cell / on another sheet
        return None

    def job(self, gid):
        rng = self.rng
        model = self.model()
        ref = Ref(model)
        forms = self.positions
        consts = [p for p, e in ref.cm.items() if e[0] == 'k' and type(e[1]) is int]
        blanks = [p for p in self.grid if p not in ref.cm]
        entries = list(forms)
        if consts:
            entries.append(rng.choice(consts))
        if blanks:
            entries.append(rng.choice(blanks))
        read = set()
        for f in forms:
            read |= set(ref.cell_deps(f))
        cand = sorted(c for c in read if (c not in ref.cm) or ref.cm[c][0] == 'p' or (ref.cm[c][0] == 'k' and type(ref.cm[c][1]) is int))
        fcand = [f for f in forms if f in read]
        st = [{'ov': [], 'ref': True}]
        ov1 = [[*c, rng.choice(OV_VALUES)] for c in rng.sample(cand, min(len(cand), rng.randint(1, 3)))]
        if fcand and rng.random() < 0.6:
            ov1.append([*rng.choice(fcand), rng.choice(OV_VALUES)])
        st.append({'ov': ov1, 'ref': True})
        ov2 = []
        if ov1:
            c = rng.choice(ov1)
            ov2.append([c[0], c[1], c[2], c[3] + 11])
        if cand:
            ov2.append([*rng.choice(cand), rng.choice(OV_VALUES)])
        st.append({'ov': ov2, 'ref': True})
        s = rng.randrange(len(model['titles']))
        st.append({'ov': [[s, rng.randrange(self.W), ref.nrows[s] + rng.randint(0, 2), 5]], 'ref': False})
        return {'kind': 'model', 'family': 'column' if self.column else 'random_dag', 'model': model, 'entries': [list(e) for e in entries],
                'stages': st, 'reuse': gid % 4 == 0, 'id': gid}


# ------------------------------------------------------------------------------------------------ driver
def _run_jobs(jobs, procs=16):
    for i, j in enumerate(jobs):
        j.setdefault('id', i)
    if len(jobs) < 8:
        return [_work(j) for j in jobs]
    ctx = multiprocessing.get_context('fork')
    with ctx.Pool(procs) as pool:
        return pool.map(_work, jobs, chunksize=max(1, min(16, len(jobs) // (procs * 4))))


def _collect(results, counters):
    best = {}
    ev = {}
    for r in results:
        for k, v in r['ev'].items():
            ev[k] = ev.get(k, 0) + v
        for f in r['fails']:
            b = best.get(f['key'])
            if b is None or f['size'] < b['size']:
                best[f['key']] = f
    return ev, best


def _pick(best, prefixes):
    out = []
    for k in sorted(best):
        if any(k.startswith(p) for p in prefixes):
            f = best[k]
            out.append({'key': f['key'], 'what': f['what'][:600], 'replay': f['replay']})
    return out[:25]


def run(tier='quick', seed=0):
    thorough = tier == 'thorough'
    rng = random.Random(seed)
    checks = []
    T0 = time.time()

    # ---- 1. DAGs: exhaustive small scope, hand-made boundary workbooks, random graphs
    t0 = time.time()
    jobs = exhaustive_dag_jobs(5 if thorough else 4)
    n_small = len(jobs)
    look = lookalike_jobs()
    jobs += look
    n_rand = 4000 if thorough else 220
    g = Gen(rng)
    jobs += [g.job(i) for i in range(n_rand)]
    dag_res = _run_jobs(jobs)
    dag_ev, dag_best = _collect(dag_res, None)
    dag_secs = time.time() - t0
    sample_model = jobs[n_small + len(look)]
    sample = {'titles': sample_model['model']['titles'],
              'formulas': {addr(sample_model['model']['titles'], tuple(c[:3])): '=' + render(c[4], sample_model['model']['titles'])
                           for c in sample_model['model']['cells'] if c[3] == 'f'}}

    # ---- 2. cycles
    t0 = time.time()
    if thorough:
        cyc_jobs = digraph_jobs(3, ['bare', 'xsheet', 'range', 'cols', 'untaken_if'], 4, 2000, rng)
    else:
        cyc_jobs = digraph_jobs(3, ['bare', 'xsheet'], 3, 120, rng)
    cyc_jobs += special_cycle_jobs()
    cyc_res = _run_jobs(cyc_jobs)
    cyc_ev, cyc_best = _collect(cyc_res, None)
    n_cyclic = sum(1 for j in cyc_jobs if j['kind'] == 'cycle')
    cyc_secs = time.time() - t0

    # ---- 3. COLUMN(range)
    t0 = time.time()
    col_jobs = column_jobs()
    gc = Gen(rng, column=True)
    col_jobs += [gc.job(i) for i in range(1000 if thorough else 50)]
    col_res = _run_jobs(col_jobs)
    col_ev, col_best = _collect(col_res, None)
    col_secs = time.time() - t0

    allbest = {}
    for b in (dag_best, cyc_best, col_best):
        for k, f in b.items():
            if k not in allbest or f['size'] < allbest[k]['size']:
                allbest[k] = f
    dag_total = {k: dag_ev.get(k, 0) + cyc_ev.get(k, 0) for k in ('closure', 'faithful', 'reference', 'reuse', 'accept')}
    scope = (f'every DAG on 1..{5 if thorough else 4} cells (edges to lower-numbered cells) x 5 layouts/reference syntaxes (bare A1 in one column; '
             f"same address on two sheets with S!A1 / 'T t'!A1; one-cell ranges $B$1:$B$1 in reverse order; whole-column SUM(A:A) edges; "
             f'untaken IF branch with $A$1) = {n_small} workbooks; every acyclic digraph (any labelling) of the cycle sweep; '
             f'{len(look)} hand-made workbooks (same address / same formula text on two sheets, diamond, whole column over 0 / FALSE / empty-string '
             f'constants, running totals 150 and 250 deep, column of 1001 rows, columns Z/AA/ZZ/AAA/XFD, entry at constant / blank / beyond the used range); '
             f'{n_rand} random workbooks (seed {seed}): 1-3 sheets, 4x6 grid + row 120 / rows 101-105 / columns AA-AB, 2..8 formula cells, formulas from '
             f'bare / absolute / qualified references, + - *, SUM MAX MIN COUNT over vectors, matrices, whole columns and other sheets, IF, SUMIF '
             f'(literal and cell criteria), VLOOKUP, INDEX, repeated sub-expressions and repeated formula texts, and (dependencies + entry-vs-whole only) '
             f'COUNTIFS SUMIFS AVERAGEIFS MATCH XMATCH AVERAGE COUNTBLANK IFERROR AND OR CONCATENATE & ROUND IFS INDEX(MATCH) INDEX((a;b)) COUNT; a quoted '
             f'title on a single reference before a quoted title on a range is left to its hand-made witness; every formula cell + one constant + '
             f'one blank as entry; 4 override stages (constants, blanks inside ranges, formula cells, re-override, a cell below the used range)')
    checks.append({
        'name': 'C03.monitor.closure',
        'bound': scope,
        'rule': 'one evaluation = one (workbook, entry cell): the entry-point translation must succeed, load, define a method for every non-blank '
                'cell of the independently computed dependency closure, and every name it passes to _cell_preprocessor must be defined or be a '
                'blank cell of the workbook',
        'exhaustive': False, 'evaluations': dag_total['closure'], 'distinct_nontrivial': dag_total['closure'],
        'failures': _pick(allbest, ['C03.closure.', 'C03.dag.', 'C03.monitor_bug.']),
        'samples': [sample], 'seconds': dag_secs})
    checks.append({
        'name': 'C03.monitor.faithful',
        'bound': scope,
        'rule': 'one evaluation = one (workbook, entry cell, slice cell, override stage): value from the entry-point class must be identical (type, '
                'value or exception class) to the value from the whole-file class; additionally counted in "reference": the same value compared '
                'with the independent evaluator (skipped when the formula leaves the integer fragment the evaluator defines)',
        'exhaustive': False, 'evaluations': dag_total['faithful'] + dag_total['reference'], 'distinct_nontrivial': dag_total['faithful'],
        'failures': _pick(allbest, ['C03.faithful.']),
        'samples': [{'entry_vs_whole': dag_total['faithful'], 'against_reference': dag_total['reference']}], 'seconds': dag_secs})
    checks.append({
        'name': 'C03.monitor.cycles',
        'bound': f'every digraph with self loops on 1..3 cells ({"5 layouts" if thorough else "2 layouts for 3 cells, 5 for fewer"}: bare =A2 chains, '
                 f"=S!A1 / ='T t'!A1 chains over two sheets with equal addresses, one-cell ranges, whole-column SUM(A:A), untaken IF branch), "
                 f'{2000 if thorough else 120} sampled digraphs on {4 if thorough else 3} cells, rings of 1..6 cells with tails 0..2 in all 5 layouts, '
                 f'{len(special_cycle_jobs())} hand-made cycles (self reference bare / absolute / qualified, own cell inside a range / matrix / whole '
                 f'column(s) incl. 0 / FALSE / empty string, SUMIF sum range / criteria range / criteria cell, VLOOKUP and INDEX tables, IF condition and '
                 f'untaken branch, 2 and 3 sheets, cycle behind a shared cell, row 121, column AAA, ring of 40): {n_cyclic} cyclic workbooks; the '
                 f'acyclic digraphs go to the closure / faithful checks',
        'rule': 'one evaluation = one translation request (whole file, or an entry cell that reaches a cycle) on a cyclic workbook; it must raise '
                'E2PyclParserException; entry cells that do not reach the cycle have no clause and are not counted',
        'exhaustive': False, 'evaluations': cyc_ev.get('cycle', 0), 'distinct_nontrivial': n_cyclic,
        'failures': _pick(allbest, ['C03.cycle.']),
        'samples': [{'cyclic_workbooks': n_cyclic, 'acyclic_workbooks': len(cyc_jobs) - n_cyclic}], 'seconds': cyc_secs})
    checks.append({
        'name': 'C03.monitor.column_range',
        'bound': f'{len(column_jobs())} hand-made + {1000 if thorough else 50} random workbooks (same generator) in which about 30% of the formulas are '
                 f'COLUMN(<range>); closure, entry-vs-whole and reference checks as above, every cell as entry',
        'rule': 'as closure + faithful; kept apart so that the COLUMN(range) defect cannot mask other failures',
        'exhaustive': False, 'evaluations': sum(col_ev.get(k, 0) for k in ('closure', 'faithful', 'reference')),
        'distinct_nontrivial': col_ev.get('faithful', 0),
        'failures': _pick(allbest, ['C03.column_range.']),
        'samples': [], 'seconds': col_secs})
    checks.append({
        'name': 'C03.monitor.parser_reuse',
        'bound': 'every 4th random workbook, the 3-cell exhaustive DAGs and the hand-made workbooks: one Parser object asked for each entry cell in '
                 'turn (and for the first again at the end)',
        'rule': 'one evaluation = one entry translation by the re-used Parser compared (text equality) with a fresh Parser',
        'exhaustive': False, 'evaluations': dag_total['reuse'], 'distinct_nontrivial': dag_total['reuse'],
        'failures': _pick(allbest, ['C03.reuse.']),
        'samples': [], 'seconds': 0.0})
    checks[0]['samples'].append({'wall_seconds_total': round(time.time() - T0, 1)})
    return {'checks': checks}


def replay(payload):
    if not payload or payload.get('kind') not in ('model', 'cycle'):
        return {'fails': False, 'text': 'nothing to replay'}
    job = dict(payload['job'], kind=payload['kind'])
    r = _work(job)
    hits = [f for f in r['fails'] if f['key'] == payload['key']]
    if hits:
        return {'fails': True, 'text': hits[0]['what']}
    other = [f['key'] for f in r['fails']]
    titles = job['model']['titles']
    desc = ', '.join(f'{addr(titles, tuple(c[:3]))}=' + (render(c[4], titles) if c[3] == 'f' else repr(c[4])) for c in job['model']['cells'][:10])
    return {'fails': False, 'text': f'{desc}: no failure with key {payload["key"]}' + (f' (other keys: {other})' if other else '')}
