"""Conformance of the K5 calendar contracts (pv.sorts closed forms, contracts/k5.py) with the real libraries."""
import calendar
import datetime

from dateutil.relativedelta import relativedelta

_CUM = [0, 31, 59, 90, 120, 151, 181, 212, 243, 273, 304, 334]
_DIM = [31, 28, 31, 30, 31, 30, 31, 31, 30, 31, 30, 31]


def leap(y):
    return y % 4 == 0 and (y % 100 != 0 or y % 400 == 0)


def dim(y, m):
    return 29 if (m == 2 and leap(y)) else _DIM[m - 1]


def ymd_to_ord(y, m, d):
    y1 = y - 1
    return y1 * 365 + y1 // 4 - y1 // 100 + y1 // 400 + _CUM[m - 1] + (1 if (m > 2 and leap(y)) else 0) + d


def add_months(y, m, d, k):
    idx = y * 12 + (m - 1) + k
    y2, m2 = idx // 12, idx % 12 + 1
    return y2, m2, min(d, dim(y2, m2))


def conformance(years):
    lo, hi = max(1, years[0]), min(9998, years[1])
    bad, n = [], 0
    for y in range(lo, hi + 1):
        if leap(y) != calendar.isleap(y):
            bad.append(['leap', y])
        for m in range(1, 13):
            n += 1
            if dim(y, m) != calendar.monthrange(y, m)[1]:
                bad.append(['dim', y, m])
            for d in range(1, dim(y, m) + 1):
                dt = datetime.datetime(y, m, d)
                n += 2
                if ymd_to_ord(y, m, d) != dt.toordinal():
                    bad.append(['ord', y, m, d])
                if (dt.toordinal() + 6) % 7 != dt.weekday():
                    bad.append(['weekday', y, m, d])
                if d >= 28 or d == 1:
                    for k in (-61, -25, -13, -12, -1, 0, 1, 2, 11, 12, 13, 14, 25, 60):
                        y2, m2, d2 = add_months(y, m, d, k)
                        if 1 <= y2 <= 9999:
                            n += 1
                            r = dt + relativedelta(months=k)
                            if (r.year, r.month, r.day) != (y2, m2, d2):
                                bad.append(['relativedelta', y, m, d, k])
        if len(bad) > 20:
            break
    return {'n': n, 'bad': bad[:20], 'years': [lo, hi]}
