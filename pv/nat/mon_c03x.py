"""C03, extra bounded check: cells far away from the top-left corner and formulas with many sub-expressions.

The differential monitor mon_c03 works on small generated graphs; this check plants values at large rows / columns on the
formula's own and on other sheets and reads them through direct references, bounded areas and many-argument folds, once from the
whole-file translation and once with the formula cell as entry point.  Oracle: the planted numbers."""
import time

from pv import codec
from pv.nat import lib

ROWS = [1, 30, 31, 35, 64, 65, 100, 257, 1000, 1030]
COLS = ['A', 'Z', 'AA', 'AZ', 'BA', 'ZZ']


def _book():
    """-> (spec, [(formula row on sheet 0, formula, expected)])"""
    sheets = [{'title': 'S', 'cells': []}, {'title': 'T', 'cells': []}, {'title': 'Far sheet', 'cells': []}]
    val = {}
    n = 0
    for si in range(3):
        for r in ROWS:
            for c in COLS:
                n += 1
                v = n * 3 + si
                val[(si, c, r)] = v
                sheets[si]['cells'].append([c, r, v])
    forms = []
    names = ['', 'T!', "'Far sheet'!"]
    for si in range(3):
        for r in ROWS:
            for c in COLS:
                forms.append((f'={names[si]}{c}{r}+1', val[(si, c, r)] + 1))
        for c in COLS:
            forms.append((f'=SUM({names[si]}{c}{ROWS[0]}:{c}{ROWS[-1]})', sum(val[(si, c, r)] for r in ROWS)))
    # many sub-expressions in one cell: 70 / 130 area arguments
    for k in (64, 65, 70, 130):
        # k distinct areas (equal sub-expressions of one cell are emitted once): T!A1:A1, T!A1:A2, ...
        args = ','.join(f'T!A1:A{i + 1}' for i in range(k))
        forms.append((f'=SUM({args})', sum(val[(1, 'A', r)] for i in range(k) for r in ROWS if r <= i + 1)))
    return sheets, forms


def _eval(sheets, forms, entry_mode):
    """returns list of failures [(formula, got, expected, mode)] and the number of evaluations"""
    fails, n = [], 0
    col = 'BC'          # formulas live in a column of their own on sheet 0
    spec = {'sheets': [dict(s, cells=list(s['cells'])) for s in sheets]}
    for i, (f, _) in enumerate(forms):
        spec['sheets'][0]['cells'].append([col, i + 1, f])
    with lib.scratch() as d:
        if not entry_mode:
            p = lib.Pipe(spec, d, safety=False)
            if p.error is not None:
                return [('(whole file)', codec.enc(p.error), 'a translation', 'whole-file')], 1
            for i, (f, exp) in enumerate(forms):
                got = p.value(0, col, str(i + 1))
                n += 1
                if isinstance(got, codec.Raised) or got != exp:
                    fails.append((f, codec.enc(got), exp, 'whole-file'))
        else:
            step = max(1, len(forms) // 40)
            for i in list(range(0, len(forms), step)) + list(range(len(forms) - 4, len(forms))):
                f, exp = forms[i]
                p = lib.Pipe(spec, d, entry=('S', col, str(i + 1)), safety=False, name=f'e{i}.xlsx')
                n += 1
                if p.error is not None:
                    fails.append((f, codec.enc(p.error), exp, 'entry-point'))
                    continue
                got = p.value(0, col, str(i + 1))
                if isinstance(got, codec.Raised) or got != exp:
                    fails.append((f, codec.enc(got), exp, 'entry-point'))
    return fails, n


def run(tier='quick', seed=0):
    t0 = time.time()
    sheets, forms = _book()
    failures, evals = [], 0
    for mode in (False, True):
        fl, n = _eval(sheets, forms, mode)
        evals += n
        for f, got, exp, m in fl:
            kind = 'many_arguments' if f.count(',') > 20 else 'area' if ':' in f else 'cell'
            key = f'C03.far.{kind}.{m}'
            if not any(x['key'] == key for x in failures):
                failures.append({'key': key, 'what': f'{f[:90]} [{m} translation] -> {str(got)[:80]}, expected {exp} '
                                                     f'({sum(1 for y in fl if y[3] == m)} failing evaluations under this mode)',
                                 'replay': {'kind': 'far', 'monitor': 'mon_c03x'}})
    return {'checks': [{
        'name': 'C03.monitor.far_cells',
        'bound': f'3 sheets x rows {ROWS} x columns {COLS}: every planted cell read through a direct reference and every column through '
                 'a bounded area, from the formula sheet and across sheets; folds with 64 / 65 / 70 / 130 area arguments; whole-file '
                 'translation (all formulas) and entry-point translation (about 45 of them as entry)',
        'rule': 'one evaluation = one formula value compared with the planted numbers', 'exhaustive': True,
        'evaluations': evals, 'distinct_nontrivial': evals, 'failures': failures,
        'samples': [{'formula': forms[0][0], 'expected': forms[0][1]}], 'seconds': time.time() - t0}]}


def replay(payload):
    r = run()
    f = r['checks'][0]['failures']
    return {'fails': bool(f), 'text': '; '.join(x['what'] for x in f)[:600] or f"{r['checks'][0]['evaluations']} evaluations agree"}
