"""K4 bounded monitor for C09 (translation output depends only on the current workbook and settings).

Runs under /venv/bin/python on the real code.  Contract monitored (taken from the property statement, not the code):

  * a reference state machine of the facade keeps (path, entry cell, safety) as last set; every get / write must deliver
    T(path, entry, safety) where T is what a FRESH parser in a FRESH process (PYTHONHASHSEED=0) gives for exactly these
    settings (text, or a raise of the same class and message); the reference processes are forked copies of a process that
    has imported the library and translated nothing, the hash-seed / process checks use real fresh interpreters;
  * repeated get / write without a setter in between deliver the identical outcome (also when the outcome is a raise);
  * the written file's bytes are the utf-8 bytes of the returned text (also over an older, longer file);
  * T itself "corresponds" to the workbook, entry cell and safety setting: independent oracle built from the planted
    workbook contents (markers that must / must not occur, values the executed text must yield, which settings must raise);
  * T is byte-identical across hash seeds, fresh processes, earlier translations in the process, concurrent threads.
"""
import concurrent.futures
import hashlib
import itertools
import json
import os
import random
import shutil
import subprocess
import sys
import time

from pv import codec
from pv.nat import lib

VERIF = os.path.dirname(os.path.dirname(os.path.dirname(os.path.abspath(__file__))))
MARK = '@@C09@@'

# ------------------------------------------------------------------------------------------------ workbook family
# five workbooks that share formula text at the same cell positions but differ in constants and in sheet order
PARAMS = {'base': (2, 3, 10, 100), 'twin': (5, 7, 20, 300), 'unsafe': (4, 9, 30, 500), 'malformed': (6, 1, 40, 700),
          'uni': (8, 2, 50, 900)}
ORDER = {'base': ['S', 'Other', 'Third'], 'twin': ['S', 'Third', 'Other'], 'unsafe': ['S', 'Other', 'Third'],
         'malformed': ['Other', 'S', 'Third'], 'uni': ['Данные', 'S', 'Other', 'Third']}
BLANK = '__blank__'
HIST_WBS = ['base', 'twin', 'unsafe', 'malformed', 'uni', 'missing', 'notzip']      # + None = no path set

# entry cells: id -> Cell arguments (title, column, row[, value])
ENTRIES = {
    'c1s': ('S', 'C', '1'), 'c1i': (0, 2, 0), 'valued': ('S', 'C', '1', '=B1*1000'), 'd1': ('S', 'D', '1'),
    'e1': ('S', 'E', '1'), 'ob1': ('Other', 'B', '1'), 'g1': ('S', 'G', '1'), 'c2': ('S', 'C', '2'),
    'far': ('S', 'AAA', '1500'), 'nosheet': ('Nope', 'A', '1'), 'a3': ('S', 'A', '3'), 'k1': ('S', 'K', '1'),
}
HIST_ENTRIES = ['c1s', 'c1i', 'valued', 'd1', 'e1', 'ob1', 'g1', 'c2', 'far', 'nosheet', 'a3']

CORPUS = [
    '=A1+B1', '=A1-B1*2', '=(A1+B1)/2', '=A1&"x"&B1', '=A1%', '=-A1', '=A1>B1', '=A1<=B1', '=A1<>B1', '=A1=B1',
    '=SUM(A1:B1)', '=SUM(A1:B3)', '=SUM(A:A)', '=SUM(A1:B1;A2:B2;5)', '=AVERAGE(A1:B3)', '=MIN(A1:B3)', '=MAX(A1:B3;100)',
    '=COUNT(A1:C3)', '=COUNTBLANK(A1:D4)', '=IF(A1>B1;"gt";"le")', '=IF(A1>B1, 44, 11)',
    '=IFS(A1>89;"A";A1>1;"B";TRUE;"C")', '=IFERROR(A1/0;5)', '=AND(A1>0;B1>0)', '=OR(A1>5, B1>5)',
    '=VLOOKUP(2;A1:B3;2;FALSE)', '=VLOOKUP(2,A1:B3,2)', '=MATCH(3;A1:A3;0)', '=MATCH(3;A1:A3)', '=XMATCH(3;A1:A3)',
    '=INDEX(A1:B3;2;2)', '=INDEX(A1:A3;2)', '=ROUND(A1/3;2)', '=ROUNDUP(A1/3;1)', '=ROUNDDOWN(A1/3)',
    '=SUMIF(A1:A3;">1";B1:B3)', '=SUMIF(A1:A3;2)', '=SUMIFS(B1:B3;A1:A3;">1")', '=COUNTIFS(A1:A3;">1")',
    '=AVERAGEIFS(B1:B3;A1:A3;">=1")', '=COUNTIFS(C1:C3;"a*")', '=DATE(2024;2;29)', '=YEAR(D1)', '=MONTH(D1)', '=DAY(D1)',
    '=EDATE(D1;2)', '=EOMONTH(D1;-1)', '=DATEDIF(D1;D2;"D")', '=NETWORKDAYS(D1;D2)', '=TODAY()', '=LEFT(C1;2)',
    '=RIGHT(C1)', '=MID(C1;2;3)', '=SEARCH("b";C1)', '=ADDRESS(3;704)', '=COLUMN()', '=COLUMN(B3)', '=VALUE("12")',
    '=TEXT(A1;"0.00")', '=CONCATENATE(C1;"-";C2)', '=Other!A1*2', "='My Sheet'!A1+1", '=SUM(Other!A1:B2)', '=1.5e3+0.1',
    '="its"', '=TRUE', '=FALSE()', '=A1+\n B1', '=$A$1+B$1+$B1', '=SUM($A$1:$B$3)', '=INDEX((A1:B1; A1:A3; A1:B3);1;1;2)',
    '=COLUMN(C3:C7)', '=COLUMN(C3:E3)', '=SUM(A1:B3)', '=A1+B1',            # duplicates of earlier formula texts on purpose
]
for _i in (1, 13, 26, 41, 61, 63, 71, 73):
    ENTRIES[f'z{_i}'] = ('S', 'Z', str(_i))


def _family_specs():
    """name -> (spec, vals, markers); vals[(title, col letters, row)] = value the cell must have; markers[(title, col, row)] = text"""
    out = {}
    for tag, (a1, b1, oa1, ta1) in PARAMS.items():
        mk = {('S', 'A', 2): f'mk-{tag}-A2', ('S', 'F', 1): f'mk-{tag}-F1'}
        s = [['A', 1, a1], ['B', 1, b1], ['C', 1, '=A1+B1'], ['D', 1, '=Other!A1*2'], ['E', 1, '=C1+D1'], ['A', 2, mk[('S', 'A', 2)]],
             ['C', 2, '=SUM(A1:B1)' if tag != 'malformed' else '=SUM(A1:B1'], ['F', 1, mk[('S', 'F', 1)]], ['G', 1, '=F1&"!"']]
        vals = {('S', 'A', 1): a1, ('S', 'B', 1): b1, ('S', 'C', 1): a1 + b1, ('S', 'D', 1): oa1 * 2, ('S', 'E', 1): a1 + b1 + oa1 * 2,
                ('S', 'A', 2): mk[('S', 'A', 2)], ('S', 'C', 2): a1 + b1, ('S', 'F', 1): mk[('S', 'F', 1)], ('S', 'G', 1): mk[('S', 'F', 1)] + '!',
                ('Other', 'A', 1): oa1, ('Other', 'B', 1): oa1 + 1, ('Third', 'A', 1): ta1, ('Third', 'B', 1): ta1 + 1}
        sheets = {'S': s, 'Other': [['A', 1, oa1], ['B', 1, '=A1+1']], 'Third': [['A', 1, ta1], ['B', 1, '=A1+1']]}
        if tag == 'unsafe':
            mk[('S', 'A', 3)] = 'mk-unsafe-A3 eval(1)'
            s.append(['A', 3, mk[('S', 'A', 3)]])
            vals[('S', 'A', 3)] = mk[('S', 'A', 3)]
        if tag == 'uni':
            mk[('S', 'H', 1)] = 'mk-uni-H1 яблоко ✓ é'
            mk[('S', 'I', 1)] = 'mk-uni-I1 a\'b"c\nd\te\\ {0} {{x}} %s'
            mk[('S', 'J', 1)] = 'mk-uni-J1 ' + 'long text beyond fifty characters ' * 3
            mk[('Данные', 'A', 1)] = 'mk-uni-DA1 привет'
            s += [['H', 1, mk[('S', 'H', 1)]], ['I', 1, mk[('S', 'I', 1)]], ['J', 1, mk[('S', 'J', 1)]], ['K', 1, '=Данные!A1&H1']]
            for k in (('S', 'H', 1), ('S', 'I', 1), ('S', 'J', 1)):
                vals[k] = mk[k]
            vals[('Данные', 'A', 1)] = mk[('Данные', 'A', 1)]
            vals[('S', 'K', 1)] = mk[('Данные', 'A', 1)] + mk[('S', 'H', 1)]
            sheets['Данные'] = [['A', 1, mk[('Данные', 'A', 1)]]]
        if tag == 'malformed':
            del vals[('S', 'C', 2)]
        out[tag] = ({'sheets': [{'title': t, 'cells': sheets[t]} for t in ORDER[tag]]}, vals, mk)
    return out


# which marker cells lie in the dependency closure of a cell
CLOSURE = {('S', 'G', 1): [('S', 'F', 1)], ('S', 'F', 1): [('S', 'F', 1)], ('S', 'A', 2): [('S', 'A', 2)], ('S', 'A', 3): [('S', 'A', 3)],
           ('S', 'K', 1): [('S', 'H', 1), ('Данные', 'A', 1)]}


def _corpus_spec():
    base = [['A', 1, 1], ['B', 1, 5], ['A', 2, 2], ['B', 2, 6], ['A', 3, 3], ['B', 3, {'$f': '7.25'}], ['C', 1, 'abc'], ['C', 2, 'aXc'],
            ['D', 1, {'$dt': [2024, 1, 31, 0, 0, 0, 0]}], ['D', 2, {'$dt': [2051, 3, 1, 0, 0, 0, 0]}], ['E', 1, True], ['E', 2, False]]
    return {'sheets': [{'title': 'S', 'cells': base + [['Z', i + 1, f] for i, f in enumerate(CORPUS)]},
                       {'title': 'Other', 'cells': [['A', 1, 10], ['B', 2, 4], ['Z', 1, '=A1+B1'], ['Z', 12, '=SUM(A1:B3)']]},
                       {'title': 'My Sheet', 'cells': [['A', 1, 7], ['Z', 1, '=A1+B1']]}]}


def _wide_spec():
    cells = [['A', i, i] for i in range(1, 1201)] + [['B', 1200, '=SUM(A1:A1200)'], ['AAA', 1, 7], ['AAB', 1, '=AAA1*2'], ['XFD', 2, 1],
                                                      ['C', 3, 'x' * 80], ['C', 101, '=A101+A1001'], ['D', 5, {'$dt': [2051, 1, 1, 0, 0, 0, 0]}]]
    return {'sheets': [{'title': 'S', 'cells': cells}, {'title': 'Other', 'cells': [['A', 1, 1], ['B', 1200, '=SUM(A1:A1200)']]}]}


def _build(d, wide=True):
    """writes the workbooks into d; returns name -> path (also for names that denote no readable workbook)"""
    paths = {}
    for tag, (spec, _, _) in _family_specs().items():
        paths[tag] = os.path.join(d, tag + '.xlsx')
        lib.write_workbook(spec, paths[tag])
    paths['corpus'] = os.path.join(d, 'corpus.xlsx')
    lib.write_workbook(_corpus_spec(), paths['corpus'])
    if wide:
        paths['wide'] = os.path.join(d, 'wide.xlsx')
        lib.write_workbook(_wide_spec(), paths['wide'])
    paths['missing'] = os.path.join(d, 'does_not_exist.xlsx')
    paths['slotseq'] = os.path.join(d, 'slotseq.xlsx')
    paths['notzip'] = os.path.join(d, 'notzip.xlsx')
    with open(paths['notzip'], 'wb') as f:
        f.write(b'this is not a workbook')
    return paths


# ------------------------------------------------------------------------------------------------ child side
def _sha(b):
    return hashlib.sha256(b).hexdigest()


def _summ(r, want_text=False):
    if isinstance(r, codec.Raised):
        return {'k': 'raise', 'cls': r.cls, 'msg': r.msg, 'mro': list(r.mro)}
    if not isinstance(r, str):
        return {'k': 'other', 'repr': repr(r)[:120]}
    d = {'k': 'text', 'sha': _sha(r.encode('utf-8', 'surrogatepass')), 'len': len(r)}
    if want_text:
        d['text'] = r
    return d


def _mk_entry(eid):
    from excel2pycl import Cell
    return Cell(*ENTRIES[eid])


def _fresh(path, eid, safety):
    """a fresh parser configured with exactly these settings"""
    from excel2pycl import Parser
    if isinstance(path, dict):            # {'copy': source, 'to': path}: the workbook stored at the path is replaced first
        shutil.copyfile(path['copy'], path['to'])
        path = path['to']
    p = Parser()
    if path is not None:
        p.set_excel_file_path(path)
    if eid is not None:
        p.set_entrypoint_cell(_mk_entry(eid))
    if safety is True:
        p.enable_safety_check()
    elif safety is False:
        p.disable_safety_check()
    return lib.call_catch(p.get_translation)


def _job_configs(job):
    return [_summ(_fresh(*c), job.get('text', False)) for c in job['configs']]


def _run_history(ops, paths, outs):
    """ops: ['P', wb|'slot'] ['E', eid, 'shared'|'fresh'] ['S', 0|1] ['G'] ['W', k] ['F', k] (pre-fill out file k with a long text)
    ['C', wb] (replace the workbook stored at the path 'slot' by a copy of wb)"""
    from excel2pycl import Parser
    for o in list(outs) + [paths.get('slot')]:
        if o and os.path.exists(o):
            os.remove(o)
    p = Parser()
    shared, obs = {}, []
    for i, op in enumerate(ops):
        k = op[0]
        try:
            if k == 'P':
                p.set_excel_file_path(paths[op[1]])
            elif k == 'E':
                if op[2] == 'shared':
                    if op[1] not in shared:
                        shared[op[1]] = _mk_entry(op[1])
                    c = shared[op[1]]
                else:
                    c = _mk_entry(op[1])
                p.set_entrypoint_cell(c)
            elif k == 'S':
                (p.enable_safety_check if op[1] else p.disable_safety_check)()
            elif k == 'C':
                shutil.copyfile(paths[op[1]], paths['slot'])
            elif k == 'F':
                with open(outs[op[1]], 'w', encoding='utf-8') as f:
                    f.write('# old content\n' * 20000)
            elif k == 'G':
                obs.append([i, 'G', _summ(lib.call_catch(p.get_translation))])
            elif k == 'W':
                out = outs[op[1] if len(op) > 1 else 0]
                before = _sha(open(out, 'rb').read()) if os.path.exists(out) else None
                r = lib.call_catch(p.write_translation, out)
                if isinstance(r, codec.Raised):
                    s = _summ(r)
                    s['file_touched'] = (_sha(open(out, 'rb').read()) if os.path.exists(out) else None) != before
                    obs.append([i, 'W', s])
                else:
                    data = open(out, 'rb').read()
                    obs.append([i, 'W', {'k': 'text', 'sha': _sha(data), 'len': len(data)}])
        except BaseException as e:  # noqa  a setter must not raise
            obs.append([i, 'X', {'k': 'raise', 'cls': type(e).__name__, 'msg': str(e)[:200], 'mro': []}])
            break
    return obs


def _job_histories(job):
    outs = job['outs']
    return [_run_history(h, job['paths'], outs) for h in job['histories']]


def _job_threads(job):
    import threading
    plans, rounds = job['plans'], job['rounds']
    if job.get('warm'):
        _fresh(*plans[0][0])
    sys.setswitchinterval(job.get('switch', 1e-5))
    barrier = threading.Barrier(len(plans))
    results = [[] for _ in plans]
    if job.get('sequential'):              # control run: the same translations one after the other
        for i in range(len(plans)):
            for _ in range(rounds):
                for c in plans[i]:
                    results[i].append(_summ(_fresh(*c)))
        return results

    def work(i):
        barrier.wait()
        for _ in range(rounds):
            for c in plans[i]:
                results[i].append(_summ(_fresh(*c)))
    ts = [threading.Thread(target=work, args=(i,)) for i in range(len(plans))]
    for t in ts:
        t.start()
    for t in ts:
        t.join()
    return results


def _job_forked(job):
    """every configuration in its own forked copy of this process, which has imported the library and translated nothing"""
    import excel2pycl  # noqa  (the only thing the copies inherit)
    out = []
    for c in job['configs']:
        r, w = os.pipe()
        pid = os.fork()
        if pid == 0:
            code = 0
            try:
                os.close(r)
                data = json.dumps(_summ(_fresh(*c), job.get('text', False))).encode()
                with os.fdopen(w, 'wb') as f:
                    f.write(data)
            except BaseException:  # noqa
                code = 1
            os._exit(code)
        os.close(w)
        with os.fdopen(r, 'rb') as f:
            data = f.read()
        os.waitpid(pid, 0)
        out.append(json.loads(data) if data else {'k': 'crash', 'msg': 'forked translator died'})
    return out


_JOBS = {'configs': _job_configs, 'histories': _job_histories, 'threads': _job_threads, 'forked': _job_forked}


def _child_main():
    job = json.loads(sys.stdin.read())
    res = _JOBS[job['job']](job)
    sys.stdout.write(MARK + json.dumps(res))


# ------------------------------------------------------------------------------------------------ parent side
_CHILD = 'import sys; sys.path[:0]=[%r,%r]; sys.dont_write_bytecode=True; from pv.nat import mon_c09 as m; m._child_main()'


_TREE = [lib.REPO]


def _snapshot(d):
    """The library is copied once per run and every process of the run imports the copy, so that an edit of the repository
    while the monitor runs cannot make two processes of one comparison run different code."""
    dst = os.path.join(d, 'tree')
    shutil.copytree(os.path.join(lib.REPO, 'excel2pycl'), os.path.join(dst, 'excel2pycl'),
                    ignore=shutil.ignore_patterns('__pycache__', '*.pyc'))
    _TREE[0] = dst
    if 'excel2pycl' not in sys.modules:
        sys.path.insert(0, dst)


def _spawn(job, hashseed=0, timeout=900):
    env = dict(os.environ)
    env.update({'E2PYCL_REPO': _TREE[0], 'PYTHONPATH': _TREE[0] + os.pathsep + VERIF, 'PYTHONDONTWRITEBYTECODE': '1',
                'PYTHONWARNINGS': 'ignore', 'PYTHONHASHSEED': str(hashseed)})
    try:
        p = subprocess.run([sys.executable, '-W', 'ignore', '-c', _CHILD % (_TREE[0], VERIF)], input=json.dumps(job),
                           capture_output=True, text=True, env=env, timeout=timeout)
    except subprocess.TimeoutExpired:
        return {'crash': 'timeout'}
    i = p.stdout.rfind(MARK)
    if p.returncode != 0 or i < 0:
        return {'crash': (p.stderr or p.stdout)[-1500:]}
    return json.loads(p.stdout[i + len(MARK):])


def _spawn_many(jobs, hashseeds=None, workers=16):
    hashseeds = hashseeds or [0] * len(jobs)
    with concurrent.futures.ThreadPoolExecutor(workers) as ex:
        return list(ex.map(lambda a: _spawn(a[0], a[1]), zip(jobs, hashseeds)))


def _norm(c):
    """'slot:<wb>' = the workbook <wb> stored at the re-used path: the reference is the one of <wb>"""
    if isinstance(c[0], str) and c[0].startswith('slot:'):
        return (c[0][5:], c[1], c[2])
    return tuple(c)


def _ckey(c):
    c = _norm(c)
    return f'{c[0]}|{c[1]}|{c[2]}'


class Table:
    """T: (workbook name, entry id, safety) -> outcome of a fresh parser in a process that has imported the library and translated
    nothing (a forked copy of such a process per setting, hash seed 0); computed on demand"""

    def __init__(self, paths):
        self.paths, self.t, self.crashes = paths, {}, []

    def need(self, configs):
        todo, seen = [], set()
        for c in configs:
            k = _ckey(c)
            if k not in self.t and k not in seen:
                seen.add(k)
                todo.append(list(_norm(c)))
        if not todo:
            return
        nproc = min(16, len(todo))
        parts = [todo[i::nproc] for i in range(nproc)]
        jobs = [{'job': 'forked', 'text': True, 'configs': [[self.paths[c[0]] if c[0] is not None else None, c[1], c[2]] for c in part]}
                for part in parts]
        for part, r in zip(parts, _spawn_many(jobs)):
            for j, c in enumerate(part):
                self.t[_ckey(c)] = {'k': 'crash', 'msg': r['crash']} if isinstance(r, dict) else r[j]

    def get(self, c):
        if _ckey(c) not in self.t:
            self.need([c])
        return self.t[_ckey(c)]


def _short(o):
    if o is None:
        return 'nothing'
    if o['k'] == 'text':
        return f"text sha {o['sha'][:10]} ({o.get('len')} B)"
    if o['k'] == 'raise':
        return f"raise {o['cls']}({o['msg'][:60]!r})"
    return str(o)[:80]


def _same(obs, exp):
    if obs['k'] != exp['k']:
        return False
    if obs['k'] == 'text':
        return obs['sha'] == exp['sha']
    if obs['k'] == 'raise':
        return obs['cls'] == exp['cls'] and obs['msg'] == exp['msg']
    return False


SETTER = {'P': 'set_path', 'E': 'set_entry', 'S': 'safety'}
_SERIAL = itertools.count()


def _judge(ops, obs, table):
    """first violated observation of one history -> (clause, key, what, index) or None; also yields per-observation records"""
    state = [None, None, None]
    path_is_slot = False
    by_index = {o[0]: o for o in obs}
    prev_obs = None            # (index, outcome, config) of the previous observation
    since = []                 # setter kinds since the previous observation
    records, earlier = [], []
    slot, dirty = None, False      # workbook stored at the path 'slot'; dirty: replaced after the path was set (no clause until set again)
    for i, op in enumerate(ops):
        k = op[0]
        if k == 'C':
            slot = op[1]
            dirty = dirty or path_is_slot
            continue
        if k == 'P':
            path_is_slot = op[1] == 'slot'
            if path_is_slot and slot is None:
                return None, records          # not a history of the scope (nothing stored at the path yet)
            state[0] = slot if path_is_slot else op[1]
            dirty = False
        elif k == 'E':
            state[1] = op[1]
        elif k == 'S':
            state[2] = bool(op[1])
        if k in SETTER:
            since.append('enable' if (k == 'S' and op[1]) else 'disable' if k == 'S' else SETTER[k])
        if i in by_index and by_index[i][1] == 'X':
            return ('settings', f'C09.history.setter_raised.{SETTER.get(k, k)}', f'{ops[:i + 1]}: setter raised {_short(by_index[i][2])}', i), records
        if k not in ('G', 'W'):
            continue
        if i not in by_index:
            return ('settings', 'C09.history.no_observation', f'{ops}: no observation at {i}', i), records
        got = by_index[i][2]
        if dirty:
            prev_obs, since = (i, got, None, True), []
            continue
        exp = table.get(tuple(state))
        repeat = prev_obs is not None and not since and prev_obs[2] is not None
        rec = {'clause': 'repeat' if repeat else ('written' if k == 'W' else 'settings'), 'op': k, 'cached': prev_obs is not None,
               'sig': (prev_obs[2] if prev_obs else None, tuple(since), tuple(state), k)}
        records.append(rec)
        if exp['k'] == 'crash':
            return ('settings', 'C09.reference.crash', f'reference process crashed for {state}: {exp["msg"][-200:]}', i), records
        ok = _same(got, exp)
        if repeat and not _same(got, prev_obs[1]) and not (got['k'] == 'raise' and prev_obs[1]['k'] == 'raise' and got['cls'] == prev_obs[1]['cls']):
            ok = False
        if not ok:
            stale = got['k'] == 'text' and any(e[1]['k'] == 'text' and e[1]['sha'] == got['sha'] and e[2] != tuple(state) for e in earlier)
            if got['k'] == 'text':
                sym = 'stale_text' if stale else 'missing_raise' if exp['k'] == 'raise' else 'wrong_text'
            elif got['k'] == 'raise':
                sym = 'unexpected_raise' if exp['k'] == 'text' else 'wrong_raise'
            else:
                sym = 'not_a_text'
            if repeat:
                key = f"C09.repeat.{'write' if k == 'W' else 'get'}_after_{'raise' if prev_obs[1]['k'] == 'raise' else 'text'}.{sym}"
                clause = 'repeat'
            else:
                last = since[-1] if since else 'none'
                if path_is_slot and last == 'set_path' and any(e[3] for e in earlier):
                    last = 'set_same_path_new_workbook'
                key = f"C09.{'written_file' if k == 'W' else 'settings'}.after_{last}.{sym}"
                clause = 'written' if k == 'W' else 'settings'
            clause = clause + '/' + sym
            what = (f'history {_fmt(ops[:i + 1])}: {"write" if k == "W" else "get"} #{i} -> {_short(got)}; a fresh parser with '
                    f'path={state[0]}, entry={state[1]}, safety={state[2]} gives {_short(exp)}'
                    + (f'; previous call without a change gave {_short(prev_obs[1])}' if repeat else ''))
            return (clause, key, what, i), records
        prev_obs = (i, got, tuple(state), path_is_slot)
        earlier.append(prev_obs)
        since = []
    return None, records


def _fmt(ops):
    return ' '.join(o[0] + ('(' + ','.join(str(x) for x in o[1:]) + ')' if len(o) > 1 else '') for o in ops)


def _run_histories(histories, paths, d, chunk=None, seeds=None):
    """-> list of observation lists (same order); each chunk in a fresh process"""
    chunk = chunk or max(20, min(400, -(-len(histories) // 32)))
    chunks = [histories[i:i + chunk] for i in range(0, len(histories), chunk)]
    jobs = []
    for c in chunks:
        n = next(_SERIAL)
        jobs.append({'job': 'histories', 'paths': {**paths, 'None': None, 'slot': os.path.join(d, f'slot_{n}.xlsx')}, 'histories': c,
                     'outs': [os.path.join(d, f'out_{n}_{j}.py') for j in range(2)]})
    res = _spawn_many(jobs, seeds)
    out = []
    for c, r in zip(chunks, res):
        if isinstance(r, dict):
            out += [[[0, 'X', {'k': 'raise', 'cls': 'ChildCrash', 'msg': r['crash'][-300:], 'mro': []}]]] * len(c)
        else:
            out += r
    return out, chunks


def _norm_hist(h):
    return [[op[0]] + [('None' if (op[0] == 'P' and x is None) else x) for x in op[1:]] for op in h]


def _states_of(h):
    st, out, slot = [None, None, None], [], None
    for op in h:
        if op[0] == 'C':
            slot = op[1]
        elif op[0] == 'P':
            st[0] = slot if op[1] == 'slot' else op[1]
        elif op[0] == 'E':
            st[1] = op[1]
        elif op[0] == 'S':
            st[2] = bool(op[1])
        elif op[0] in ('G', 'W'):
            out.append(tuple(st))
    return out


def _single(h, paths, d, table):
    """run one history alone in a fresh process and judge it"""
    obs, _ = _run_histories([_norm_hist(h)], paths, d)
    return _judge(h, obs[0], table)[0]


def _minimise(h, paths, d, table, key, budget=12):
    """greedy removal of operations keeping the failure key; then the setters between the last two calls are dropped when the
    same symptom persists without them (they are not the cause then).  Each attempt runs in a fresh process."""
    cur = list(h)
    sym = key.rsplit('.', 1)[1]
    for stage in (0, 1):
        changed = True
        while changed and budget > 0:
            changed = False
            obs_idx = [i for i, o in enumerate(cur[:-1]) if o[0] in ('G', 'W')]
            lo = 0 if stage == 0 else (obs_idx[-1] + 1 if obs_idx else 0)
            for i in range(lo, len(cur) - 1):
                cand = cur[:i] + cur[i + 1:]
                budget -= 1
                v = _single(cand, paths, d, table)
                if v is not None and (v[1] == key if stage == 0 else v[1].rsplit('.', 1)[1] == sym):
                    cur = cand[:v[3] + 1]
                    changed = True
                    break
                if budget <= 0:
                    break
        budget += 4
    return cur


def _sweep(name, histories, paths, d, table, bound, rule, exhaustive, t0, samples=None):
    """runs the histories, judges every observation; returns the check record"""
    table.need({c for h in histories for c in _states_of(h)})
    norm = [_norm_hist(h) for h in histories]
    obs, chunks = _run_histories(norm, paths, d)
    csize = len(chunks[0]) if chunks else 1
    evals, sigs, raw = {'settings': 0, 'repeat': 0, 'written': 0}, set(), {}
    for n, (h, o) in enumerate(zip(histories, obs)):
        verdict, records = _judge(h, o, table)
        for r in records:
            evals[r['clause']] += 1
            if r['cached']:
                sigs.add(r['sig'])
        if verdict is not None:
            clause, key, what, at = verdict
            if key not in raw or at < raw[key][2]:
                raw[key] = (h, what, at, n, clause)

    def settle(item):
        key, (h, what, at, n, clause) = item
        h = h[:at + 1]
        alone = _single(h, paths, d, table)
        if alone is None or alone[1] != key:
            # only fails after the earlier histories of its chunk: a process-history effect
            start = (n // csize) * csize
            prefix = histories[start:n + 1]
            for size in (1, 2, 4, 8, 16, 32, 64, 128, 256, 512):
                sub = prefix[-size - 1:]
                o2, _ = _run_histories([_norm_hist(x) for x in sub], paths, d, chunk=len(sub))
                if _judge(sub[-1], o2[-1], table)[0] is not None:
                    prefix = sub
                    break
                if size >= len(prefix):
                    break
            k2 = 'C09.process_history.in_history_sweep.' + key.rsplit('.', 1)[1]
            return {'key': k2, 'what': f'only after {len(prefix) - 1} earlier histories in the same process: ' + what,
                    'replay': {'kind': 'chunk', 'histories': prefix, 'key': key}}
        hm = _minimise(h, paths, d, table, key)
        v = _single(hm, paths, d, table)
        if v is None:
            hm, v = h, alone
        return {'key': v[1], 'what': v[2], 'replay': {'kind': 'history', 'ops': hm}}

    fails = {}
    todo = sorted(raw.items(), key=lambda kv: (kv[1][2], kv[0]))[:16]
    if todo:
        with concurrent.futures.ThreadPoolExecutor(8) as ex:
            for f in ex.map(settle, todo):
                if f['key'] not in fails or len(json.dumps(f['replay'])) < len(json.dumps(fails[f['key']]['replay'])):
                    fails[f['key']] = f
    total = sum(evals.values())
    return {'name': name, 'bound': bound, 'rule': rule + f' [evaluations by clause: {evals}]', 'exhaustive': exhaustive,
            'evaluations': total, 'distinct_nontrivial': len(sigs), 'failures': [fails[k] for k in sorted(fails)][:25],
            'samples': samples or [{'history': _fmt(h), 'observations': [[o[0], o[1], _short(o[2])] for o in ob]}
                                   for h, ob in list(zip(histories, obs))[len(histories) // 2:len(histories) // 2 + 3]],
            'seconds': round(time.time() - t0, 2)}


# ---- history families
SETUPS = [
    [],
    [['P', 'unsafe'], ['S', 0], ['G']],
    [['P', 'base'], ['E', 'c1s', 'shared'], ['G']],
    [['P', 'twin'], ['E', 'ob1', 'shared'], ['S', 1], ['G']],
    [['P', 'unsafe'], ['G']],
    [['P', 'base'], ['G'], ['P', 'missing'], ['G']],
]
ALPHA = [['P', 'base'], ['P', 'twin'], ['P', 'unsafe'], ['P', 'missing'], ['E', 'c1s', 'shared'], ['E', 'ob1', 'shared'], ['S', 1], ['S', 0],
         ['G'], ['W', 0]]


def _exhaustive_histories(lens):
    """lens[i] = maximal number of calls appended to SETUPS[i]"""
    out = []
    for setup, maxlen in zip(SETUPS, lens):
        for n in range(1, maxlen + 1):
            for body in itertools.product(ALPHA, repeat=n - 1):
                for last in (['G'], ['W', 0]):
                    out.append(setup + list(body) + [last])
    return out


def _sampled_histories(rng, count):
    out = []
    wbs = HIST_WBS
    for _ in range(count):
        n = rng.randint(4, 10)
        h, filled = [], False
        for _ in range(n - 1):
            x = rng.random()
            if x < 0.06:
                h.append(['C', rng.choice(SLOT_WBS)])
                filled = True
            elif x < 0.25:
                h.append(['P', rng.choice(wbs + (['slot', 'slot'] if filled else []))])
            elif x < 0.47:
                h.append(['E', rng.choice(HIST_ENTRIES), rng.choice(['shared', 'shared', 'fresh'])])
            elif x < 0.67:
                h.append(['S', rng.choice([0, 1])])
            elif x < 0.90:
                h.append(['G'])
            else:
                h.append(['W', rng.choice([0, 1])])
        h.append(rng.choice([['G'], ['G'], ['W', 0]]))
        out.append(h)
    return out


def _setters(c, shared='shared'):
    ops = []
    if c[0] is not None:
        ops.append(['P', c[0]])
    if c[1] is not None:
        ops.append(['E', c[1], shared])
    if c[2] is not None:
        ops.append(['S', 1 if c[2] else 0])
    return ops


def _all_hist_configs():
    return [(w, e, s) for w in HIST_WBS + [None] for e in [None] + HIST_ENTRIES for s in (None, True, False)] + \
           [('uni', 'k1', s) for s in (None, True, False)]


def _raise_histories(table, both_orders=True):
    """every raising configuration x three earlier states: reach it, then get, get, write, get, repair, get"""
    out = []
    priors = [[], [['P', 'base'], ['G']], [['P', 'twin'], ['E', 'ob1', 'shared'], ['S', 0], ['G']]]
    for c in _all_hist_configs():
        if table.get(c)['k'] != 'raise' or c[1] not in (None, 'c1s', 'nosheet', 'c2', 'ob1'):
            continue
        for pr in priors:
            for perm in (([0, 1, 2], [2, 1, 0]) if (both_orders or not pr) else ([0, 1, 2],)):
                st = _setters(c)
                st = [st[i] for i in perm if i < len(st)]
                out.append(pr + st + [['G'], ['G'], ['W', 0], ['G'], ['P', 'base'], ['E', 'c1s', 'shared'], ['S', 0], ['G'], ['W', 0]])
    return out


SLOT_WBS = ['base', 'twin', 'unsafe', 'malformed', 'uni']


def _slot_histories(wbs):
    """the workbook stored at one path is replaced and the same path is set again"""
    out = []
    for a in wbs:
        for b in wbs:
            if a == b:
                continue
            for e in (None, 'c1s', 'ob1', 'g1'):
                for sf in (None, False):
                    st = _setters((None, e, sf))
                    for last in (['G'], ['W', 0]):
                        out.append([['C', a], ['P', 'slot']] + st + [['G'], ['C', b], ['P', 'slot'], last, ['G']])
                        out.append(st + [['C', a], ['P', 'slot'], ['W', 0], ['C', b], ['P', 'slot'], last])
    return out


def _write_histories(table):
    out = []
    for c in _all_hist_configs():
        if c[1] not in (None, 'c1s', 'g1', 'k1', 'far') or c[0] in (None, 'missing', 'notzip'):
            continue
        if table.get(c)['k'] != 'text':
            continue
        st = _setters(c, 'fresh')
        out.append(st + [['G'], ['F', 0], ['W', 0], ['W', 0], ['G'], ['W', 1]])
        out.append(st + [['F', 0], ['W', 0], ['G'], ['P', 'twin' if c[0] != 'twin' else 'base'], ['W', 0], ['G']])
    return out


# ---- independent oracle for T itself
def _lookup(wb, eid, fam):
    """(title, col letters, row) the entry denotes in this workbook, or None when the sheet does not exist"""
    from openpyxl.utils import get_column_letter
    t, c, r = ENTRIES[eid][:3]
    if isinstance(t, int):
        if t >= len(ORDER[wb]):
            return None
        t = ORDER[wb][t]
    elif t not in ORDER[wb]:
        return None
    if isinstance(c, int):
        c = get_column_letter(c + 1)
    r = int(r) if isinstance(r, str) else r + 1
    return (t, c, r)


def _correspondence(table, fam, fails, stats):
    from excel2pycl import Executor, Cell
    all_markers = {m: (tag, k) for tag, (_, _, mk) in fam.items() for k, m in mk.items()}

    def fail(key, what, c):
        fails.setdefault(key, {'key': key, 'what': what, 'replay': {'kind': 'config', 'config': list(c), 'key': key}})

    for c in _all_hist_configs():
        wb, eid, safety = c
        o = table.get(c)
        stats['evaluations'] += 1
        if o['k'] == 'crash':
            fail('C09.reference.crash', f'{c}: {o["msg"][-200:]}', c)
            continue
        isa = lambda n: o['k'] == 'raise' and (o['cls'] == n or n in o['mro'])  # noqa
        cell = _lookup(wb, eid, fam) if (eid is not None and wb in fam) else None
        # which outcome the statement / the documented facade demands
        if wb is None:
            if not isa('E2PyclParserException'):
                fail('C09.correspondence.no_path_must_raise', f'{c}: {_short(o)}; no path set must raise E2PyclParserException', c)
            continue
        if wb in ('missing', 'notzip'):
            if o['k'] != 'raise':
                fail('C09.correspondence.unreadable_must_raise', f'{c}: {_short(o)}; unreadable workbook must raise', c)
            continue
        unsafe_on = wb == 'unsafe' and safety is True
        nosheet = eid is not None and cell is None
        bad = wb == 'malformed' and (eid is None or cell == ('S', 'C', 2))
        if safety is None:
            # the default must be one of the two settings
            if not (_same(o, table.get((wb, eid, True))) or _same(o, table.get((wb, eid, False)))):
                fail('C09.correspondence.default_safety', f'{c}: {_short(o)} equals neither the enabled nor the disabled outcome', c)
            continue
        if unsafe_on or nosheet or bad:
            want = 'E2PyclException' if (unsafe_on + nosheet + bad) > 1 else 'E2PyclSafetyException' if unsafe_on else \
                'E2PyclException' if nosheet else 'E2PyclParserException'
            if not isa(want):
                fail('C09.correspondence.must_raise.' + ('safety' if unsafe_on else 'entry' if nosheet else 'formula'),
                     f'{c}: {_short(o)}; expected a raise of {want}', c)
            elif bad and not unsafe_on and not nosheet and isa('E2PyclSafetyException'):
                fail('C09.correspondence.safety_raise_with_safe_workbook', f'{c}: {_short(o)}', c)
            continue
        if o['k'] != 'text':
            fail('C09.correspondence.must_translate', f'{c}: {_short(o)}; expected a text (safe or safety disabled, entry exists, its formulas are well-formed)', c)
            continue
        text = o['text']
        _, vals, mk = fam[wb]
        # markers: every planted text of this workbook inside the translated part occurs, nothing else does
        inside = set(mk) if eid is None else set(CLOSURE.get(cell, []))
        for m, (tag, k) in all_markers.items():
            should = tag == wb and k in inside
            probe = m.split(' ')[0]
            if (probe in text) != should:
                fail('C09.correspondence.marker.' + ('missing' if should else 'foreign' if tag != wb else 'outside_entry_closure'),
                     f'{c}: planted text {probe!r} of workbook {tag} cell {k} {"does not occur" if should else "occurs"} in the translation', c)
        # values: the executed text yields the planted values
        cls = lib.call_catch(lib.load_class_from_text, text)
        if isinstance(cls, codec.Raised):
            fail('C09.correspondence.text_not_loadable', f'{c}: {cls!r}', c)
            continue
        ex = Executor().set_executed_class(class_object=cls)
        targets = [cell] if eid is not None else sorted(vals)
        for (t, col, row) in targets:
            got = lib.call_catch(ex.get_cell, Cell(t, col, str(row)))
            got = got if isinstance(got, codec.Raised) else got.value
            want = vals.get((t, col, row), BLANK)
            stats['evaluations'] += 1
            good = isinstance(got, cls.EmptyCell) if want == BLANK else (type(got) is type(want) and got == want)
            if not good:
                fail('C09.correspondence.value.' + ('entry' if eid is not None else 'whole_file'),
                     f'{c}: executing the text gives {t}!{col}{row} = {got!r}, the workbook holds {want!r}', c)
    # the same cell named in different ways -> the same text
    for wb in ('base', 'twin', 'unsafe'):
        for s in (True, False):
            a = table.get((wb, 'c1s', s))
            for other in ('c1i', 'valued'):
                stats['evaluations'] += 1
                if not _same(a, table.get((wb, other, s))):
                    fail('C09.correspondence.same_cell_same_text.' + other,
                         f'({wb}, safety={s}): entry {ENTRIES["c1s"]} -> {_short(a)} but entry {ENTRIES[other]} -> {_short(table.get((wb, other, s)))}', (wb, other, s))
    # different workbooks / entries -> different texts
    seen = {}
    for c in _all_hist_configs():
        o = table.get(c)
        if o['k'] == 'text' and c[2] is False and c[1] not in ('c1i', 'valued'):
            cell = _lookup(c[0], c[1], fam) if c[1] else None
            sig = (c[0], cell)
            stats['evaluations'] += 1
            if o['sha'] in seen and seen[o['sha']] != sig:
                fail('C09.correspondence.distinct_settings_same_text', f'{c} and {seen[o["sha"]]} give the same text', c)
            seen.setdefault(o['sha'], sig)


def _det_configs(wide):
    cfgs = [(w, e, False) for w in ('base', 'twin', 'unsafe', 'uni') for e in (None, 'c1s', 'd1', 'ob1', 'g1')]
    cfgs += [('uni', 'k1', False), ('unsafe', None, True), ('malformed', None, False), ('malformed', 'ob1', None), ('corpus', None, False),
             ('corpus', None, None)] + [('corpus', f'z{i}', False) for i in (1, 13, 26, 41, 61, 63, 71, 73)]
    if wide:
        cfgs += [('wide', None, False)]
    return cfgs


def _pc(paths, c, slot=None):
    if isinstance(c[0], str) and c[0].startswith('slot:'):
        return [{'copy': paths[c[0][5:]], 'to': slot or paths['slotseq']}, c[1], c[2]]
    return [paths[c[0]] if c[0] is not None else None, c[1], c[2]]


def _seq_jobs(paths, seqs, d):
    return [{'job': 'configs', 'configs': [_pc(paths, c, os.path.join(d, f'slotseq_{next(_SERIAL)}.xlsx')) for c in s]} for s in seqs]


def _check(name, bound, rule, exhaustive, evals, distinct, fails, samples, t0):
    return {'name': name, 'bound': bound, 'rule': rule, 'exhaustive': exhaustive, 'evaluations': evals, 'distinct_nontrivial': distinct,
            'failures': list(fails.values())[:25], 'samples': samples[:3], 'seconds': round(time.time() - t0, 2)}


def run(tier='quick', seed=0):
    thorough = tier == 'thorough'
    rng = random.Random(seed)
    checks = []
    with lib.scratch() as d:
        _snapshot(d)
        paths = _build(d, wide=True)
        fam = _family_specs()
        table = Table(paths)

        # ---------------- reference table + independent oracle for it
        t0 = time.time()
        table.need(_all_hist_configs())
        fails, stats = {}, {'evaluations': 0}
        _correspondence(table, fam, fails, stats)
        nconf = len(_all_hist_configs())
        checks.append(_check(
            'C09.monitor.correspondence',
            f'{nconf} settings = ({len(HIST_WBS)} paths: 5 workbooks sharing formula text at equal positions with different constants / sheet '
            f'orders / unicode titles, one with a python-like text, one with a malformed formula; a missing file; a non-workbook file; '
            f'no path) x (no entry + {len(HIST_ENTRIES)} entry cells: letters and 0-based forms, pre-valued Cell, cross-sheet, beyond the '
            'used range (AAA1500), unknown sheet) x safety (default, enabled, disabled); each translated by a fresh parser in its own process',
            'one evaluation = one setting judged against the planted contents (must raise / must translate; planted texts inside resp. '
            'outside the translated part; value of the entry cell or of every cell when the text is executed; same cell named '
            'differently gives the same text; different cells / workbooks give different texts)',
            True, stats['evaluations'], nconf, fails,
            [{'config': list(c), 'outcome': _short(table.get(c))} for c in [('base', 'c1s', True), ('unsafe', None, True), ('twin', 'ob1', False)]], t0))

        # ---------------- facade histories
        t0 = time.time()
        lens = [5, 5, 4, 4, 4, 5] if thorough else [4, 3, 3, 3, 3, 3]
        hs = _exhaustive_histories(lens)
        checks.append(_sweep(
            'C09.monitor.history_exhaustive', hs, paths, d, table,
            f'{len(SETUPS)} set-up prefixes (fresh parser; cached unsafe text with safety off; cached entry translation; cached with '
            f'entry+safety on; a raise with nothing cached; cached text then a raise on a missing file) x every sequence of 1..n calls, n = {lens} per prefix, '
            f'over {_fmt(ALPHA)} that ends in get or write = {len(hs)} histories on one Parser each (entry Cell objects re-used across workbooks)',
            'one evaluation = one get / write compared with a fresh parser in a fresh process configured with the settings in force '
            '(text sha256 or class+message of the raise; a write: sha256 of the file bytes; a repeated call also against the previous '
            'call). distinct = distinct (previous settings, setters since, settings, call) with a cached result present. Every order of '
            'the three setters, enable twice, raise-then-repeat are members of the scope', True, t0))
        t0 = time.time()
        hs = _sampled_histories(rng, 40000 if thorough else 2000)
        checks.append(_sweep(
            'C09.monitor.history_sampled', hs, paths, d, table,
            f'{len(hs)} seeded random histories of 4..10 calls over {len(HIST_WBS) + 1} paths (incl. malformed formula, unicode, missing, not a '
            f'workbook, none) x {len(HIST_ENTRIES)} entry cells (shared or fresh Cell object) x enable/disable x get x write to 2 files',
            'as history_exhaustive', False, t0))
        t0 = time.time()
        hs = _raise_histories(table, thorough)
        checks.append(_sweep(
            'C09.monitor.raise_then_repeat', hs, paths, d, table,
            f'every raising setting (unsafe+safety, missing file, not a workbook, malformed formula, unknown sheet, no path; entries none/c1s/'
            f'nosheet/c2/ob1) x 3 earlier states (fresh, cached whole-file text, cached entry text) x setter orders (both; quick: both only from fresh) = {len(hs)} histories: '
            'reach it, get, get, write, get, then set path+entry+safety to a good setting, get, write',
            'as history_exhaustive', True, t0))
        t0 = time.time()
        hs = _write_histories(table)
        checks.append(_sweep(
            'C09.monitor.written_file', hs, paths, d, table,
            f'every translating setting of 5 workbooks (incl. non-ASCII titles/texts, quotes, newlines, braces) x entries none/c1s/g1/k1/far x '
            f'safety = {len(hs)} histories: get, write over a 280 kB older file, write again, get, write to a second file; and write first, '
            'get, change the path, write, get',
            'one evaluation = file bytes (sha256) == utf-8 bytes of the reference text == returned text', True, t0))

        t0 = time.time()
        swbs = SLOT_WBS if thorough else ['base', 'twin', 'unsafe']
        hs = _slot_histories(swbs)
        checks.append(_sweep(
            'C09.monitor.same_path_new_workbook', hs, paths, d, table,
            f'every ordered pair of {len(swbs)} workbooks x entries none/c1s/ob1/g1 x safety default/off x get/write x 2 shapes = {len(hs)} histories: '
            'store workbook a at a path, set the path, get (or write), store workbook b at the same path, set the same path again, get / write',
            'as history_exhaustive (the setting "path" denotes the workbook stored there when the path was last set; calls made after the '
            'file was replaced without setting the path again are not judged)', True, t0))

        # ---------------- hash seeds / fresh processes
        t0 = time.time()
        cfgs = _det_configs(True)
        table.need(cfgs)
        seeds = [rng.randrange(1, 2 ** 32 - 1) for _ in range(40 if thorough else 5)] + [1, 2, 3]
        orders = []
        for s in seeds:
            o = list(cfgs)
            random.Random(s).shuffle(o)
            orders.append(o)
        res = _spawn_many(_seq_jobs(paths, orders, d), seeds)
        fails, n = {}, 0
        for s, o, r in zip(seeds, orders, res):
            if isinstance(r, dict):
                fails.setdefault('C09.hashseed.crash', {'key': 'C09.hashseed.crash', 'what': r['crash'][-300:], 'replay': None})
                continue
            for c, got in zip(o, r):
                n += 1
                if not _same(got, table.get(c)):
                    k = 'C09.hashseed.' + ('text' if got['k'] == 'text' else 'outcome')
                    if k in fails or 'C09.process_history.in_hashseed_sweep' in fails:
                        continue
                    seq = o[:o.index(c) + 1]
                    # the same sequence with hash seed 0: is it the seed or the earlier translations of the process?
                    r0 = _spawn(_seq_jobs(paths, [seq], d)[0], 0)
                    if isinstance(r0, dict) or not _same(r0[-1], table.get(c)):
                        k, s_used = 'C09.process_history.in_hashseed_sweep', 0
                        seq = [tuple(x) for x in _min_sequence(seq, paths, table)]
                    else:
                        s_used = s
                        alone = _spawn(_seq_jobs(paths, [[c]], d)[0], s)
                        if not isinstance(alone, dict) and not _same(alone[-1], table.get(c)):
                            seq = [c]
                    fails[k] = {'key': k, 'what': f'PYTHONHASHSEED={s_used}, translations of one process {[list(x) for x in seq]}: last -> {_short(got)}; '
                                f'alone with seed 0 gives {_short(table.get(c))}',
                                'replay': {'kind': 'sequence', 'configs': [list(x) for x in seq], 'hashseed': s_used, 'key': k}}
        checks.append(_check(
            'C09.monitor.hashseed_process',
            f'{len(cfgs)} settings (4 small workbooks x 5 entries, corpus workbook with {len(CORPUS)} formulas over every function family / '
            'literal / reference form incl. duplicates of one formula text on 3 sheets, 8 entry cells of it, a 1200-row / 16384-column '
            f'workbook, raising settings) x {len(seeds)} PYTHONHASHSEED values, each in a fresh process, in a seed-shuffled order',
            'one evaluation = sha256 of the text (or class+message of the raise) == the one from a fresh process with hash seed 0',
            False, n, len(cfgs), fails, [{'seed': seeds[0], 'config': list(orders[0][0]), 'outcome': _short(res[0][0]) if not isinstance(res[0], dict) else 'crash'}], t0))

        # ---------------- earlier translations in the same process
        t0 = time.time()
        wbs = ['base', 'twin', 'malformed', 'uni'] + (['unsafe', 'corpus'] if thorough else [])
        per = lambda w: [(w, None, False), (w, 'd1', False), (w, 'ob1', None)] if w != 'corpus' else [(w, None, False), (w, 'z61', False), (w, 'z13', False)]  # noqa
        seqs = [[c for w in p for c in per(w)] for p in itertools.permutations(wbs)]
        # repeated blocks: A B A
        seqs += [per(a) + per(b) + per(a) for a in wbs for b in wbs if a != b]
        # one path whose workbook is replaced between two translations (new Parser each)
        seqs += [[('slot:' + a, e, False), ('slot:' + b, e, False), ('slot:' + a, e, False)] for a in swbs for b in swbs if a != b
                 for e in ((None, 'ob1') if thorough else (None,))]
        table.need({c for s in seqs for c in s})
        res = _spawn_many(_seq_jobs(paths, seqs, d))
        fails, n = {}, 0
        for s, r in zip(seqs, res):
            if isinstance(r, dict):
                fails.setdefault('C09.process_history.crash', {'key': 'C09.process_history.crash', 'what': r['crash'][-300:], 'replay': None})
                continue
            for i, (c, got) in enumerate(zip(s, r)):
                n += 1
                if not _same(got, table.get(c)):
                    k = 'C09.process_history.' + ('text' if got['k'] == 'text' and table.get(c)['k'] == 'text' else 'outcome')
                    if k not in fails or len(fails[k]['replay']['configs']) > i + 1:
                        fails[k] = {'key': k, 'what': f'after translating {[x[0] + "/" + str(x[1]) for x in s[:i]]} in the same process: {c} -> '
                                    f'{_short(got)}; fresh process gives {_short(table.get(c))}',
                                    'replay': {'kind': 'sequence', 'configs': [list(x) for x in s[:i + 1]], 'hashseed': 0, 'key': k}}
        for k, f in list(fails.items()):
            if f['replay']:
                f['replay']['configs'] = _min_sequence(f['replay']['configs'], paths, table)
                f['what'] += f' | minimal: {f["replay"]["configs"]}'
        checks.append(_check(
            'C09.monitor.process_history',
            f'all {len(list(itertools.permutations(wbs)))} orders of {wbs} (3 settings each: whole file, cross-sheet entry, entry on a sheet whose '
            f'index differs between workbooks) + all A,B,A blocks + (workbook a, b, a stored at one path) for all pairs of {len(swbs)} workbooks x {2 if thorough else 1} entries = {len(seqs)} processes, each translating its '
            'sequence with a new Parser per setting',
            'one evaluation = outcome of the i-th translation in the process == outcome of the same setting in a fresh process',
            True, n, len(seqs), fails, [{'sequence': [list(c) for c in seqs[0][:4]]}], t0))

        # ---------------- concurrent translations
        t0 = time.time()
        tc = [('base', None, False), ('twin', None, False), ('uni', 'k1', False), ('twin', 'ob1', False), ('base', 'ob1', False),
              ('malformed', None, False), ('unsafe', None, True), ('corpus', None, False)]
        table.need(tc)
        jobs, metas = [], []
        nthreads = 8 if thorough else 4
        for rep in range(12 if thorough else 3):
            for warm in (False, True):
                r2 = random.Random(seed * 1000 + rep)
                plans = [[r2.choice(tc) for _ in range(4)] for _ in range(nthreads)]
                plans[1] = list(plans[0])            # two threads translate the same settings
                jobs.append({'job': 'threads', 'plans': [[_pc(paths, c) for c in pl] for pl in plans], 'rounds': 3 if thorough else 2,
                             'warm': warm, 'switch': [1e-5, 1e-6, 1e-4][rep % 3]})
                metas.append(plans)
        res = _spawn_many(jobs)
        fails, n = {}, 0
        for job, plans, r in zip(jobs, metas, res):
            if isinstance(r, dict):
                fails.setdefault('C09.threads.crash', {'key': 'C09.threads.crash', 'what': r['crash'][-300:], 'replay': None})
                continue
            for pl, outs in zip(plans, r):
                for j, got in enumerate(outs):
                    n += 1
                    c = pl[j % len(pl)]
                    if not _same(got, table.get(c)):
                        k = 'C09.threads.' + ('cold' if not job['warm'] else 'warm')
                        if k in fails or 'C09.process_history.in_thread_sweep' in fails:
                            continue
                        ctrl = _spawn({**job, 'sequential': True})
                        if isinstance(ctrl, dict) or any(not _same(g2, table.get(p2[j2 % len(p2)])) for p2, o2 in zip(plans, ctrl)
                                                         for j2, g2 in enumerate(o2)):
                            k = 'C09.process_history.in_thread_sweep'      # also without threads: not a concurrency effect
                        fails.setdefault(k, {'key': k, 'what': f'{len(plans)} threads: {c} -> {_short(got)}; alone gives {_short(table.get(c))}',
                                             'replay': {'kind': 'threads', 'plans': [[list(x) for x in p] for p in plans], 'rounds': job['rounds'],
                                                        'warm': job['warm'], 'switch': job['switch'], 'sequential': k.startswith('C09.process')}})
        checks.append(_check(
            'C09.monitor.threads',
            f'{len(jobs)} processes (first translation of the process inside the threads / after a warm-up; switch interval 1e-4..1e-6 s; hash '
            f'seed 0) x {nthreads} threads released by a barrier x {jobs[0]["rounds"]} rounds x 4 settings out of {len(tc)} (two threads share a plan)',
            'one evaluation = outcome inside a thread == outcome of the setting alone in a fresh process. Smoke test only: the interleavings '
            'reached are whatever the scheduler produced', False, n, len(jobs), fails, [{'plans': [[list(c) for c in p] for p in metas[0][:2]]}], t0))
    return {'checks': checks}


def _min_sequence(cfgs, paths, table):
    """shortest sub-sequence (keeping the last element) whose last translation still differs from the fresh one"""
    cur = [tuple(c) for c in cfgs]

    def bad(seq):
        r = _spawn({'job': 'configs', 'configs': [_pc(paths, c, paths['slotseq'] + f'.{next(_SERIAL)}.xlsx') for c in seq]})
        return isinstance(r, dict) or not _same(r[-1], table.get(seq[-1]))
    changed, budget = True, 20
    while changed and budget > 0:
        changed = False
        for i in range(len(cur) - 1):
            budget -= 1
            cand = cur[:i] + cur[i + 1:]
            if bad(cand):
                cur, changed = cand, True
                break
            if budget <= 0:
                break
    return [list(c) for c in cur]


# ------------------------------------------------------------------------------------------------ replay
def replay(payload):
    if not payload:
        return {'fails': False, 'text': 'nothing to replay'}
    k = payload.get('kind')
    with lib.scratch() as d:
        _snapshot(d)
        paths = _build(d, wide=True)
        table = Table(paths)
        if k == 'history':
            h = [list(o) for o in payload['ops']]
            v = _single(h, paths, d, table)
            return {'fails': v is not None, 'text': v[2] if v else f'history {_fmt(h)}: every observation equals the fresh parser'}
        if k == 'chunk':
            hs = [[list(o) for o in h] for h in payload['histories']]
            table.need({c for h in hs for c in _states_of(h)})
            obs, _ = _run_histories([_norm_hist(h) for h in hs], paths, d, chunk=len(hs))
            v = _judge(hs[-1], obs[-1], table)[0]
            return {'fails': v is not None, 'text': (v[2] if v else 'last history agrees') + f' (after {len(hs) - 1} earlier histories in the process)'}
        if k == 'config':
            fam = _family_specs()
            fails, stats = {}, {'evaluations': 0}
            table.need(_all_hist_configs())
            _correspondence(table, fam, fails, stats)
            f = fails.get(payload['key'])
            return {'fails': f is not None, 'text': f['what'] if f else f'{payload["key"]}: holds for every setting'}
        if k == 'sequence':
            cfgs = [tuple(c) for c in payload['configs']]
            table.need(cfgs[-1:])
            r = _spawn({'job': 'configs', 'configs': [_pc(paths, c) for c in cfgs]}, payload.get('hashseed', 0))
            if isinstance(r, dict):
                return {'fails': True, 'text': 'child crashed: ' + r['crash'][-300:]}
            e = table.get(cfgs[-1])
            return {'fails': not _same(r[-1], e), 'text': f'hash seed {payload.get("hashseed", 0)}, sequence {cfgs}: last -> {_short(r[-1])}; '
                    f'fresh process with hash seed 0 -> {_short(e)}'}
        if k == 'threads':
            plans = [[tuple(c) for c in p] for p in payload['plans']]
            bad = []
            for _ in range(3):
                r = _spawn({'job': 'threads', 'plans': [[_pc(paths, c) for c in p] for p in plans], 'rounds': payload['rounds'],
                            'warm': payload['warm'], 'switch': payload['switch'], 'sequential': payload.get('sequential', False)})
                if isinstance(r, dict):
                    return {'fails': True, 'text': 'child crashed: ' + r['crash'][-300:]}
                for pl, outs in zip(plans, r):
                    for j, got in enumerate(outs):
                        if not _same(got, table.get(pl[j % len(pl)])):
                            bad.append(f'{pl[j % len(pl)]} -> {_short(got)}')
            return {'fails': bool(bad), 'text': f'{len(plans)} threads, 3 attempts: ' + ('; '.join(bad[:3]) if bad else 'all outcomes equal the single-threaded ones')}
    return {'fails': False, 'text': 'nothing to replay'}
