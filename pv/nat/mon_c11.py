"""K4 bounded monitor for C11 (aggregates fold exactly the numeric cells of their arguments).
Runs under /venv/bin/python on the real code.

Contract monitored (written from the property statement, not from the library):
  numeric cell      = a cell whose content is a number (int / float, not TRUE/FALSE); text, numeric text, booleans,
                      blanks (and, in this reading, dates - see key C11.COUNT.date) inside areas are ignored
  SUM/COUNT         = sum / number of the numeric cells, every cell once per mention, numeric scalar arguments included
  AVERAGE/MIN/MAX   = mean / least / greatest of the same cells (no clause when there is none)
  COUNTBLANK        = number of blank and empty-text cells
  AND/OR            = conjunction / disjunction of the truth values (booleans, numbers <> 0) of the arguments
                      (no clause when an argument cell has no truth value: text, blank, date)
  SPLIT             = F(X,Y) folds X ++ Y, SUM(X,Y) = SUM(X)+SUM(Y)
observed where the property says: the value of the aggregate formula through Parser -> generated class -> Executor
(cell constants, never written cells, overrides by Executor.set_cells, whole-file and entry-point translation) and on
the helper functions of both runtime copies."""
import datetime
import itertools
import math
import os
import random
import re
import time
from fractions import Fraction
from multiprocessing import Pool

from pv import codec
from pv.nat import lib

FNS = ['SUM', 'AVERAGE', 'MIN', 'MAX', 'COUNT', 'COUNTBLANK', 'AND', 'OR']
NUMFNS = ['SUM', 'AVERAGE', 'MIN', 'MAX', 'COUNT']
BLANK = codec.EmptyStandIn()
NPROC = 16


# ------------------------------------------------------------------ specification (oracle)
def is_blank(v):
    return isinstance(v, codec.EmptyStandIn)


def is_number(v):
    return type(v) in (int, float)


def kind_of(v):
    if is_blank(v):
        return 'blank'
    if isinstance(v, bool):
        return 'bool'
    if isinstance(v, int):
        return 'neg' if v < 0 else 'int'
    if isinstance(v, float):
        return 'neg' if v < 0 else 'float'
    if isinstance(v, str):
        if v == '':
            return 'emptytext'
        try:
            float(v)
            return 'numtext'
        except ValueError:
            return 'text'
    return 'date'


def spec(fn, cells, scalars=(), dates_numeric=False):
    """Expected value of fn over `cells` (contents of the area cells, once per mention) and numeric `scalars`.
    None = the statement has no clause.  Result {'t': 'tol'|'exact'|'bool', 'v': Fraction|bool, 'tol': Fraction}."""
    if fn in ('AND', 'OR'):
        truth = []
        for v in list(cells) + list(scalars):
            if isinstance(v, bool):
                truth.append(v)
            elif is_number(v):
                truth.append(v != 0)
            else:
                return None
        if not truth:
            return None
        return {'t': 'bool', 'v': all(truth) if fn == 'AND' else any(truth)}
    if fn == 'COUNTBLANK':
        return {'t': 'exact', 'v': Fraction(sum(1 for v in cells if is_blank(v) or (isinstance(v, str) and v == '')))}
    nums = [Fraction(v) for v in list(cells) + list(scalars) if is_number(v)]
    if fn == 'COUNT':
        n = len(nums)
        if dates_numeric:
            n += sum(1 for v in cells if isinstance(v, datetime.date))
        return {'t': 'exact', 'v': Fraction(n)}
    if fn == 'SUM':
        exact = all(type(v) is int for v in list(cells) + list(scalars) if is_number(v))
        return {'t': 'exact' if exact else 'tol', 'v': sum(nums, Fraction(0)),
                'tol': Fraction(1, 10 ** 11) * max(1, sum((abs(x) for x in nums), Fraction(0)))}
    if not nums:
        return None
    if fn == 'AVERAGE':
        return {'t': 'tol', 'v': sum(nums, Fraction(0)) / len(nums),
                'tol': Fraction(1, 10 ** 11) * max(1, max(abs(x) for x in nums))}
    if fn == 'MIN':
        return {'t': 'exact', 'v': min(nums)}
    if fn == 'MAX':
        return {'t': 'exact', 'v': max(nums)}
    raise ValueError(fn)


def judge(exp, got):
    if isinstance(got, codec.Raised):
        return False
    if exp['t'] == 'bool':
        return type(got) is bool and got == exp['v']
    if type(got) not in (int, float):
        return False
    if isinstance(got, float) and not math.isfinite(got):
        return False
    if exp['t'] == 'exact':
        return Fraction(got) == exp['v']
    return abs(Fraction(got) - exp['v']) <= exp['tol']


def show_exp(exp):
    if exp is None:
        return 'no clause'
    if exp['t'] == 'bool':
        return repr(exp['v'])
    v = exp['v']
    return str(v.numerator) if v.denominator == 1 else repr(float(v))


def show(v):
    if is_blank(v):
        return 'blank'
    if type(v).__name__ == 'EmptyCell':
        return 'EmptyCell()'
    return repr(v)[:80]


def enc(v):
    return codec.enc(v)


def dec(j):
    return codec.dec(j)


def col_index(letters):
    from openpyxl.utils import column_index_from_string
    return column_index_from_string(letters) - 1


def col_letters(index0):
    from openpyxl.utils import get_column_letter
    return get_column_letter(index0 + 1)


# ------------------------------------------------------------------ workbook under test
class Book:
    """Workbook spec + formulas -> real Parser -> real Executor.  Whole-file translation; when that fails (one
    formula that cannot be translated takes the whole file with it) every formula is translated on its own with
    set_entrypoint_cell, so that the other formulas are still observed."""

    def __init__(self, sheets, formulas, tmpdir, name='wb.xlsx', force_entry=False, entry_cap=400):
        from excel2pycl import Executor
        self.spec = {'sheets': [{'title': s['title'], 'cells': list(s.get('cells', []))} for s in sheets]}
        for (si, c, r, text) in formulas:
            self.spec['sheets'][si]['cells'].append([c, r, text])
        self.addr = [(si, col_index(c) if isinstance(c, str) else c - 1, r - 1) for (si, c, r, _) in formulas]
        self.single = None
        self.execs = None
        self.file_error = None
        self.path = os.path.join(tmpdir, name)
        if not force_entry:
            p = lib.Pipe(self.spec, tmpdir, name=name)
            if p.error is None:
                self.single = (p.executor, p.cls)
            else:
                self.file_error = p.error
        else:
            lib.write_workbook(self.spec, self.path)
        if self.single is None:
            self.execs = []
            for k, a in enumerate(self.addr):
                if k >= entry_cap:
                    self.execs.append(codec.Raised('Skipped', 'entry cap'))
                    continue
                t = lib.translate(self.path, entry=a)
                if not isinstance(t, codec.Raised):
                    t = lib.call_catch(lib.load_class_from_text, t)
                if isinstance(t, codec.Raised):
                    self.execs.append(t)
                else:
                    self.execs.append((Executor().set_executed_class(class_object=t), t))

    @property
    def mode(self):
        return 'file' if self.single is not None else 'entry'

    def _targets(self):
        if self.single is not None:
            return [self.single]
        return [e for e in self.execs if not isinstance(e, codec.Raised)]

    def set(self, cells):
        """cells: [(sheet index, column 0-based, row 0-based, model value)]"""
        from excel2pycl import Cell
        for ex, cls in self._targets():
            ex.set_cells([Cell(s, c, r, cls.EmptyCell() if is_blank(v) else v) for (s, c, r, v) in cells])

    def value(self, k):
        from excel2pycl import Cell
        t = self.single if self.single is not None else self.execs[k]
        if isinstance(t, codec.Raised):
            return t
        r = lib.call_catch(t[0].get_cell, Cell(*self.addr[k]))
        return r if isinstance(r, codec.Raised) else r.value


def replay_book(payload):
    """Generic replay: {'sheets', 'formula': [si, col, row, text], 'overrides': [[si, c0, r0, enc]], 'exp', 'entry'}"""
    with lib.scratch() as d:
        f = payload['formula']
        b = Book(payload['sheets'], [tuple(f)], d, force_entry=bool(payload.get('entry')))
        for step in payload.get('overrides') or []:
            b.set([(s, c, r, dec(v)) for (s, c, r, v) in step])
            if payload.get('read_between'):
                b.value(0)
        got = b.value(0)
        exp = dec_exp(payload['exp'])
        return {'fails': not judge(exp, got),
                'text': f'{f[3]} at sheet {f[0]} {f[1]}{f[2]} ({b.mode} translation'
                        f'{", file error " + repr(b.file_error) if b.file_error else ""}) -> {show(got)}; expected {show_exp(exp)}'}


def enc_exp(exp):
    if exp['t'] == 'bool':
        return {'t': 'bool', 'v': exp['v']}
    out = {'t': exp['t'], 'v': [str(exp['v'].numerator), str(exp['v'].denominator)]}
    if 'tol' in exp:
        out['tol'] = [str(exp['tol'].numerator), str(exp['tol'].denominator)]
    return out


def dec_exp(j):
    if j['t'] == 'bool':
        return dict(j)
    out = {'t': j['t'], 'v': Fraction(int(j['v'][0]), int(j['v'][1]))}
    if 'tol' in j:
        out['tol'] = Fraction(int(j['tol'][0]), int(j['tol'][1]))
    return out


def dedupe(fails, cap=25):
    seen, out = set(), []
    for f in fails:
        if f['key'] not in seen:
            seen.add(f['key'])
            out.append(f)
    return out[:cap]


# ------------------------------------------------------------------ content alphabet
POOLS = {
    'I': [4, 0, 1, 2, 7, 100, 65536, 9007199254740993],
    'F': [6.5, 0.5, 1.5, 2.0, 0.1, 0.0, 1e-9, 123456.789, 1e15 + 0.5],
    'N': [-8, -1, -868, -0.5, -2.5, -1000000.0],
    'T': ['text', 'a', ' ', 'TRUE', 'N/A', '1e', 'x1', 'Ünï', 'long text ' * 7],
    'E': [''],
    'S': ['12', '-5', '1.5', '0', '007'],
    'Y': [True],
    'Z': [False],
    'B': [BLANK],
    'D': [datetime.datetime(2020, 1, 2), datetime.datetime(1900, 1, 1), datetime.datetime(2051, 6, 30, 12, 30),
          datetime.datetime(2024, 2, 29)],
}
SYMS = 'BIFNTESYZD'


def pick(sym, rng):
    """rng None = the canonical representative."""
    pool = POOLS[sym]
    return pool[0] if rng is None else pool[rng.randrange(len(pool))]


def sym_vectors(n, syms=SYMS):
    """all symbol vectors of length n, fewest non-blank cells first (so the first failure of a kind is minimal)"""
    vs = list(itertools.product(syms, repeat=n))
    vs.sort(key=lambda t: (sum(1 for s in t if s != 'B'), [syms.index(s) for s in t]))
    return vs


# ------------------------------------------------------------------ grid book: content supplied by overrides
# one vector v[0..3] is placed, at the same time, as a column (S!A2:A5), a row (S!C8:F8), a rectangle (S!C10:D11,
# row-major), a column on another sheet (T!B2:B5) and a rectangle on a sheet with a quoted title ('My Sheet'!C3:D4);
# T!A2:A5 holds the fixed partner vector U (cell constants), T!C8:F8 is never written.
G_PLACES = [
    [(0, 'A', 2), (0, 'A', 3), (0, 'A', 4), (0, 'A', 5)],
    [(0, 'C', 8), (0, 'D', 8), (0, 'E', 8), (0, 'F', 8)],
    [(0, 'C', 10), (0, 'D', 10), (0, 'C', 11), (0, 'D', 11)],
    [(1, 'B', 2), (1, 'B', 3), (1, 'B', 4), (1, 'B', 5)],
    [(2, 'C', 3), (2, 'D', 3), (2, 'C', 4), (2, 'D', 4)],
]
G_U = [1000, 2000.5, -3, 0]
G_TITLES = ['S', 'T', 'My Sheet']
ADDITIVE = ('SUM', 'COUNT', 'COUNTBLANK')
B4 = [BLANK] * 4


def M_V(v, u):
    return v


def M_U(v, u):
    return u


def M_VV(v, u):
    return v + v


def M_VVV(v, u):
    return v * 3


def M_VU(v, u):
    return v + u


def M_B4(v, u):
    return B4


def M_INNER(v, u):
    return v[1:3]


def M_OVER(v, u):
    return v[0:3] + v[1:4]


def M_PERM(v, u):
    return [v[0], v[2], v[1], v[3]]


# (form name, sheet of the formula, template, mention list from (v, u), functions, category)
G_FORMS = [
    ('col', 0, '{F}(A2:A5)', M_V, FNS, 'fold'),
    ('row', 0, '{F}(C8:F8)', M_V, FNS, 'fold'),
    ('rect', 0, '{F}(C10:D11)', M_V, FNS, 'fold'),
    ('othersheet', 0, '{F}(T!B2:B5)', M_V, FNS, 'fold'),
    ('quotedsheet', 0, "{F}('My Sheet'!C3:D4)", M_V, FNS, 'fold'),
    ('wholecol', 0, '{F}(A:A)', M_V, NUMFNS, 'fold'),
    ('wholecol_other', 0, '{F}(T!B:B)', M_V, NUMFNS, 'fold'),
    ('inner', 0, '{F}(A3:A4)', M_INNER, FNS, 'fold'),
    ('absolute', 0, '{F}($A$2:$A$5)', M_V, FNS, 'fold'),
    ('mixedabs', 0, '{F}(A$2:$A5)', M_V, FNS, 'fold'),
    ('cells', 0, '{F}(A2,A3,A4,A5)', M_V, FNS, 'fold'),
    ('partner', 0, '{F}(T!A2:A5)', M_U, FNS, 'sheets'),
    ('T.same_text', 1, '{F}(A2:A5)', M_U, FNS, 'sheets'),
    ('T.own', 1, '{F}(B2:B5)', M_V, FNS, 'sheets'),
    ('T.to_S', 1, '{F}(S!A2:A5)', M_V, FNS, 'sheets'),
    ('T.row_text', 1, '{F}(C8:F8)', M_B4, FNS, 'sheets'),
    ('Q.same_text', 2, '{F}(C10:D11)', M_B4, FNS, 'sheets'),
    ('Q.own', 2, '{F}(C3:D4)', M_V, FNS, 'sheets'),
    ('split22', 0, '{F}(A2:A3,A4:A5)', M_V, FNS, 'split'),
    ('split13', 0, '{F}(A2,A3:A5)', M_V, FNS, 'split'),
    ('split31', 0, '{F}(A2:A4,A5)', M_V, FNS, 'split'),
    ('rectcols', 0, '{F}(C10:C11,D10:D11)', M_PERM, FNS, 'split'),
    ('rectrows', 0, '{F}(C10:D10,C11:D11)', M_V, FNS, 'split'),
    ('rowsplit', 0, '{F}(C8:D8,E8:F8)', M_V, FNS, 'split'),
    ('twosheets', 0, '{F}(A2:A5,T!B2:B5)', M_VV, FNS, 'split'),
    ('twice', 0, '{F}(A2:A5,A2:A5)', M_VV, FNS, 'split'),
    ('overlap', 0, '{F}(A2:A4,A3:A5)', M_OVER, FNS, 'split'),
    ('three', 0, '{F}(A2:A5,C8:F8,C10:D11)', M_VVV, FNS, 'split'),
    ('withpartner', 0, '{F}(A2:A5,T!A2:A5)', M_VU, FNS, 'split'),
    ('add22', 0, '{F}(A2:A3)+{F}(A4:A5)', M_V, ADDITIVE, 'split'),
    ('add13', 0, '{F}(A2)+{F}(A3:A5)', M_V, ADDITIVE, 'split'),
    ('addsheets', 0, '{F}(A2:A5)+{F}(T!A2:A5)', M_VU, ADDITIVE, 'split'),
    ('addrect', 0, '{F}(C10:D10)+{F}(C11:D11)', M_V, ADDITIVE, 'split'),
]


# value vectors aimed at number representation: neighbours of 2^53 as int and float in both orders, int/float/bool of equal value,
# signed zero, smallest double, a last-bit neighbour, a sum beyond 2^64
EXPLICIT = [[9007199254740993, 9007199254740992.0, BLANK, BLANK], [9007199254740992.0, 9007199254740993, BLANK, BLANK],
            [-9007199254740993, -9007199254740992.0, BLANK, BLANK], [-9007199254740992.0, -9007199254740993, BLANK, BLANK],
            [2 ** 53, 2 ** 53 + 1, 2 ** 53 + 2, BLANK], [1, 1.0, True, BLANK], [True, 1.0, 1, 2], [0, 0.0, False, -0.0], [5e-324, BLANK, BLANK, BLANK],
            [-1, -1.0, BLANK, BLANK], [3, 3.0000000000000004, BLANK, BLANK], [3.0000000000000004, 3, BLANK, BLANK], [10 ** 20, 1, -1, 10 ** 20],
            [0.1, 0.2, 0.3, -0.6], [2, 2.5, -2.5, -2], [7, 7, 7, 7], [-0.0, BLANK, BLANK, BLANK], [1e-9, -1e-9, BLANK, BLANK]]


def grid_formulas():
    """[(sheet, col letters, row, text, fn, form index)]"""
    out, count = [], {0: 0, 1: 0, 2: 0}
    for fi, (name, sheet, tmpl, ment, fns, cat) in enumerate(G_FORMS):
        for fn in fns:
            k = count[sheet]
            count[sheet] += 1
            out.append((sheet, col_letters(7 + k % 14), 1 + k // 14, '=' + tmpl.replace('{F}', fn), fn, fi))
    return out


def grid_book(tmpdir, name='grid.xlsx'):
    sheets = [{'title': t, 'cells': []} for t in G_TITLES]
    for i, u in enumerate(G_U):
        sheets[1]['cells'].append(['A', 2 + i, enc(u)])
    fl = grid_formulas()
    return Book(sheets, [f[:4] for f in fl], tmpdir, name=name), fl


def grid_apply(book, vec):
    book.set([(s, col_index(c), r - 1, vec[i]) for place in G_PLACES for i, (s, c, r) in enumerate(place)])


def grid_category(fn, cat):
    if cat in ('split', 'sheets'):
        return cat
    if fn == 'COUNTBLANK':
        return 'countblank'
    if fn in ('AND', 'OR'):
        return 'andor'
    return 'fold'


def _contains(pattern, kinds):
    k = list(kinds)
    for p in pattern:
        if p in k:
            k.remove(p)
        else:
            return False
    return True


def _grid_worker(task):
    """task: {'vectors': [(sym...)], 'passes': [rng seed or None], 'wid': int}"""
    cpu0 = time.process_time()
    stats = {c: {'evaluations': 0, 'nontrivial': 0, 'fails': [], 'failing': 0, 'samples': []}
             for c in ('fold', 'countblank', 'andor', 'split', 'sheets')}
    known = {}          # (fn, form or '') -> list of minimal kind lists
    with lib.scratch() as d:
        book, fl = grid_book(d)
        if book.file_error is not None:
            stats['fold']['fails'].append({'key': 'C11.grid.translate', 'what': f'whole-file translation of the grid workbook failed: '
                                           f'{book.file_error!r}', 'replay': {'kind': 'gridtranslate'}})
        base_of = {}
        for k, f in enumerate(fl):
            if G_FORMS[f[5]][0] == 'col':
                base_of[f[4]] = k

        cache = {}

        def check(k, vec):
            f = fl[k]
            ment = G_FORMS[f[5]][3]
            ck = (f[4], ment.__name__, tuple(map(id, vec)))
            if ck not in cache:
                if len(cache) > 400:
                    cache.clear()
                cache[ck] = spec(f[4], ment(list(vec), G_U))
            exp = cache[ck]
            if exp is None:
                return None, None, True
            got = book.value(k)
            return exp, got, judge(exp, got)

        def minimise(k, vec):
            vec = list(vec)
            for i in range(4):
                if is_blank(vec[i]):
                    continue
                trial = vec[:i] + [BLANK] + vec[i + 1:]
                grid_apply(book, trial)
                exp, got, ok = check(k, trial)
                if exp is not None and not ok:
                    vec = trial
            grid_apply(book, vec)
            return vec

        def all_vectors():
            for vi, ev in enumerate(task.get('explicit', [])):
                yield vi, ev
            for seed, stride in task['passes']:
                for vi, sv in enumerate(task['vectors'][::stride]):
                    rng = None if seed is None else random.Random(f'{seed}/{"".join(sv)}')
                    yield vi, [pick(s, rng) for s in sv]

        for vi, vec in all_vectors():
            grid_apply(book, vec)
            for k, f in enumerate(fl):
                fn, form = f[4], G_FORMS[f[5]]
                cat = grid_category(fn, form[5])
                exp, got, ok = check(k, vec)
                if exp is None:
                    continue
                st = stats[cat]
                st['evaluations'] += 1
                if any(not is_blank(x) for x in vec):
                    st['nontrivial'] += 1
                if len(st['samples']) < 2 and vi % 7 == 3:
                    st['samples'].append({'formula': f[3], 'v': [show(x) for x in vec], 'value': show(got), 'expected': show_exp(exp)})
                if ok:
                    continue
                st['failing'] += 1
                kinds = sorted(kind_of(x) for x in vec if not is_blank(x))
                if any(_contains(p, kinds) for key in ((fn, ''), (fn, form[0])) for p in known.get(key, [])):
                    continue
                mv = minimise(k, vec)
                mexp, mgot, _ = check(k, mv)
                bexp, bgot, bok = check(base_of[fn], mv)
                specific = form[0] != 'col' and bexp is not None and bok
                mk = sorted(kind_of(x) for x in mv if not is_blank(x))
                known.setdefault((fn, form[0] if specific else ''), []).append(mk)
                key = f'C11.{fn}.' + ('+'.join(mk) if mk else 'allblank') + (f'.{form[0]}' if specific else '')
                if isinstance(mgot, codec.Raised):
                    key += '.raises'
                st['fails'].append({'key': key, 'size': len(mk),
                                    'what': f'{f[3]} on sheet {G_TITLES[f[0]]} with v={[show(x) for x in mv]} placed by overrides -> '
                                            f'{show(mgot)}, expected {show_exp(mexp)}',
                                    'replay': {'kind': 'grid', 'vec': [enc(x) for x in mv], 'fn': fn, 'form': form[0]}})
                grid_apply(book, vec)
    stats['cpu'] = time.process_time() - cpu0
    return stats


def grid_sweep(tier, seed, pool):
    vectors = sym_vectors(4)
    if tier != 'thorough':
        # quick: every vector with at most 3 non-blank cells, every vector of numbers and booleans, a seeded eighth of the other ones
        rng = random.Random(seed * 31 + 7)
        vectors = [v for v in vectors if 'B' in v or all(s in 'IFNYZ' for s in v) or rng.random() < 0.125]
    # (seed of the representatives or None = canonical, stride over the vector list)
    passes = [(None, 1), (seed * 1000 + 1, 8)] if tier != 'thorough' else [(None, 1)] + [(seed * 1000 + i, 1) for i in range(1, 4)]
    tasks = [{'vectors': vectors[w::2 * NPROC], 'passes': passes, 'wid': w} for w in range(2 * NPROC)]
    tasks[0]['explicit'] = EXPLICIT
    t0 = time.time()
    ar = pool.map_async(_grid_worker, tasks, chunksize=1)

    def finish():
        return _grid_finish(ar.get(), len(vectors), len(passes), time.time() - t0)
    return finish


def _grid_finish(res, nvec, npass, seconds):
    merged = {}
    for c in ('fold', 'countblank', 'andor', 'split', 'sheets'):
        fails = sorted((f for r in res for f in r[c]['fails']), key=lambda f: (f['size'], f['key'], f['what']))
        for f in fails:
            f.pop('size', None)
        merged[c] = {'evaluations': sum(r[c]['evaluations'] for r in res), 'nontrivial': sum(r[c]['nontrivial'] for r in res),
                     'failing': sum(r[c]['failing'] for r in res), 'fails': dedupe(fails),
                     'samples': [s for r in res[:2] for s in r[c]['samples']][:3]}
    return merged, nvec, npass, seconds, sum(r['cpu'] for r in res)


def replay_grid(payload):
    with lib.scratch() as d:
        book, fl = grid_book(d)
        vec = [dec(x) for x in payload['vec']]
        for k, f in enumerate(fl):
            if f[4] == payload['fn'] and G_FORMS[f[5]][0] == payload['form']:
                grid_apply(book, vec)
                exp = spec(f[4], G_FORMS[f[5]][3](list(vec), G_U))
                got = book.value(k)
                return {'fails': exp is not None and not judge(exp, got),
                        'text': f'{f[3]} on sheet {G_TITLES[f[0]]}, v={[show(x) for x in vec]} set with Executor.set_cells at S!A2:A5, '
                                f'S!C8:F8, S!C10:D11, T!B2:B5, \'My Sheet\'!C3:D4 -> {show(got)}; expected {show_exp(exp)}'}
    return {'fails': False, 'text': 'unknown grid formula'}


# ------------------------------------------------------------------ helper functions of both runtime copies
H_VALUES = [3, 0, 2.5, -4, -0.5, 'x', '', '12', True, False, BLANK, datetime.datetime(2020, 1, 2)]
H_FN = {'SUM': '_sum', 'AVERAGE': '_average', 'MIN': '_min', 'MAX': '_max', 'COUNTBLANK': '_count_blank', 'AND': '_and', 'OR': '_or'}


def _nestings(vals):
    """argument lists the translators build for areas: [column matrix], [row matrix], [rectangle], several areas,
    scalars next to matrices; all flatten to `vals` in order"""
    n = len(vals)
    out = [('flat', list(vals)), ('column', [[[v] for v in vals]]), ('row', [[list(vals)]])]
    if n >= 2:
        out.append(('two_areas', [[[v] for v in vals[:1]], [[v] for v in vals[1:]]]))
        out.append(('scalar_then_area', [vals[0], [list(vals[1:])]]))
    if n == 4:
        out.append(('rect', [[list(vals[:2]), list(vals[2:])]]))
    return out


def _same_items(a, b):
    return isinstance(a, list) and len(a) == len(b) and all(x is y for x, y in zip(a, b))


def _helper_worker(task):
    which, vectors = task['which'], task['vectors']
    cpu0 = time.process_time()
    cls = lib.get_class(which)
    inst = cls()
    empty = cls.EmptyCell()
    st = {'evaluations': 0, 'nontrivial': 0, 'fails': [], 'failing': 0}

    def fail(key, what, payload):
        st['failing'] += 1
        if len(st['fails']) < 60:
            st['fails'].append({'key': key, 'what': what, 'replay': payload})

    for vec in vectors:
        real = [empty if is_blank(v) else v for v in vec]
        nums = [v for v in real if type(v) in (int, float)]
        for nest_name, nested in _nestings(real):
            flat = lib.call_catch(inst._flatten_list, nested)
            st['evaluations'] += 1
            if not _same_items(flat, real):
                fail(f'C11.helper._flatten_list.{nest_name}', f'{which}._flatten_list({nest_name} nesting of {[show(v) for v in vec]}) -> '
                     f'{show(flat)}, expected the cells in order', {'kind': 'helper', 'which': which, 'vec': [enc(v) for v in vec]})
        only = lib.call_catch(inst._only_numeric_list, list(real))
        st['evaluations'] += 1
        if not _same_items(only, nums):
            kinds = '+'.join(sorted({kind_of(v) for v in vec if not is_number(v)})) or 'numbers'
            fail(f'C11.helper._only_numeric_list.{kinds}', f'{which}._only_numeric_list({[show(v) for v in vec]}) -> {show(only)}, expected '
                 f'{nums!r}', {'kind': 'helper', 'which': which, 'vec': [enc(v) for v in vec]})
        for fn in FNS:
            exp = spec(fn, vec)
            if exp is None:
                continue
            if fn == 'COUNT':
                got = lib.call_catch(inst._count, [[[v] for v in real]], [], [])
            else:
                got = lib.call_catch(getattr(inst, H_FN[fn]), list(real))
            st['evaluations'] += 1
            st['nontrivial'] += 1 if vec else 0
            if not judge(exp, got):
                alt = spec(fn, vec, dates_numeric=True)
                kinds = 'date' if judge(alt, got) else ('+'.join(sorted({kind_of(v) for v in vec})) or 'empty')
                fail(f'C11.helper.{fn}.{kinds}', f'{which}.{"_count" if fn == "COUNT" else H_FN[fn]} over {[show(v) for v in vec]} -> {show(got)}, '
                     f'expected {show_exp(exp)}', {'kind': 'helper', 'which': which, 'vec': [enc(v) for v in vec]})
    st['cpu'] = time.process_time() - cpu0
    return st


def _helper_long(which, rng, st):
    """lists longer than 1000, deep nesting, SPLIT at helper level"""
    cls = lib.get_class(which)
    inst = cls()
    empty = cls.EmptyCell()
    for n in (999, 1000, 1001, 1024, 2500):
        vec = [pick(rng.choice('IIIFFNNTESYZBD'), rng) for _ in range(n)]
        real = [empty if is_blank(v) else v for v in vec]
        cut = rng.randrange(1, n)
        for fn in FNS:
            exp = spec(fn, vec)
            if exp is None:
                continue
            nested = [[[v] for v in real[:cut]], [real[cut:]]]
            flat = lib.call_catch(inst._flatten_list, nested)
            if fn == 'COUNT':
                got = lib.call_catch(inst._count, nested, [], [])
                alt = spec(fn, vec, dates_numeric=True)
                ok = judge(exp, got) or judge(alt, got)     # the date question is reported once, by the short vectors
            else:
                got = flat if isinstance(flat, codec.Raised) else lib.call_catch(getattr(inst, H_FN[fn]), flat)
                ok = judge(exp, got)
            st['evaluations'] += 1
            st['nontrivial'] += 1
            if not ok:
                st['failing'] += 1
                st['fails'].append({'key': f'C11.helper.{fn}.long_list', 'what': f'{which}: {fn} over {n} cells (two areas, cut at {cut}) -> '
                                    f'{show(got)}, expected {show_exp(exp)}', 'replay': {'kind': 'helper_long', 'which': which, 'n': n}})
        # SPLIT: SUM(X ++ Y) = SUM(X) + SUM(Y), exact on whole numbers
        ints = [v for v in real if type(v) is int]
        a, b = ints[:len(ints) // 3], ints[len(ints) // 3:]
        got = (lib.call_catch(inst._sum, a + b), lib.call_catch(inst._sum, a), lib.call_catch(inst._sum, b))
        st['evaluations'] += 1
        if any(isinstance(g, codec.Raised) for g in got) or got[0] != got[1] + got[2] or got[0] != sum(ints):
            st['failing'] += 1
            st['fails'].append({'key': 'C11.helper.SUM.split', 'what': f'{which}: _sum(X++Y), _sum(X), _sum(Y) = {got!r} over {len(ints)} ints',
                                'replay': {'kind': 'helper_long', 'which': which, 'n': n}})
    deep = 7
    for _ in range(60):
        deep = [deep, [rng.randrange(10)], []]
    flat = lib.call_catch(inst._flatten_list, [deep])
    st['evaluations'] += 1
    if isinstance(flat, codec.Raised) or len(flat) != 61 or flat[0] != 7:
        st['failing'] += 1
        st['fails'].append({'key': 'C11.helper._flatten_list.deep', 'what': f'{which}: 60-deep nesting -> {show(flat)}', 'replay': None})


def helper_check(tier, seed, pool):
    t0 = time.time()
    maxlen = 4 if tier == 'thorough' else 3
    vectors = [list(v) for n in range(0, maxlen + 1) for v in itertools.product(H_VALUES, repeat=n)]
    if tier != 'thorough':
        rng = random.Random(seed * 7 + 1)
        vectors += [[rng.choice(H_VALUES) for _ in range(4)] for _ in range(3000)]
    tasks = [{'which': w, 'vectors': vectors[i::8]} for w in ('runtime', 'abstract') for i in range(8)]
    ar = pool.map_async(_helper_worker, tasks, chunksize=1)
    return lambda: _helper_finish(tier, seed, ar.get(), maxlen, t0)


def _helper_finish(tier, seed, res, maxlen, t0):
    st = {'evaluations': sum(r['evaluations'] for r in res), 'nontrivial': sum(r['nontrivial'] for r in res),
          'failing': sum(r['failing'] for r in res), 'fails': [f for r in res for f in r['fails']], 'cpu': sum(r['cpu'] for r in res)}
    for w in ('runtime', 'abstract'):
        _helper_long(w, random.Random(seed * 7 + 2), st)
    st['fails'].sort(key=lambda f: (len((f.get('replay') or {}).get('vec', [0] * 9)), f['key']))
    kept, patterns = [], []
    for f in st['fails']:          # one key per root cause: drop a failure whose cells contain an already reported smaller failing vector
        vec = (f.get('replay') or {}).get('vec')
        if vec is None or '_flatten_list' in f['key']:
            kept.append(f)
            continue
        group = f['key'].split('.')[3] if f['key'].count('.') >= 3 else f['key']
        kinds = sorted(kind_of(dec(x)) for x in vec)
        if any(g == group and _contains(p, kinds) for g, p in patterns):
            continue
        patterns.append((group, kinds))
        kept.append(f)
    st['fails'] = kept
    return {
        'name': 'C11.monitor.helpers',
        'bound': f'both runtime copies (generated class, AbstractExcelInPython): every cell vector of length 0..{maxlen} over {len(H_VALUES)} '
                 'values (ints, floats, negatives, text, empty text, numeric text, TRUE, FALSE, EmptyCell, date-time)'
                 + ('' if tier == 'thorough' else ' + 3000 seeded vectors of length 4') +
                 ' x the nestings the translators build (flat, column, row, rectangle, two areas, scalar + area); lists of 999, 1000, '
                 '1001, 1024, 2500 cells split into two areas; 60-deep nesting',
        'rule': 'one evaluation = one call of _flatten_list / _only_numeric_list (result must be the very cells, in order) or of '
                '_sum/_average/_min/_max/_count/_count_blank/_and/_or compared with the fold of the statement; AVERAGE/MIN/MAX without a '
                'numeric cell and AND/OR over cells without truth value have no clause and are not counted',
        'exhaustive': True, 'evaluations': st['evaluations'], 'distinct_nontrivial': st['nontrivial'],
        'failures': dedupe(st['fails']), 'failing_evaluations': st['failing'], 'seconds': time.time() - t0, 'cpu_seconds': st['cpu'],
        'samples': [{'fn': '_sum', 'cells': ['3', 'EmptyCell', 'True', "'12'", '2.5'], 'expected': '5.5'}],
    }


def replay_helper(payload):
    which = payload['which']
    if payload['kind'] == 'helper_long':
        st = {'evaluations': 0, 'nontrivial': 0, 'fails': [], 'failing': 0}
        _helper_long(which, random.Random(payload.get('seed', 0) * 7 + 2), st)
        return {'fails': bool(st['fails']), 'text': '; '.join(f['what'] for f in st['fails'][:3]) or 'long lists agree'}
    r = _helper_worker({'which': which, 'vectors': [[dec(x) for x in payload['vec']]]})
    return {'fails': bool(r['fails']), 'text': '; '.join(f['what'] for f in r['fails'][:4]) or 'helpers agree with the fold'}


# ------------------------------------------------------------------ planted contents (cell constants, never written blanks)
P_SYMS = 'BIFNTESYZDQ'       # Q = a formula cell that yields a number, E = a formula cell that yields empty text
P_FORMULAS = [('=2*3', 6), ('=10/4', 2.5), ('=2-7', -5), ('=A1048000+3', 3)]
P_BLOCK = 24


def planted_cell(sym, rng):
    """(content written to the workbook (encoded), model value)"""
    if sym == 'Q':
        f, v = P_FORMULAS[rng.randrange(len(P_FORMULAS))]
        return f, v
    if sym == 'E':
        return '=""', ''
    if sym == 'B':
        return None, BLANK
    v = pick(sym, rng)
    while is_number(v) and (abs(v) >= 10 ** 15 or float(repr(float(v))[:17]) != v):
        v = pick(sym, rng)          # xlsx keeps 15 significant digits: only contents that survive the file format are planted
    return enc(v), v


def planted_book(blocks, seed, tmpdir, name='planted.xlsx', force_entry=False):
    """block j: vector (<= 3 cells) vertically at S!A(4j+1).., horizontally at T!A(j+1)..; 4 forms x 8 functions at S!C..J"""
    s_cells, t_cells, formulas, items = [], [], [], []
    for j, syms in enumerate(blocks):
        rng = random.Random(f'{seed}/{"".join(syms)}')
        r = 4 * j + 1
        model = []
        for i, sym in enumerate(syms):
            content, v = planted_cell(sym, rng)
            model.append(v)
            if content is not None:
                s_cells.append(['A', r + i, content])
                t_cells.append([1 + i, j + 1, content if not (isinstance(content, str) and 'A1048000' in content) else '=Z1048000+3'])
        pad = model + [BLANK] * (4 - len(model))
        forms = [('column', f'(A{r}:A{r + 3})', pad),
                 ('row_other_sheet', f'(T!A{j + 1}:D{j + 1})', pad),
                 ('split', f'(A{r}:A{r + 1},A{r + 2}:A{r + 3})', pad),
                 ('rect_with_blank_column', f'(A{r}:B{r + 3})', pad + [BLANK] * 4)]
        for fi, (fname, args, ment) in enumerate(forms):
            for k, fn in enumerate(FNS):
                formulas.append((0, col_letters(2 + k), r + fi, f'={fn}{args}'))
                items.append((fn, fname, ment, syms))
    sheets = [{'title': 'S', 'cells': s_cells}, {'title': 'T', 'cells': t_cells}]
    return Book(sheets, formulas, tmpdir, name=name, force_entry=force_entry, entry_cap=64), formulas, items


def _planted_eval(blocks, seed, tmpdir, st, depth=0):
    book, formulas, items = planted_book(blocks, seed, tmpdir, name=f'p{depth}_{len(blocks)}.xlsx')
    if book.file_error is not None and len(blocks) > 1:
        half = len(blocks) // 2
        _planted_eval(blocks[:half], seed, tmpdir, st, depth + 1)
        _planted_eval(blocks[half:], seed, tmpdir, st, depth + 1)
        return
    rng = random.Random(f'{seed}/entry/{len(blocks)}/{"".join(blocks[0])}')
    entry_sample = set(rng.sample(range(len(formulas)), min(6, len(formulas)))) if book.mode == 'file' else set()
    for k, (fn, fname, ment, syms) in enumerate(items):
        exp = spec(fn, ment)
        if exp is None:
            continue
        got = book.value(k)
        st['evaluations'] += 1
        st['nontrivial'] += 1 if syms.count('B') < len(syms) else 0
        ok = judge(exp, got)
        how = book.mode
        if ok and k in entry_sample:
            from excel2pycl import Executor, Cell
            t = lib.translate(book.path, entry=book.addr[k])
            if not isinstance(t, codec.Raised):
                t = lib.call_catch(lib.load_class_from_text, t)
            if not isinstance(t, codec.Raised):
                t = lib.call_catch(lambda: Executor().set_executed_class(class_object=t).get_cell(Cell(*book.addr[k])).value)
            got = t
            st['evaluations'] += 1
            ok = judge(exp, got)
            how = 'entry'
        if len(st['samples']) < 2 and k % 37 == 5:
            st['samples'].append({'formula': formulas[k][3], 'cells': [show(x) for x in ment], 'value': show(got), 'expected': show_exp(exp)})
        if not ok:
            st['failing'] += 1
            kinds = sorted(kind_of(x) for x in ment if not is_blank(x))
            if fn == 'COUNT' and judge(spec(fn, ment, dates_numeric=True), got):
                kinds = ['date']
            sig = (fn, fname, tuple(kinds))
            if sig not in st['seen'] and len(st['fails']) < 400:
                st['seen'].add(sig)
                mini, mform, _ = planted_book([syms], seed, tmpdir, name='mini.xlsx')
                kk = [i for i, it in enumerate(planted_book_items(syms)) if it == (fn, fname)][0]
                st['fails'].append({'kinds': kinds, 'fn': fn, 'form': fname, 'how': how,
                                    'what': f'{formulas[k][3]} ({how} translation) over planted cells {[show(x) for x in ment]} -> {show(got)}, '
                                            f'expected {show_exp(exp)}',
                                    'replay': {'kind': 'book', 'sheets': mini.spec['sheets'], 'formula': list(mform[kk]),
                                               'exp': enc_exp(exp), 'entry': how == 'entry'}})


def planted_book_items(syms):
    return [(fn, fname) for fname in ('column', 'row_other_sheet', 'split', 'rect_with_blank_column') for fn in FNS]


def _planted_worker(task):
    st = {'evaluations': 0, 'nontrivial': 0, 'fails': [], 'failing': 0, 'samples': [], 'seen': set()}
    cpu0 = time.process_time()
    with lib.scratch() as d:
        _planted_eval(task['blocks'], task['seed'], d, st)
    st['cpu'] = time.process_time() - cpu0
    st.pop('seen')
    return st


def planted_check(tier, seed, pool):
    t0 = time.time()
    blocks = [v for n in (1, 2) for v in sym_vectors(n, P_SYMS)]
    three = sym_vectors(3, P_SYMS)
    if tier != 'thorough':
        rng = random.Random(seed * 13 + 5)
        three = rng.sample(three, 100)
        three.sort(key=lambda t: sum(1 for s in t if s != 'B'))
    blocks += three
    tasks = [{'blocks': blocks[i:i + P_BLOCK], 'seed': seed} for i in range(0, len(blocks), P_BLOCK)]
    ar = pool.map_async(_planted_worker, tasks, chunksize=1)
    return lambda: _planted_finish(tier, ar.get(), len(blocks), t0)


def _planted_finish(tier, res, nblocks, t0):
    raw = sorted((f for r in res for f in r['fails']), key=lambda f: (len(f['kinds']), f['kinds'], f['fn'], f['form']))
    accepted, fails = [], []
    for f in raw:
        if any(a['fn'] == f['fn'] and a['form'] in (f['form'], '*') and _contains(a['kinds'], f['kinds']) for a in accepted):
            continue
        everywhere = sum(1 for g in raw if g['fn'] == f['fn'] and g['kinds'] == f['kinds']) >= 4
        accepted.append({'fn': f['fn'], 'form': '*' if everywhere else f['form'], 'kinds': f['kinds']})
        key = f'C11.{f["fn"]}.' + ('+'.join(f['kinds']) or 'allblank') + ('' if everywhere else f'.{f["form"]}')
        fails.append({'key': key, 'what': f['what'], 'replay': f['replay']})
    return {
        'name': 'C11.monitor.planted',
        'bound': f'{nblocks} planted content vectors: all of length 1 and 2' + (', all of length 3' if tier == 'thorough' else ', 100 seeded of length 3') +
                 f' over {len(P_SYMS)} cell contents (never written, int, float, negative, text, ="" formula, numeric text, TRUE, FALSE, date, '
                 'number-valued formula incl. one reading a cell far beyond the used range), values drawn from pools of 1-9 per content; each vector '
                 'written as cell constants as a column (with a trailing never-written cell), as a row on another sheet (last cell beyond that '
                 "sheet's used range), split into two areas, and as a rectangle with a never-written column; 8 functions; whole-file translation "
                 'of 24 vectors per workbook, 6 formulas per workbook re-translated from an entry point',
        'rule': 'one evaluation = value of one aggregate formula compared with the fold over the planted contents; formulas for which '
                'the statement has no clause (AVERAGE/MIN/MAX without numeric cell, AND/OR over text/blank/date) are not counted',
        'exhaustive': tier == 'thorough', 'evaluations': sum(r['evaluations'] for r in res),
        'distinct_nontrivial': sum(r['nontrivial'] for r in res), 'failing_evaluations': sum(r['failing'] for r in res),
        'failures': dedupe(fails), 'samples': [s for r in res[:3] for s in r['samples']][:3], 'seconds': time.time() - t0,
        'cpu_seconds': sum(r['cpu'] for r in res),
    }


# ------------------------------------------------------------------ scenario runner (shapes, scalars, re-use)
def run_items(sheets, items, tmpdir, st, name='sc.xlsx', force_entry=False, steps=None, read_between=False):
    """items: [{'f': (si, col, row, text), 'fn', 'cells', 'scalars', 'key'}]; steps: list of override lists applied in order
    (the expectation in the items is for the state after the last step)"""
    book = Book(sheets, [it['f'] for it in items], tmpdir, name=name, force_entry=force_entry)
    for step in steps or []:
        book.set(step)
        if read_between:
            for k in range(len(items)):
                book.value(k)
    for k, it in enumerate(items):
        exp = spec(it['fn'], it['cells'], it.get('scalars', ()))
        if exp is None:
            continue
        got = book.value(k)
        st['evaluations'] += 1
        st['nontrivial'] += 1
        if len(st['samples']) < 3 and k % 11 == 2:
            st['samples'].append({'formula': it['f'][3], 'cells': len(it['cells']), 'value': show(got), 'expected': show_exp(exp)})
        if judge(exp, got):
            continue
        st['failing'] += 1
        key = it['key']
        if it['fn'] == 'COUNT' and judge(spec('COUNT', it['cells'], it.get('scalars', ()), dates_numeric=True), got):
            key = 'C11.COUNT.date'
        elif isinstance(got, codec.Raised) and not key.startswith('C11.override'):
            key += '.raises'
        if any(f['key'] == key for f in st['fails']):
            continue
        cells = it['cells']
        st['fails'].append({'key': key,
                            'what': f'{it["f"][3][:120]} on sheet {sheets[it["f"][0]]["title"]} ({book.mode} translation'
                                    + (f', whole-file translation failed with {book.file_error!r}' if book.file_error else '') +
                                    f'; {it.get("note", "")} {len(cells)} cells' + (f' {[show(x) for x in cells]}' if len(cells) <= 8 else '') +
                                    f') -> {show(got)}, expected {show_exp(exp)}',
                            'replay': {'kind': 'book', 'sheets': [{'title': s['title'], 'cells': s['cells']} for s in sheets],
                                       'formula': list(it['f']), 'exp': enc_exp(exp), 'entry': book.mode == 'entry',
                                       'overrides': [[[s, c, r, enc(v)] for (s, c, r, v) in step] for step in steps or []],
                                       'read_between': read_between}})
    return book


def new_stats():
    return {'evaluations': 0, 'nontrivial': 0, 'fails': [], 'failing': 0, 'samples': [], 'cpu': 0.0, 'cpu0': time.process_time()}


def merge_stats(res):
    out = new_stats()
    for r in res:
        for k in ('evaluations', 'nontrivial', 'failing'):
            out[k] += r[k]
        out['cpu'] += r['cpu']
        out['fails'] += r['fails']
        out['samples'] += r['samples'][:1]
    return out


def gen_contents(rng, n, weights='IIIIFFFNNTESYZBBD'):
    """[(workbook content or None, model value)]"""
    return [planted_cell(rng.choice(weights), rng) for _ in range(n)]


def plant(cells, sheet_cells, places):
    for (content, _), (c, r) in zip(cells, places):
        if content is not None:
            sheet_cells.append([c, r, content])


# ------------------------------------------------------------------ scalar arguments
SC_NUM = [
    ('area_then_int', '{F}(A2:A5,5)', 1, [5]), ('int_then_area', '{F}(5,A2:A5)', 1, [5]), ('area_then_float', '{F}(A2:A5,2.5)', 1, [2.5]),
    ('area_then_negative', '{F}(A2:A5,-3)', 1, [-3]), ('negative_then_area', '{F}(-3,A2:A5)', 1, [-3]),
    ('negative_float_only', '{F}(-2.5)', 0, [-2.5]), ('int_only', '{F}(7)', 0, [7]), ('zero_only', '{F}(0)', 0, [0]),
    ('between_areas', '{F}(A2:A3,5,A4:A5)', 1, [5]), ('same_literal_twice', '{F}(A2:A5,5,5)', 1, [5, 5]),
    ('ten_literals', '{F}(1,2,3,4,5,6,7,8,9,10)', 0, list(range(1, 11))), ('sum_expression', '{F}(A2:A5,1+1)', 1, [2]),
    ('two_floats', '{F}(A2:A5,0.1,0.2)', 1, [0.1, 0.2]), ('million', '{F}(A2:A5,1000000)', 1, [1000000]),
    ('product_expression', '{F}(A2:A5,2*3)', 1, [6]), ('quotient_expression', '{F}(A2:A5,10/4)', 1, [2.5]),
    ('area_twice_and_literal', '{F}(A2:A5,3,A2:A5)', 2, [3]), ('negative_between', '{F}(A2:A3,-1.5,A4:A5)', 1, [-1.5]),
    ('cellrefs_and_literal', '{F}(A2,7,A3,A4,A5)', 1, [7]),
]
SC_BOOL = [
    ('true_only', '{F}(TRUE)', 0, [True]), ('false_only', '{F}(FALSE)', 0, [False]), ('true_false', '{F}(TRUE,FALSE)', 0, [True, False]),
    ('false_true', '{F}(FALSE,TRUE)', 0, [False, True]), ('one', '{F}(1)', 0, [1]), ('zero', '{F}(0)', 0, [0]), ('one_zero', '{F}(1,0)', 0, [1, 0]),
    ('area_true', '{F}(A2:A5,TRUE)', 1, [True]), ('area_false', '{F}(A2:A5,FALSE)', 1, [False]), ('false_area', '{F}(FALSE,A2:A5)', 1, [False]),
    ('true_area', '{F}(TRUE,A2:A5)', 1, [True]), ('comparison_true_area', '{F}(1=1,A2:A5)', 1, [True]),
    ('comparison_false_area', '{F}(2<1,A2:A5)', 1, [False]), ('comparisons_true', '{F}(1=1,2>1)', 0, [True, True]),
    ('comparisons_false', '{F}(1=2,3<2)', 0, [False, False]), ('comparisons_mixed', '{F}(1=2,3>2)', 0, [False, True]),
    ('nested_or', '{F}(OR(TRUE,FALSE),A2:A5)', 1, [True]), ('nested_and', '{F}(AND(TRUE,FALSE),A2:A5)', 1, [False]),
    ('three_true', '{F}(TRUE,TRUE,TRUE)', 0, [True] * 3), ('float_zero', '{F}(A2:A5,0.0)', 1, [0.0]), ('negative', '{F}(-1)', 0, [-1]),
    ('area_twice', '{F}(A2:A5,A2:A5)', 2, []), ('cells', '{F}(A2,A3,A4,A5)', 1, []),
]


def _scalar_worker(task):
    fn, seed, tier = task['fn'], task['seed'], task['tier']
    st = new_stats()
    forms = SC_BOOL if fn in ('AND', 'OR') else SC_NUM
    formulas = [(0, col_letters(2 + k % 6), 1 + k // 6, '=' + t.replace('{F}', fn)) for k, (_, t, _, _) in enumerate(forms)]
    rng = random.Random(f'{seed}/scalars/{fn}')
    syms = SYMS if fn not in ('AND', 'OR') else 'IFNYZB'
    vectors = [list(v) + ['B'] * (4 - n) for n in (1, 2) for v in sym_vectors(n, syms)][1:]
    vectors = [['B'] * 4] + vectors + [[rng.choice(syms) for _ in range(4)] for _ in range(600 if tier == 'thorough' else 150)]
    with lib.scratch() as d:
        book = Book([{'title': 'S', 'cells': []}], formulas, d)
        for sv in vectors:
            vec = [pick(s, rng if 'B' not in sv[2:] else None) for s in sv]
            if fn in ('AND', 'OR'):
                vec = [v for v in vec if not is_blank(v)]       # AND/OR: a blank cell has no truth value - use fully populated areas
                vec = (vec * 4)[:4] if vec else [BLANK] * 4
            book.set([(0, 0, 1 + i, v) for i, v in enumerate(vec)])
            for k, (fid, tmpl, mult, scalars) in enumerate(forms):
                exp = spec(fn, vec * mult, scalars)
                if exp is None:
                    continue
                got = book.value(k)
                st['evaluations'] += 1
                st['nontrivial'] += 1
                if len(st['samples']) < 1 and k == 3:
                    st['samples'].append({'formula': formulas[k][3], 'A2:A5': [show(x) for x in vec], 'value': show(got), 'expected': show_exp(exp)})
                if judge(exp, got):
                    continue
                st['failing'] += 1
                key = f'C11.{fn}.scalar.' + ('negative_literal' if 'negative' in fid else fid)
                if fn == 'COUNT' and judge(spec(fn, vec * mult, scalars, dates_numeric=True), got):
                    key = 'C11.COUNT.date'
                elif isinstance(got, codec.Raised):
                    key += '.raises'
                if any(f['key'] == key for f in st['fails']):
                    continue
                ov = [[0, 0, 1 + i, enc(v)] for i, v in enumerate(vec)]
                st['fails'].append({'key': key, 'what': f'{formulas[k][3]} with A2:A5={[show(x) for x in vec]} ({book.mode} translation'
                                    + (f'; the workbook with all {fn} scalar forms does not translate: {book.file_error!r}' if book.file_error else '')
                                    + f') -> {show(got)}, expected {show_exp(exp)}',
                                    'replay': {'kind': 'book', 'sheets': [{'title': 'S', 'cells': []}], 'formula': list(formulas[k]),
                                               'exp': enc_exp(exp), 'entry': False, 'overrides': [ov]}})
    st['cpu'] = time.process_time() - st['cpu0']
    return st


def scalars_check(tier, seed, pool):
    t0 = time.time()
    fns = [f for f in FNS if f != 'COUNTBLANK']
    ar = pool.map_async(_scalar_worker, [{'fn': f, 'seed': seed, 'tier': tier} for f in fns], chunksize=1)
    return lambda: _scalars_finish(tier, ar.get(), t0)


def _scalars_finish(tier, res, t0):
    st = merge_stats(res)
    return {
        'name': 'C11.monitor.scalars',
        'bound': f'{len(SC_NUM)} argument lists mixing areas with numeric scalar arguments (int, float, negative literals, arithmetic '
                 f'expressions, single cell references; before, between and after areas; 0..10 scalars) for SUM/AVERAGE/MIN/MAX/COUNT and '
                 f'{len(SC_BOOL)} argument lists (TRUE/FALSE, numbers, comparisons, nested AND/OR, areas) for AND/OR, each over A2:A5 '
                 f'holding every content vector of length <= 2 over 10 contents and {600 if tier == "thorough" else 150} seeded vectors of length 4 '
                 '(set by overrides); one workbook per function',
        'rule': 'one evaluation = one formula value compared with the fold over the area cells and the numeric scalars; text / boolean '
                'scalars of numeric aggregates and cells without truth value for AND/OR have no clause and do not occur',
        'exhaustive': False, 'evaluations': st['evaluations'], 'distinct_nontrivial': st['nontrivial'],
        'failing_evaluations': st['failing'], 'failures': dedupe(sorted(st['fails'], key=lambda f: f['key'])),
        'samples': st['samples'][:3], 'seconds': time.time() - t0, 'cpu_seconds': st['cpu'],
    }


# ------------------------------------------------------------------ area shapes, sizes and positions
def _items_for(forms, key, first_row, col0=2, sheet=0, fns=FNS, note=''):
    """forms: [(argument text, mention list, form id)] -> items placed from column `col0` (0-based), one row per form"""
    items = []
    for i, (args, ment, fid) in enumerate(forms):
        for k, fn in enumerate(fns):
            items.append({'f': (sheet, col_letters(col0 + k), first_row + i, f'={fn}({args})'), 'fn': fn, 'cells': ment,
                          'key': f'C11.{fn}.{key}.{fid}', 'note': note})
    return items


def sc_long_column(seed):
    rng = random.Random(f'{seed}/long')
    n = 1500
    cells = gen_contents(rng, n)
    model = [m for _, m in cells]
    s = []
    plant(cells, s, [('A', r) for r in range(1, n + 1)])

    def a(lo, hi):
        return model[lo - 1:hi]
    forms = [('A1:A1500', a(1, 1500), 'rows1_1500'), ('A1:A1000', a(1, 1000), 'rows1_1000'), ('A1:A1001', a(1, 1001), 'rows1_1001'),
             ('A1:A999', a(1, 999), 'rows1_999'), ('A2:A1001', a(2, 1001), 'rows2_1001'), ('A101:A1101', a(101, 1101), 'rows101_1101'),
             ('A100:A101', a(100, 101), 'rows100_101'), ('A1000:A1024', a(1000, 1024), 'rows1000_1024'), ('A1001:A1500', a(1001, 1500), 'rows1001_1500'),
             ('A99:A100', a(99, 100), 'rows99_100'), ('A1:A750,A751:A1500', a(1, 1500), 'split750'),
             ('A1:A1000,A1001:A1500', a(1, 1500), 'split1000'), ('A1:A1500,A1:A1500', a(1, 1500) * 2, 'twice'),
             ('A1:A100,A101:A1000,A1001:A1024,A1025:A1500', a(1, 1500), 'split4'), ('A1500:A1500', a(1500, 1500), 'last_row'),
             ('A1:A1600', a(1, 1500) + [BLANK] * 100, 'beyond_used_rows'), ('$A$1:$A$1500', a(1, 1500), 'absolute')]
    items = _items_for(forms, 'long_column', 1)
    items += _items_for([('A:A', a(1, 1500), 'wholecol')], 'long_column', 30, fns=NUMFNS)
    for fn in ADDITIVE:
        items.append({'f': (0, 'L', 1 + ADDITIVE.index(fn), f'={fn}(A1:A700)+{fn}(A701:A1500)'), 'fn': fn, 'cells': a(1, 1500),
                      'key': f'C11.{fn}.long_column.add_split'})
    return [{'title': 'S', 'cells': s}], items, {}


def sc_rectangle(seed):
    rng = random.Random(f'{seed}/rect')
    rows, cols = 40, 30                         # 1200 cells, B2:AE41
    grid = [[planted_cell(rng.choice('IIIFFNNTESYZBBD'), rng) for _ in range(cols)] for _ in range(rows)]
    s = []
    for r in range(rows):
        plant(grid[r], s, [(col_letters(1 + c), 2 + r) for c in range(cols)])

    def a(r0, r1, c0, c1):
        return [grid[r][c][1] for r in range(r0, r1) for c in range(c0, c1)]
    L = col_letters
    forms = [(f'B2:{L(30)}41', a(0, 40, 0, 30), 'all1200'), (f'B2:{L(30)}21,B22:{L(30)}41', a(0, 40, 0, 30), 'two_row_bands'),
             (f'B2:{L(15)}41,{L(16)}2:{L(30)}41', a(0, 40, 0, 15) + a(0, 40, 15, 30), 'two_column_bands'),
             (f'B2:{L(15)}21,{L(16)}2:{L(30)}21,B22:{L(15)}41,{L(16)}22:{L(30)}41', a(0, 40, 0, 30), 'quadrants'),
             (f'Z2:AA41', a(0, 40, 24, 26), 'columns_Z_AA'), (f'{L(25)}5:{L(27)}5', a(3, 4, 24, 27), 'row_Z_AB'),
             ('B2:B2', a(0, 1, 0, 1), 'one_cell'), (f'B41:{L(30)}41', a(39, 40, 0, 30), 'last_row'), (f'{L(30)}2:{L(30)}41', a(0, 40, 29, 30), 'last_column'),
             (f'B2:{L(30)}41,C3:D4', a(0, 40, 0, 30) + a(1, 3, 1, 3), 'overlapping'),
             (f'A1:{L(31)}42', a(0, 40, 0, 30) + [BLANK] * (42 * 32 - 1200), 'with_blank_border')]
    items = _items_for(forms, 'rectangle', 1, col0=40)
    return [{'title': 'S', 'cells': s}], items, {}


def sc_wide(seed):
    rng = random.Random(f'{seed}/wide')
    s, model = [], {}
    for c in list(range(22, 30)) + list(range(697, 707)):          # W..AD and ZV..AAE (0-based)
        for r in (3, 4, 5):
            content, v = planted_cell(rng.choice('IIFNTSYBD'), rng)
            model[(c, r)] = v
            if content is not None:
                s.append([c + 1, r, content])

    def a(c0, c1, r0, r1):
        return [model.get((c, r), BLANK) for r in range(r0, r1 + 1) for c in range(c0, c1 + 1)]
    forms = [('W3:AD3', a(22, 29, 3, 3), 'row_W_AD'), ('Z3:AA3', a(25, 26, 3, 3), 'row_Z_AA'), ('Z3:Z5', a(25, 25, 3, 5), 'col_Z'),
             ('AA3:AA5', a(26, 26, 3, 5), 'col_AA'), ('Y3:AB5', a(24, 27, 3, 5), 'rect_Y_AB'), ('ZV3:AAE3', a(697, 706, 3, 3), 'row_ZV_AAE'),
             ('ZZ3:AAA3', a(701, 702, 3, 3), 'row_ZZ_AAA'), ('ZZ3:ZZ5', a(701, 701, 3, 5), 'col_ZZ'), ('AAA3:AAA5', a(702, 702, 3, 5), 'col_AAA'),
             ('ZY3:AAB5', a(700, 703, 3, 5), 'rect_ZY_AAB'), ('W3:AAE3', a(22, 706, 3, 3), 'row_685_cells'),
             ('Z3:AA3,ZZ3:AAA3', a(25, 26, 3, 3) + a(701, 702, 3, 3), 'two_boundaries'), ('AZ3:BA5', [BLANK] * 6, 'blank_AZ_BA')]
    items = _items_for(forms, 'columns', 10, col0=0)
    items += _items_for([('ZZ:AAA', a(701, 702, 3, 5), 'wholecols_ZZ_AAA'), ('Z:AA', a(25, 26, 3, 5), 'wholecols_Z_AA'),
                         ('AAA:AAA', a(702, 702, 3, 5), 'wholecol_AAA')], 'columns', 30, col0=0, fns=NUMFNS)
    return [{'title': 'S', 'cells': s}], items, {}


def sc_xfd(seed, entry):
    rng = random.Random(f'{seed}/xfd')
    s, model = [], {}
    for c in (16381, 16382, 16383):
        for r in (1, 2):
            content, v = planted_cell(rng.choice('IFNTY'), rng)
            model[(c, r)] = v
            s.append([c + 1, r, content])

    def a(c0, c1, r0, r1):
        return [model[(c, r)] for r in range(r0, r1 + 1) for c in range(c0, c1 + 1)]
    forms = [('XFB1:XFD2', a(16381, 16383, 1, 2), 'rect'), ('XFD1:XFD2', a(16383, 16383, 1, 2), 'col_XFD'), ('XFB1:XFD1', a(16381, 16383, 1, 1), 'row'),
             ('XFB1:XFC2,XFD1:XFD2', a(16381, 16382, 1, 2) + a(16383, 16383, 1, 2), 'split')]
    items = _items_for(forms, 'column_XFD' + ('.entry' if entry else ''), 4, col0=0)
    items += _items_for([('XFD:XFD', a(16383, 16383, 1, 2), 'wholecol')], 'column_XFD' + ('.entry' if entry else ''), 9, col0=0, fns=NUMFNS)
    return [{'title': 'S', 'cells': s}], items, {'force_entry': entry}


def sc_whole_columns(seed):
    rng = random.Random(f'{seed}/wholecols')
    s, t, ms, mt = [], [], {}, {}
    for c in range(3):
        for r in range(1, 8):
            for cells, model in ((s, ms), (t, mt)):
                content, v = planted_cell(rng.choice('IIFNTESYZBBD'), rng)
                model[(c, r)] = v
                if content is not None:
                    cells.append([c + 1, r, content])

    def a(model, c0, c1, rmax=7):
        return [model.get((c, r), BLANK) for r in range(1, rmax + 1) for c in range(c0, c1 + 1)]
    forms = [('A:A', a(ms, 0, 0), 'A'), ('A:C', a(ms, 0, 2), 'A_C'), ('B:C', a(ms, 1, 2), 'B_C'), ('A:A,C:C', a(ms, 0, 0) + a(ms, 2, 2), 'A_and_C'),
             ('A:B,B:C', a(ms, 0, 1) + a(ms, 1, 2), 'overlapping'), ('T!A:A', a(mt, 0, 0), 'other_A'), ('T!A:C', a(mt, 0, 2), 'other_A_C'),
             ('A:A,T!A:A', a(ms, 0, 0) + a(mt, 0, 0), 'both_sheets'), ('$A:$C', a(ms, 0, 2), 'absolute'), ('A:A,A1:A7', a(ms, 0, 0) * 2, 'column_and_area'),
             ('D:D', [BLANK], 'blank_column')]
    items = _items_for(forms, 'whole_columns', 1, col0=5, fns=NUMFNS)
    # the same unqualified text on the other sheet
    items += _items_for([('A:A', a(mt, 0, 0), 'T.A'), ('A:C', a(mt, 0, 2), 'T.A_C'), ('S!A:C', a(ms, 0, 2), 'T.to_S')], 'whole_columns', 1, col0=5,
                        sheet=1, fns=NUMFNS)
    return [{'title': 'S', 'cells': s}, {'title': 'T', 'cells': t}], items, {}


def sc_arg_counts(seed):
    rng = random.Random(f'{seed}/args')
    n = 260
    cells = [planted_cell(rng.choice('IIFNYZ'), rng) for _ in range(n)]
    model = [m for _, m in cells]
    s = []
    plant(cells, s, [('A', r) for r in range(1, n + 1)])
    items = []
    for i, count in enumerate(list(range(1, 13)) + [29, 30, 31, 64, 128, 254, 255]):
        args, ment, scal = [], [], []
        for j in range(count):
            kind = (j + count) % 4
            if kind == 0:
                args.append(f'A{j + 1}')
                ment.append(model[j])
            elif kind == 1:
                args.append(f'A{j + 1}:A{j + 3}')
                ment += model[j:j + 3]
            elif kind == 2:
                args.append(str(j + 1))
                scal.append(j + 1)
            else:
                args.append(f'A{j + 1}:A{j + 1}')
                ment.append(model[j])
        for k, fn in enumerate(FNS):
            if fn == 'COUNTBLANK':
                continue
            items.append({'f': (0, col_letters(3 + k), 1 + i, f'={fn}({",".join(args)})'), 'fn': fn, 'cells': ment, 'scalars': scal,
                          'key': f'C11.{fn}.argument_count', 'note': f'{count} arguments,'})
    return [{'title': 'S', 'cells': s}], items, {}


def sc_many_sheets(seed, entry):
    """the same formula text at the same address on four sheets with different contents, cross references in both directions,
    titles that need quotes / contain digits"""
    rng = random.Random(f'{seed}/sheets')
    titles = ['S', 'T', 'My Sheet', 'Data2024']
    sheets, models = [], []
    for t in titles:
        cells, model = [], {}
        for c in range(2):
            for r in range(1, 5):
                content, v = planted_cell(rng.choice('IIFNTYZBD'), rng)
                model[(c, r)] = v
                if content is not None:
                    cells.append([c + 1, r, content])
        sheets.append({'title': t, 'cells': cells})
        models.append(model)

    def a(si, c0, c1, r0=1, r1=4):
        return [models[si].get((c, r), BLANK) for r in range(r0, r1 + 1) for c in range(c0, c1 + 1)]
    items = []
    ref = {0: 'S!', 1: 'T!', 2: "'My Sheet'!", 3: 'Data2024!'}
    for si in range(4):
        forms = [('A1:A4', a(si, 0, 0), 'own_column'), ('A1:B4', a(si, 0, 1), 'own_rect'), ('A1:A2,B3:B4', a(si, 0, 0, 1, 2) + a(si, 1, 1, 3, 4), 'own_two_areas'),
                 ('A:A', a(si, 0, 0), 'own_wholecol')]
        for sj in range(4):
            forms.append((f'{ref[sj]}A1:B4', a(sj, 0, 1), f'to_{sj}'))
            forms.append((f'A1:A4,{ref[sj]}A1:A4', a(si, 0, 0) + a(sj, 0, 0), f'own_and_{sj}'))
        its = _items_for(forms, f'sheets{".entry" if entry else ""}', 1, col0=4, sheet=si, fns=NUMFNS)
        for it in its:
            it['key'] = it['key'].rsplit('.', 1)[0] + ('.same_text_other_sheet' if si else '.first_sheet')
        items += its
    return sheets, items, {'force_entry': entry}


def sc_override_beyond(seed):
    """overrides of cells a formula reads through an area: blank cells inside the used range, cells beyond it"""
    s = [['A', 1, 1], ['A', 2, 2], ['A', 4, 4], ['B', 2, 'x']]
    out = []
    for name, ov in [
        ('blank_inside_used_range', (0, 0, 2, 10)), ('first_row_below_used_range', (0, 0, 12, 5)), ('far_below_used_range', (0, 0, 1200, 5.5)),
        ('constant_to_blank', (0, 0, 0, BLANK)), ('constant_to_text', (0, 0, 1, 'abc')), ('constant_to_bool', (0, 0, 1, True)),
        ('text_to_number_other_column', (0, 1, 1, 7)), ('blank_other_column_below', (0, 1, 30, 8)), ('empty_other_sheet', (1, 0, 1, 7)),
        ('empty_other_sheet_far', (1, 0, 500, 7)),
    ] + [(f'row_{r + 1}_at_or_below_used_range', (0, 0, r, 5)) for r in range(4, 26)] \
      + [(f'row_{r + 1}_other_column_at_or_below_used_range', (0, 1, r, 8)) for r in range(4, 26, 3)]:
        # rows 5..26 one by one: whichever of them is the first row below the rows the sheet had when it was translated is
        # among them (an off-by-one in the extension of a whole-column area needs exactly that row)
        state = {(0, 0, 0): 1, (0, 0, 1): 2, (0, 0, 3): 4, (0, 1, 1): 'x'}
        state[ov[:3]] = ov[3]

        def col(si, c, rows=None):
            rs = sorted(r for (s_, c_, r) in state if s_ == si and c_ == c) if rows is None else rows
            return [state.get((si, c, r), BLANK) for r in rs]
        forms = [('A:A', col(0, 0), f'{name}.wholecol'), ('A1:A20', col(0, 0, range(20)), f'{name}.area_A1_A20'),
                 ('A:B', col(0, 0) + col(0, 1), f'{name}.wholecols'), ('B:B', col(0, 1), f'{name}.wholecol_B'),
                 ('T!A:A', col(1, 0), f'{name}.other_wholecol'), ('T!A1:A3', col(1, 0, range(3)), f'{name}.other_area'),
                 ('A1:B40', col(0, 0, range(40)) + col(0, 1, range(40)), f'{name}.rect_A1_B40')]
        items = _items_for(forms, 'override', 1, col0=3, fns=['SUM', 'COUNT', 'MAX'])
        beyond = ov[2] >= 4 or ov[0] == 1          # used range: S rows 1..7 (formulas), T empty
        for it in items:
            whole = ':A)' in it['f'][3] and 'A1' not in it['f'][3] or ':B)' in it['f'][3] and 'A1' not in it['f'][3]
            it['key'] = f'C11.override.{"beyond" if beyond else "inside"}_used_range.{"whole_column" if whole else "bounded_area"}'
            it['note'] = f'after Executor.set_cells({"ST"[ov[0]]}!{col_letters(ov[1])}{ov[2] + 1}={show(ov[3])});'
        out.append(([{'title': 'S', 'cells': s}, {'title': 'T', 'cells': []}], items, {'steps': [[ov]]}))
    return out


def _shape_worker(task):
    st = new_stats()
    name, seed = task['name'], task['seed']
    if name == 'override_beyond':
        scenarios = sc_override_beyond(seed)
    elif name in ('xfd', 'many_sheets'):
        fn = sc_xfd if name == 'xfd' else sc_many_sheets
        scenarios = [fn(seed, False), fn(seed, True)]
    else:
        scenarios = [globals()['sc_' + name](seed)]
    with lib.scratch() as d:
        for i, (sheets, items, opt) in enumerate(scenarios):
            if opt.get('force_entry'):
                items = items[::3]                  # one translation per formula: a third of the formulas
            run_items(sheets, items, d, st, name=f'{name}{i}.xlsx', force_entry=opt.get('force_entry', False), steps=opt.get('steps'))
    st['cpu'] = time.process_time() - st['cpu0']
    return st


SHAPE_TASKS = ['long_column', 'rectangle', 'wide', 'xfd', 'whole_columns', 'arg_counts', 'many_sheets', 'override_beyond']


def shapes_check(tier, seed, pool):
    t0 = time.time()
    seeds = [seed] if tier != 'thorough' else [seed, seed + 101, seed + 202, seed + 303]
    tasks = [{'name': n, 'seed': s} for s in seeds for n in SHAPE_TASKS]
    ar = pool.map_async(_shape_worker, tasks, chunksize=1)
    return lambda: _shapes_finish(ar.get(), len(seeds), t0)


def _shapes_finish(res, nseeds, t0):
    st = merge_stats(res)
    return {
        'name': 'C11.monitor.shapes',
        'bound': f'{nseeds} seeded content set(s) x: column A1:A1500 of mixed contents read through 18 areas (1000/1001/999 cells, rows 100/101, '
                 '1000..1024, > used range, whole column, 2- and 4-way splits, twice); 40x30 rectangle (1200 cells) whole / bands / quadrants / '
                 'overlap / blank border; rows and rectangles across the column-letter boundaries Z|AA and ZZ|AAA, a 685-cell row, whole columns '
                 'ZZ:AAA; areas ending in column XFD (whole-file and entry-point translation); whole columns A:A, A:C, several, on two sheets '
                 'with the same text; 1..12, 29..31, 64, 128, 254, 255 arguments (cells, areas, literals); the same formula text at the same address '
                 'on 4 sheets with cross references both ways (whole-file and entry-point translation); overrides of blank cells inside and '
                 'beyond the used range read through whole-column and bounded areas, among them every single row 5..26 of column A (and every third of column B) so that the first row below the translated rows is one of them; 8 functions each (5 numeric ones for whole columns)',
        'rule': 'one evaluation = one formula value compared with the fold over the planted (or overridden) contents of the cells the '
                'area text denotes; formulas without clause are not counted',
        'exhaustive': False, 'evaluations': st['evaluations'], 'distinct_nontrivial': st['nontrivial'], 'failing_evaluations': st['failing'],
        'failures': dedupe(sorted(st['fails'], key=lambda f: (len(f['what']), f['key']))), 'samples': st['samples'][:3], 'seconds': time.time() - t0, 'cpu_seconds': st['cpu'],
    }


# ------------------------------------------------------------------ re-use of Parser / Executor objects, sequences of overrides
W_CELLS = [(0, 0, r) for r in range(6)] + [(0, c, 7) for c in range(2, 6)] + [(1, 0, r) for r in range(3)]
W_FORMS = [('A1:A6', [0, 1, 2, 3, 4, 5], FNS), ('A1:A3,A4:A6', [0, 1, 2, 3, 4, 5], FNS), ('A:A', [0, 1, 2, 3, 4, 5], NUMFNS), ('C8:F8', [6, 7, 8, 9], FNS),
           ('T!A1:A3', [10, 11, 12], FNS), ('A1:A6,T!A1:A3', [0, 1, 2, 3, 4, 5, 10, 11, 12], FNS), ('A2:A5,C8:F8,A2:A5', [1, 2, 3, 4, 6, 7, 8, 9, 1, 2, 3, 4], FNS),
           ('T!A:A', [10, 11, 12], NUMFNS)]


def walk_book(seed, tmpdir):
    rng = random.Random(f'{seed}/walkbook')
    sheets = [{'title': 'S', 'cells': []}, {'title': 'T', 'cells': []}]
    model = []
    for (s, c, r) in W_CELLS:
        content, v = planted_cell(rng.choice('IIFNTEYZBDQQ'), rng)
        if isinstance(content, str) and 'A1048000' in content:
            content, v = '=2*3', 6
        model.append(v)
        if content is not None:
            sheets[s]['cells'].append([c + 1, r + 1, content])
    formulas, items = [], []
    for i, (args, idx, fns) in enumerate(W_FORMS):
        for k, fn in enumerate(fns):
            formulas.append((0, col_letters(7 + k), 1 + i, f'={fn}({args})'))
            items.append((fn, idx))
    book = Book(sheets, formulas, tmpdir, name='walk.xlsx')
    # rows of each sheet that exist when the workbook is translated (a whole-column area is resolved against them)
    book.used_rows = {si: max([c[1] for c in sh['cells']] + [f[2] for f in formulas if f[0] == si] + [0]) for si, sh in enumerate(sheets)}
    book.walk_args = [args for (args, idx, fns) in W_FORMS for _ in fns]
    return book, formulas, items, model


def _agrees_or_no_clause(exp, got):
    return exp is None or judge(exp, got)


def run_walk(seed, steps, st, stop_at=None):
    """returns text of the first failure at step `stop_at` (replay) or None"""
    from excel2pycl import Cell, Executor
    rng = random.Random(f'{seed}/walk')
    with lib.scratch() as d:
        book, formulas, items, model = walk_book(seed, d)
        if book.single is None:
            st['fails'].append({'key': 'C11.reuse.walk.translate', 'what': f'walk workbook does not translate: {book.file_error!r}', 'replay': None})
            return None
        ex, cls = book.single
        initial = list(model)
        history = []
        for step in range(steps + 1):
            if step:
                n = rng.choice([1, 1, 2, 3, 13])
                picks = [rng.randrange(len(W_CELLS)) for _ in range(n)] if n < 13 else list(range(13))
                cells = []
                for p in picks:
                    v = pick(rng.choice(SYMS), rng)
                    if rng.random() < 0.15:                       # the same cell twice in one call: the later entry wins
                        cells.append(Cell(*W_CELLS[p], pick(rng.choice(SYMS), rng)))
                    real = cls.EmptyCell() if is_blank(v) else v
                    if rng.random() < 0.3:                        # the same cell addressed by title, column letters and row text
                        s_, c_, r_ = W_CELLS[p]
                        cells.append(Cell('ST'[s_], col_letters(c_), str(r_ + 1), real))
                    else:
                        cells.append(Cell(*W_CELLS[p], real))
                    model[p] = v
                history.append([[W_CELLS[p], show(model[p])] for p in picks])
                ex.set_cells(cells)
            order = list(range(len(items)))
            rng.shuffle(order)
            for k in order:
                fn, idx = items[k]
                ment = [model[i] for i in idx]
                exp = spec(fn, ment)
                if exp is None:
                    continue
                got = book.value(k)
                st['evaluations'] += 1
                st['nontrivial'] += 1
                if judge(exp, got):
                    continue
                st['failing'] += 1
                if fn == 'COUNT' and judge(spec(fn, ment, dates_numeric=True), got):
                    key = 'C11.COUNT.date'
                elif re.fullmatch(r'(?:[A-Z]+!)?[A-Z]+:[A-Z]+', book.walk_args[k]) and _agrees_or_no_clause(
                        spec(fn, [model[i] if W_CELLS[i][2] < book.used_rows[W_CELLS[i][0]] else initial[i] for i in idx]), got):
                    # the value is the fold over the rows that existed at translation time (or that fold has no clause, e.g.
                    # no number among those rows): the known whole-column defect
                    key = 'C11.override.beyond_used_range.whole_column'
                else:
                    key = f'C11.reuse.override_sequence.{fn}' if step else f'C11.reuse.initial.{fn}'
                text = (f'{formulas[k][3]} after {step} set_cells calls (last: {history[-1] if history else "none"}) with cells '
                        f'{[show(x) for x in ment]} -> {show(got)}, expected {show_exp(exp)}')
                if stop_at is not None and step == stop_at:
                    return text
                if not any(f['key'] == key for f in st['fails']):
                    st['fails'].append({'key': key, 'what': text, 'replay': {'kind': 'walk', 'seed': seed, 'step': step}})
            if step in (steps // 2, steps):
                # a second Executor on the same generated class sees the workbook contents, not the overrides of the first
                fresh = Executor().set_executed_class(class_object=cls)
                for k, (fn, idx) in enumerate(items):
                    exp = spec(fn, [initial[i] for i in idx])
                    if exp is None:
                        continue
                    got = lib.call_catch(lambda: fresh.get_cell(Cell(*book.addr[k])).value)
                    st['evaluations'] += 1
                    if not judge(exp, got) and not (fn == 'COUNT' and judge(spec(fn, [initial[i] for i in idx], dates_numeric=True), got)):
                        st['failing'] += 1
                        text = f'second Executor on the same class: {formulas[k][3]} -> {show(got)}, expected {show_exp(exp)} (overrides of the first leak)'
                        if stop_at is not None:
                            return text
                        if not any(f['key'] == 'C11.reuse.second_executor' for f in st['fails']):
                            st['fails'].append({'key': 'C11.reuse.second_executor', 'what': text, 'replay': {'kind': 'walk', 'seed': seed, 'step': step}})
            if stop_at is not None and step >= stop_at:
                return None
    return None


def run_parser_reuse(seed, st, only=None):
    """one Parser object: workbook A, then workbook B with the same formula texts; entry cell C1 then C4; back to whole file"""
    from excel2pycl import Parser, Executor, Cell
    rng = random.Random(f'{seed}/parser')
    out = []
    with lib.scratch() as d:
        specs = []
        for name, rows in (('a.xlsx', 4), ('b.xlsx', 6)):
            cells = gen_contents(rng, rows, 'IIFNTYB')
            s = []
            plant(cells, s, [('A', r) for r in range(1, rows + 1)])
            for k, fn in enumerate(FNS):
                s.append(['C', k + 1, f'={fn}(A1:A4)'])
                s.append(['D', k + 1, f'={fn}(A:A)'])
            path = os.path.join(d, name)
            lib.write_workbook({'sheets': [{'title': 'S', 'cells': s}]}, path)
            specs.append((path, [m for _, m in cells]))
        p = Parser()

        def observe(tag, model, addrs):
            t = lib.call_catch(p.get_translation)
            cls = t if isinstance(t, codec.Raised) else lib.call_catch(lib.load_class_from_text, t)
            for (c, k) in addrs:
                fn = FNS[k]
                ment = model[:4] if c == 2 else model
                if c == 3 and fn not in NUMFNS:
                    continue
                exp = spec(fn, ment)
                if exp is None:
                    continue
                got = cls if isinstance(cls, codec.Raised) else lib.call_catch(
                    lambda: Executor().set_executed_class(class_object=cls).get_cell(Cell(0, c, k)).value)
                st['evaluations'] += 1
                st['nontrivial'] += 1
                if not judge(exp, got):
                    st['failing'] += 1
                    text = f'{tag}: ={fn}({"A1:A4" if c == 2 else "A:A"}) over {[show(x) for x in ment]} -> {show(got)}, expected {show_exp(exp)}'
                    out.append(text)
                    key = f'C11.reuse.parser.{tag.split(":")[0]}'
                    if not any(f['key'] == key for f in st['fails']):
                        st['fails'].append({'key': key, 'what': text, 'replay': {'kind': 'parser', 'seed': seed}})
        allc = [(c, k) for c in (2, 3) for k in range(8)]
        p.set_excel_file_path(specs[0][0])
        observe('first_workbook: Parser, workbook A', specs[0][1], allc)
        p.set_excel_file_path(specs[1][0])
        observe('second_workbook: same Parser, then workbook B (same formula texts, other contents, more rows)', specs[1][1], allc)
        p.set_entrypoint_cell(Cell(0, 2, 0))
        observe('entry_first: same Parser, entry cell C1', specs[1][1], [(2, 0)])
        p.set_entrypoint_cell(Cell('S', 'D', '4'))
        observe('entry_second: same Parser, entry cell changed to D4', specs[1][1], [(3, 3)])
        p.set_excel_file_path(specs[0][0])
        observe('entry_other_workbook: same Parser, entry D4, back to workbook A', specs[0][1], [(3, 3)])
        q = Parser().set_excel_file_path(specs[1][0])
        p = q
        observe('fresh: fresh Parser, workbook B', specs[1][1], allc)
    return out


def _reuse_worker(task):
    st = new_stats()
    if task['what'] == 'walk':
        run_walk(task['seed'], task['steps'], st)
    else:
        run_parser_reuse(task['seed'], st)
    st['cpu'] = time.process_time() - st['cpu0']
    return st


def reuse_check(tier, seed, pool):
    t0 = time.time()
    walks, steps = (24, 120) if tier == 'thorough' else (8, 60)
    tasks = [{'what': 'walk', 'seed': seed * 100 + i, 'steps': steps} for i in range(walks)]
    tasks += [{'what': 'parser', 'seed': seed * 100 + i} for i in range(walks // 2)]
    ar = pool.map_async(_reuse_worker, tasks, chunksize=1)
    return lambda: _reuse_finish(ar.get(), walks, steps, t0)


def _reuse_finish(res, walks, steps, t0):
    st = merge_stats(res)
    return {
        'name': 'C11.monitor.reuse',
        'bound': f'{walks} seeded workbooks (13 cells on two sheets holding constants, never written cells and formula cells; 8 argument lists x '
                 f'8 functions) x {steps} consecutive Executor.set_cells calls on ONE Executor (1, 2, 3 or all 13 cells per call, any of 10 '
                 'contents incl. back to blank, the same cell twice in a call, cells addressed by index or by title/letters/row text) with all formulas read in random order after every call, plus a '
                 f'second Executor on the same class; {walks // 2} x one Parser object used for workbook A, workbook B (same formula texts), entry '
                 'cell C1, entry cell D4, back to workbook A',
        'rule': 'one evaluation = one formula value compared with the fold over the current contents (most recent override wins, '
                'cells never overridden keep the workbook content); formulas without clause are not counted',
        'exhaustive': False, 'evaluations': st['evaluations'], 'distinct_nontrivial': st['nontrivial'], 'failing_evaluations': st['failing'],
        'failures': dedupe(sorted(st['fails'], key=lambda f: ((f.get('replay') or {}).get('step', 0), f['key']))),
        'samples': [{'walk': 'seed 0', 'steps': steps}], 'seconds': time.time() - t0, 'cpu_seconds': st['cpu'],
    }


# ------------------------------------------------------------------ entry points
def run(tier='quick', seed=0):
    checks = []
    with Pool(NPROC) as pool:
        # all checks share one pool: the long tasks (shapes, planted, grid) are queued first
        order = [shapes_check, planted_check, scalars_check, reuse_check, helper_check]
        pending = {fn: fn(tier, seed, pool) for fn in order[:2]}
        grid = grid_sweep(tier, seed, pool)
        pending.update({fn: fn(tier, seed, pool) for fn in order[2:]})
        merged, nvec, npass, grid_seconds, grid_cpu = grid()
        done = {fn: pending[fn]() for fn in order}
    nform = {c: sum(1 for f in grid_formulas() if grid_category(f[4], G_FORMS[f[5]][5]) == c) for c in merged}
    passes = 'canonical value per content + 1 seeded pass over every 8th vector' if tier != 'thorough' else 'canonical value per content + 3 seeded passes'
    total = max(1, sum(x['evaluations'] for x in merged.values()))
    which = 'all 10^4' if tier == 'thorough' else f'{nvec} of the 10^4 (every vector with <= 3 non-blank cells, every vector of numbers/booleans, a seeded eighth of the other fully populated ones)'
    scope = (f'{which} content vectors of length 4 (never-overridden state first) and {len(EXPLICIT)} value vectors aimed at number representation (2^53 neighbours as int and float, 1/1.0/TRUE, signed zero) over {{blank, int, float, negative, text, empty text, numeric '
             f'text, TRUE, FALSE, date}} ({passes}; value pools of 1-9 per content) placed by Executor.set_cells as a column, a row, a 2x2 '
             'rectangle, a column on another sheet and a rectangle on a sheet with a quoted title, read by ')
    texts = {
        'fold': ('C11.monitor.fold', 'SUM/AVERAGE/MIN/MAX/COUNT over 11 area forms (column, row, rectangle, other sheet, quoted sheet, whole '
                 'column, whole column of another sheet, inner part, $-absolute, mixed absolute, four single cells)'),
        'countblank': ('C11.monitor.countblank', 'COUNTBLANK over 9 area forms (whole columns excluded: their number of blank cells is not bounded)'),
        'andor': ('C11.monitor.andor', 'AND/OR over 9 area forms; only vectors of booleans and numbers have a clause'),
        'split': ('C11.monitor.split', '15 argument lists that cut the same cells into areas differently (2+2, 1+3, 3+1, rectangle by rows / by columns, '
                  'same area twice, overlapping areas, three shapes, two sheets) for all 8 functions and F(X)+F(Y) against F(X,Y) for SUM/COUNT/COUNTBLANK'),
        'sheets': ('C11.monitor.sheets', 'formulas with the SAME unqualified area text on three sheets (A2:A5 on S and T hold different vectors, '
                   'C8:F8 and C10:D11 exist on S only) and cross-sheet references in both directions'),
    }
    for c in ('fold', 'countblank', 'andor', 'split', 'sheets'):
        m = merged[c]
        checks.append({
            'name': texts[c][0], 'bound': scope + texts[c][1] + f' = {nform[c]} formulas of one workbook',
            'rule': 'one evaluation = value of one formula under one content vector compared with the fold of the statement over the cells '
                    'mentioned (once per mention); AVERAGE/MIN/MAX without numeric cell and AND/OR over cells without truth value (text, blank, '
                    'date) have no clause and are not counted; non-trivial = at least one non-blank cell; a failing vector is shrunk by '
                    'blanking cells and keyed by function + contents of the minimal vector (+ form when the plain column form passes)',
            'exhaustive': True, 'evaluations': m['evaluations'], 'distinct_nontrivial': m['nontrivial'], 'failing_evaluations': m['failing'],
            'failures': m['fails'], 'samples': m['samples'], 'seconds': grid_seconds * m['evaluations'] / total,
            'cpu_seconds': grid_cpu * m['evaluations'] / total,
        })
    for fn in (planted_check, scalars_check, shapes_check, reuse_check, helper_check):
        checks.append(done[fn])
    return {'checks': checks}


def run_one(name, tier='quick', seed=0):
    """one check on its own (development aid): name in fold|planted|scalars|shapes|reuse|helpers"""
    fn = {'planted': planted_check, 'scalars': scalars_check, 'shapes': shapes_check, 'reuse': reuse_check, 'helpers': helper_check,
          'fold': grid_sweep}[name]
    with Pool(NPROC) as pool:
        return fn(tier, seed, pool)()


def replay(payload):
    if not payload:
        return {'fails': False, 'text': 'nothing to replay'}
    k = payload.get('kind')
    if k == 'grid':
        return replay_grid(payload)
    if k == 'gridtranslate':
        with lib.scratch() as d:
            book, _ = grid_book(d)
            return {'fails': book.file_error is not None, 'text': f'grid workbook translation: {book.file_error!r}'}
    if k == 'book':
        return replay_book(payload)
    if k in ('helper', 'helper_long'):
        return replay_helper(payload)
    if k == 'walk':
        st = new_stats()
        text = run_walk(payload['seed'], payload['step'], st, stop_at=payload['step'])
        return {'fails': text is not None, 'text': text or f'walk {payload["seed"]} agrees with the fold up to step {payload["step"]}'}
    if k == 'parser':
        st = new_stats()
        out = run_parser_reuse(payload['seed'], st)
        return {'fails': bool(out), 'text': '; '.join(out[:3]) or 'Parser re-use agrees with the fold'}
    return {'fails': False, 'text': 'nothing to replay'}
