"""K4 bounded monitor for C15 (date functions follow the Gregorian calendar exactly).  Runs under /venv/bin/python on the
real code.

Contract monitored (executable form of the property statement; the oracle below is closed-form proleptic Gregorian
arithmetic written for this file -- it does not use datetime / calendar / dateutil and is conformance-tested against
datetime in `_oracle_selftest`):

  DATE(y,m,d)      == 1 January of year y, moved by (m-1) months, moved by (d-1) days, for every integer m and d
  YEAR/MONTH/DAY   return the components of a date (also of DATE(...): they invert it)
  EDATE(s,k)       == month index of s moved by k whole months, day clamped to the length of the target month
  EOMONTH(s,k)     == last day of that target month
  DATEDIF(s,e,u)   D: days; M: max{k : (month index of s + k, day of s) <=lex (month index of e, day of e)};
                   Y: max{k : (year of s + k, month, day of s) <=lex e};  YM: M - 12*Y
  NETWORKDAYS      +/- |{Monday..Friday dates of the inclusive interval} minus {listed holidays}| (negative when reversed)
  TODAY            the current local date at 00:00 (reference: time.localtime(), also after switching TZ)

observed where the property says (the value returned by the formula under Executor overrides, by formulas with literal
arguments, by workbooks with date constants) and additionally on both copies of the run-time helpers."""
import datetime
import functools
import multiprocessing
import os
import random
import time

from pv import codec
from pv.nat import lib

BLANK = '__blank__'

# ====================================================================================== oracle (own Gregorian arithmetic)
_CUM = (0, 31, 59, 90, 120, 151, 181, 212, 243, 273, 304, 334)
_DIM = (31, 28, 31, 30, 31, 30, 31, 31, 30, 31, 30, 31)


def leap(y):
    return y % 4 == 0 and (y % 100 != 0 or y % 400 == 0)


def dim(y, m):
    return 29 if (m == 2 and leap(y)) else _DIM[m - 1]


def ordinal(y, m, d):
    """Proleptic Gregorian day number, 0001-01-01 -> 1; d may be any integer."""
    y1 = y - 1
    return 365 * y1 + y1 // 4 - y1 // 100 + y1 // 400 + _CUM[m - 1] + (1 if (m > 2 and leap(y)) else 0) + d


MAX_ORD = ordinal(9999, 12, 31)
EPOCH_ORD = ordinal(1970, 1, 1)


@functools.lru_cache(maxsize=None)
def from_ordinal(n):
    y = max(1, n // 366)
    while ordinal(y + 1, 1, 1) <= n:
        y += 1
    m = 1
    while m < 12 and ordinal(y, m + 1, 1) <= n:
        m += 1
    return (y, m, n - ordinal(y, m, 1) + 1)


def weekday(n):
    """0 = Monday (day number 1 is a Monday)."""
    return (n + 6) % 7


def weekdays_upto(n):
    """number of Monday..Friday dates among day numbers 1..n"""
    return 5 * (n // 7) + min(n % 7, 5)


def shift_month(y, m, k):
    i = 12 * y + (m - 1) + k
    return i // 12, i % 12 + 1


def ref_date(y, m, d):
    yy, mm = shift_month(y, 1, m - 1)
    if not 1 <= yy <= 9999:
        return None
    n = ordinal(yy, mm, 1) + (d - 1)
    if not 1 <= n <= MAX_ORD:
        return None
    return from_ordinal(n)


def ref_edate(t, k):
    yy, mm = shift_month(t[0], t[1], k)
    if not 1 <= yy <= 9999:
        return None
    return (yy, mm, min(t[2], dim(yy, mm)))


def ref_eomonth(t, k):
    yy, mm = shift_month(t[0], t[1], k)
    if not 1 <= yy <= 9999:
        return None
    return (yy, mm, dim(yy, mm))


def whole(k):
    """whole months of a possibly fractional offset (toward zero)"""
    q = int(abs(k) // 1)
    return q if k >= 0 else -q


@functools.lru_cache(maxsize=8192)
def ref_months(s, e):
    """complete months from s to e (s <= e): the largest k with (month index of s + k, day of s) <=lex (.. of e)"""
    i_s, i_e = 12 * s[0] + s[1], 12 * e[0] + e[1]

    def reached(k):
        return (i_s + k, s[2]) <= (i_e, e[2])
    k = max(0, i_e - i_s - 2)          # `reached` is antitone in k, so any start value finds the same maximum
    while k > 0 and not reached(k):
        k -= 1
    while reached(k + 1):
        k += 1
    return k


@functools.lru_cache(maxsize=8192)
def ref_years(s, e):
    k = max(0, e[0] - s[0] - 2)
    while k > 0 and not (s[0] + k, s[1], s[2]) <= e:
        k -= 1
    while (s[0] + k + 1, s[1], s[2]) <= e:
        k += 1
    return k


def ref_months_clamped(s, e):
    """the other reading of 'complete months' (EDATE(s,k) <= e); only used to label month-end witnesses"""
    k = 0
    while True:
        t = ref_edate(s, k + 1)
        if t is None or t > e:
            return k
        k += 1


def ref_networkdays(so, eo, hol_ords):
    a, b = (so, eo) if so <= eo else (eo, so)
    n = weekdays_upto(b) - weekdays_upto(a - 1)
    n -= len({h for h in hol_ords if a <= h <= b and weekday(h) < 5})
    return n if so <= eo else -n


def _oracle_selftest():
    """the oracle against the standard library (not against the code under verification)"""
    spans = [(datetime.date(1, 1, 1), 800), (datetime.date(1895, 1, 1), 77000), (datetime.date(9998, 1, 1), 729)]
    for start, n in spans:
        o0 = start.toordinal()
        for o in range(o0, o0 + n, 1 if n < 1000 else 3):
            dt = datetime.date.fromordinal(o)
            t = (dt.year, dt.month, dt.day)
            assert ordinal(*t) == o and from_ordinal(o) == t and weekday(o) == dt.weekday(), ('oracle', t)
    for y in (1, 4, 100, 1900, 2000, 2023, 2024, 2100, 2400, 9999):
        for m in range(1, 13):
            nxt = datetime.date(y + (m == 12), m % 12 + 1, 1) if (y, m) != (9999, 12) else None
            if nxt:
                assert dim(y, m) == (nxt - datetime.date(y, m, 1)).days
    for a in range(730000, 730030):
        for b in range(a, a + 40):
            assert weekdays_upto(b) - weekdays_upto(a - 1) == sum(1 for o in range(a, b + 1) if weekday(o) < 5)
    assert ordinal(9999, 12, 31) == datetime.date.max.toordinal()
    assert ref_date(2022, 1, -2) == (2021, 12, 29) and ref_date(2024, 14, 31) == (2025, 3, 3)
    assert ref_date(2024, 0, 0) == (2023, 11, 30) and ref_date(1900, 2, 29) == (1900, 3, 1)
    assert ref_edate((2024, 1, 31), 1) == (2024, 2, 29) and ref_edate((2023, 12, 31), -10) == (2023, 2, 28)
    assert ref_months((2024, 1, 31), (2024, 3, 1)) == 1 and ref_months((2019, 12, 8), (2020, 12, 6)) == 11
    assert ref_years((2020, 2, 29), (2021, 2, 28)) == 0 and ref_years((2019, 1, 1), (2020, 12, 31)) == 1
    assert whole(-1.5) == -1 and whole(1.9) == 1 and whole(-0.9) == 0 and whole(7) == 7


# ====================================================================================== values
# a date value is written as a tuple: (y,m,d) = datetime at midnight, (y,m,d,H,M,S,us) = datetime with a time of day,
# ('d',y,m,d) = datetime.date object
def mkv(spec):
    if spec[0] == 'd':
        return datetime.date(*spec[1:])
    return datetime.datetime(*spec)


def ymd3(spec):
    return tuple(spec[1:4]) if spec[0] == 'd' else tuple(spec[:3])


def ord_of(spec):
    return ordinal(*ymd3(spec))


def is_dateobj(spec):
    return spec[0] == 'd'


def has_tod(spec):
    return spec[0] != 'd' and len(spec) > 3 and any(spec[3:])


def ymd_of(v):
    """(y,m,d) of a returned date at midnight; anything else -> a marker that equals no date"""
    if isinstance(v, datetime.datetime):
        if (v.hour, v.minute, v.second, v.microsecond) != (0, 0, 0, 0):
            return ('not midnight',)
        return (v.year, v.month, v.day)
    if isinstance(v, datetime.date):
        return (v.year, v.month, v.day)
    return ('not a date',)


def num_is(got, exp):
    return isinstance(got, (int, float)) and not isinstance(got, bool) and got == exp


def fmt(t):
    return '%04d-%02d-%02d' % tuple(t)


def _show(spec):
    return repr(mkv(spec)) if is_dateobj(spec) else fmt(ymd3(spec))


# ====================================================================================== evaluators (routes)
LAYOUTS = {  # name: (sheet, first column 0-based, first row 0-based, columns, rows, range text)
    'col': (0, 4, 0, 1, 6, 'E1:E6'),
    'grid': (0, 4, 0, 3, 6, 'E1:G6'),
    'row': (0, 8, 7, 12, 1, 'I8:T8'),
    'sheetH': (1, 0, 0, 1, 10, 'H!A1:A10'),
}
LONG_ROWS = 1200
ZF = ['=DATE(A1,B1,C1)', '=YEAR(DATE(A1,B1,C1))', '=MONTH(DATE(A1,B1,C1))', '=DAY(DATE(A1,B1,C1))',
      '=YEAR(A2)', '=MONTH(A2)', '=DAY(A2)', '=EDATE(A2,B2)', '=EOMONTH(A2,B2)',
      '=DATEDIF(A2,A3,"D")', '=DATEDIF(A2,A3,"M")', '=DATEDIF(A2,A3,"Y")', '=DATEDIF(A2,A3,"YM")', '=DATEDIF(A2,A3,D2)',
      '=NETWORKDAYS(A2,A3)', '=NETWORKDAYS(A2,A3,E1:E6)', '=NETWORKDAYS(A2,A3,E1:G6)', '=NETWORKDAYS(A2,A3,I8:T8)',
      '=NETWORKDAYS(A2,A3,H!A1:A10)',
      '=TODAY()', '=YEAR(TODAY())', '=MONTH(TODAY())', '=DAY(TODAY())', '=DATEDIF(A2,TODAY(),"D")',
      '=NETWORKDAYS(TODAY(),TODAY())']
ZI = {'date': 0, 'year_of': 1, 'month_of': 2, 'day_of': 3, 'year': 4, 'month': 5, 'day': 6, 'edate': 7, 'eomonth': 8,
      'D': 9, 'M': 10, 'Y': 11, 'YM': 12, 'unit_cell': 13, 'none': 14, 'col': 15, 'grid': 16, 'row': 17, 'sheetH': 18,
      'today': 19, 'today_y': 20, 'today_m': 21, 'today_d': 22, 'today_dif': 23, 'today_nwd': 24}


def _pipe_spec():
    """constants and a formula sit in cells that every evaluation overrides (an override must hide them)"""
    dt = lambda *a: codec.enc(datetime.datetime(*a))
    s = [['A', 1, 2020], ['B', 1, 5], ['C', 1, 17], ['A', 2, '=DATE(2020,1,1)'], ['A', 3, dt(2020, 12, 31)], ['B', 2, 7],
         ['D', 2, 'D'], ['E', 2, dt(2024, 1, 2)], ['F', 3, dt(2024, 1, 3)], ['J', 8, dt(2024, 1, 4)]]
    s += [['Z', i + 1, f] for i, f in enumerate(ZF)]
    return {'sheets': [{'title': 'S', 'cells': s}, {'title': 'H', 'cells': [['A', 1, dt(2024, 1, 5)], ['A', 12, 1]]}]}


def _pad(hol, n, blank):
    return [(blank if (h == BLANK) else mkv(h)) for h in hol] + [blank] * (n - len(hol))


class HelperEval:
    def __init__(self, which):
        self.route = which
        cls = lib.get_class(which)
        self.inst = cls()
        self.blank = cls.EmptyCell()

    def date(self, y, m, d):
        return lib.call_catch(self.inst._date, y, m, d)

    def ymd_of_date(self, y, m, d):
        v = self.date(y, m, d)
        return tuple(lib.call_catch(f, v) for f in (self.inst._year, self.inst._month, self.inst._day))

    def ymd(self, v):
        return tuple(lib.call_catch(f, v) for f in (self.inst._year, self.inst._month, self.inst._day))

    def edate(self, v, k):
        return lib.call_catch(self.inst._edate, v, k)

    def eomonth(self, v, k):
        return lib.call_catch(self.inst._eomonth, v, k)

    def datedif(self, s, e, unit, in_cell=False):
        return lib.call_catch(self.inst._datedif, s, e, unit)

    def networkdays(self, s, e, hol, layout):
        if layout == 'none':
            m = None
        elif layout == 'long':
            m = [[v] for v in _pad(hol, LONG_ROWS, self.blank)]
        else:
            _, _, _, nc, nr, _ = LAYOUTS[layout]
            flat = _pad(hol, nc * nr, self.blank)
            m = [flat[r * nc:(r + 1) * nc] for r in range(nr)]
        return lib.call_catch(self.inst._network_days, s, e, m)

    def today(self, what='today'):
        v = lib.call_catch(self.inst._today)
        if what == 'today':
            return v
        return lib.call_catch({'today_y': self.inst._year, 'today_m': self.inst._month, 'today_d': self.inst._day}[what], v)


class PipeEval:
    """the public pipeline: Parser -> generated class -> Executor; every argument is supplied with Executor.set_cells"""

    def __init__(self):
        from excel2pycl import Cell
        self.route = 'override'
        self.Cell = Cell
        with lib.scratch() as d:
            self.p = lib.Pipe(_pipe_spec(), d)
        if self.p.error is not None:
            raise RuntimeError(f'translation failed: {self.p.error!r}')
        self.ex = self.p.executor
        self.blank = self.p.cls.EmptyCell()

    def _set(self, cells):
        C = self.Cell
        self.ex.set_cells([C(s, c, r, v) for (s, c, r, v) in cells])

    def _get(self, name):
        return self.p.value(0, 25, ZI[name])

    def date(self, y, m, d):
        self._set(((0, 0, 0, y), (0, 1, 0, m), (0, 2, 0, d)))
        return self._get('date')

    def ymd_of_date(self, y, m, d):
        self._set(((0, 0, 0, y), (0, 1, 0, m), (0, 2, 0, d)))
        return (self._get('year_of'), self._get('month_of'), self._get('day_of'))

    def ymd(self, v):
        self._set(((0, 0, 1, v),))
        return (self._get('year'), self._get('month'), self._get('day'))

    def edate(self, v, k):
        self._set(((0, 0, 1, v), (0, 1, 1, k)))
        return self._get('edate')

    def eomonth(self, v, k):
        self._set(((0, 0, 1, v), (0, 1, 1, k)))
        return self._get('eomonth')

    def datedif(self, s, e, unit, in_cell=False):
        if in_cell:
            self._set(((0, 0, 1, s), (0, 0, 2, e), (0, 3, 1, unit)))
            return self._get('unit_cell')
        self._set(((0, 0, 1, s), (0, 0, 2, e)))
        return self._get(unit)

    def networkdays(self, s, e, hol, layout):
        cells = [(0, 0, 1, s), (0, 0, 2, e)]
        if layout != 'none':
            sh, c0, r0, nc, nr, _ = LAYOUTS[layout]
            flat = _pad(hol, nc * nr, self.blank)
            cells += [(sh, c0 + i % nc, r0 + i // nc, v) for i, v in enumerate(flat)]
        self._set(cells)
        return self._get(layout)

    def today(self, what='today'):
        if what == 'today_dif':
            self._set(((0, 0, 1, datetime.datetime(2000, 1, 1)),))
        return self._get(what)


class LongEval:
    """holiday list of 1200 cells in column AAA, all of them beyond the used range of the workbook, all overridden"""

    def __init__(self):
        from excel2pycl import Cell
        self.route = 'long'
        self.Cell = Cell
        spec = {'sheets': [{'title': 'S', 'cells': [['Z', 1, f'=NETWORKDAYS(A2,A3,AAA1:AAA{LONG_ROWS})']]}]}
        with lib.scratch() as d:
            self.p = lib.Pipe(spec, d)
        if self.p.error is not None:
            raise RuntimeError(f'translation failed: {self.p.error!r}')
        self.blank = self.p.cls.EmptyCell()

    def networkdays(self, s, e, hol, layout):
        C = self.Cell
        flat = _pad(hol, LONG_ROWS, self.blank)
        self.p.executor.set_cells([C(0, 0, 1, s), C(0, 0, 2, e)] + [C(0, 702, i, v) for i, v in enumerate(flat)])
        return self.p.value(0, 25, 0)


class FixedEval:
    """replays values that were computed in one batch (formulas with literal arguments)"""
    route = 'literal'

    def __init__(self, value):
        self.v = value

    def date(self, *a):
        return self.v

    ymd_of_date = ymd = edate = eomonth = date

    def datedif(self, *a, **k):
        return self.v

    def networkdays(self, *a):
        return self.v


_EV = {}


def get_ev(route):
    if route not in _EV:
        _EV[route] = {'runtime': lambda: HelperEval('runtime'), 'abstract': lambda: HelperEval('abstract'),
                      'override': PipeEval, 'long': LongEval}[route]()
    return _EV[route]


# ====================================================================================== single cases (contract clauses)
# every case returns None (the statement has no clause for this input), an int (number of checked results, all as
# demanded) or a tuple (key, size, what) describing a violation
def _date_exps(y, m, d):
    if 1900 <= y <= 9999:
        bases = (y,)
    elif 0 <= y <= 1899:
        bases = (y, y + 1900)      # the statement does not fix the two-digit-year window: both readings are admitted
    else:
        return []
    return [t for t in (ref_date(b, m, d) for b in bases) if t is not None]


def _date_cat(y, m, d, raw):
    if y < 1900:
        c = 'year_below_1900'
    elif d <= 0:
        c = 'day_nonpositive'
    elif d > dim(*shift_month(y, 1, m - 1)):
        c = 'day_overflow'
    elif m <= 0:
        c = 'month_nonpositive'
    elif m > 12:
        c = 'month_overflow'
    else:
        c = 'valid'
    if raw and isinstance(raw[0], float):
        return 'float_year'            # one root cause whatever the month and day are
    if any(isinstance(x, float) for x in raw):
        c += '.float'
    return c


def case_date(ev, y, m, d):
    yi, mi, di = int(y), int(m), int(d)
    exps = _date_exps(yi, mi, di)
    if not exps:
        return None
    got = ev.date(y, m, d)
    if ymd_of(got) in exps:
        return 1
    return ('C15.date.' + _date_cat(yi, mi, di, (y, m, d)), abs(mi - 1) + abs(di - 1) + abs(yi - 2024) / 100.0,
            f'DATE({y!r},{m!r},{d!r}) -> {got!r}, expected {" or ".join(fmt(t) for t in exps)}')


def case_ymd_of_date(ev, y, m, d):
    exps = _date_exps(y, m, d)
    if not exps:
        return None
    got = ev.ymd_of_date(y, m, d)
    if any(all(num_is(g, x) for g, x in zip(got, t)) for t in exps):
        return 3
    return ('C15.year_month_day.of_date.' + _date_cat(y, m, d, ()), abs(m - 1) + abs(d - 1) + abs(y - 2024) / 100.0,
            f'(YEAR,MONTH,DAY)(DATE({y},{m},{d})) -> {got!r}, expected {" or ".join(str(t) for t in exps)}')


def case_ymd(ev, spec):
    got = ev.ymd(mkv(spec))
    exp = ymd3(spec)
    if all(num_is(g, x) for g, x in zip(got, exp)):
        return 3
    kind = 'date_object' if is_dateobj(spec) else ('time_of_day' if has_tod(spec) else 'midnight')
    return ('C15.year_month_day.' + kind, abs(exp[0] - 2024), f'(YEAR,MONTH,DAY)({mkv(spec)!r}) -> {got!r}, expected {exp}')


def _shift_case(ev, name, spec, k):
    t = ymd3(spec)
    ki = whole(k)
    exp = (ref_edate if name == 'edate' else ref_eomonth)(t, ki)
    if exp is None:
        return None
    got = (ev.edate if name == 'edate' else ev.eomonth)(mkv(spec), k)
    if ymd_of(got) == exp:
        return 1
    tgt = shift_month(t[0], t[1], ki)
    if name == 'edate':
        c = 'clamp' if t[2] > dim(*tgt) else 'plain'
    else:
        c = 'february' if tgt[1] == 2 else 'other'
    if k != ki:
        c += '.fractional'
    elif isinstance(k, float):
        c += '.float'
    if is_dateobj(spec):
        c = 'date_object'              # one root cause whatever the offset is
    return (f'C15.{name}.{c}', abs(k) + abs(t[0] - 2024) / 100.0,
            f'{name.upper()}({mkv(spec)!r},{k!r}) -> {got!r}, expected {fmt(exp)}')


def case_edate(ev, spec, k):
    return _shift_case(ev, 'edate', spec, k)


def case_eomonth(ev, spec, k):
    return _shift_case(ev, 'eomonth', spec, k)


def _datedif_exp(s, e, unit):
    if unit == 'D':
        return ordinal(*e) - ordinal(*s)
    if unit == 'M':
        return ref_months(s, e)
    if unit == 'Y':
        return ref_years(s, e)
    return ref_months(s, e) - 12 * ref_years(s, e)


def case_datedif(ev, s_spec, e_spec, unit, in_cell=False):
    s, e = ymd3(s_spec), ymd3(e_spec)
    if s > e or unit not in ('D', 'M', 'Y', 'YM'):
        return None                      # the statement says nothing about a reversed pair or other units
    exp = _datedif_exp(s, e, unit)
    got = ev.datedif(mkv(s_spec), mkv(e_spec), unit, in_cell)
    if num_is(got, exp):
        return 1
    c = unit
    if unit != 'D' and ref_months_clamped(s, e) != ref_months(s, e):
        c += '.short_month_end'
    if is_dateobj(s_spec) or is_dateobj(e_spec):
        c = 'date_object'
    return (f'C15.datedif.{c}', ordinal(*e) - ordinal(*s) + abs(s[0] - 2024) / 100.0,
            f'DATEDIF({_show(s_spec)},{_show(e_spec)},{unit!r}{" via cell" if in_cell else ""}) -> {got!r}, expected {exp}')


def _nwd_features(s_spec, e_spec, hol):
    so, eo = ord_of(s_spec), ord_of(e_spec)
    a, b = min(so, eo), max(so, eo)
    f = set()
    if so > eo:
        f.add('reversed')
    hs = [h for h in hol if h != BLANK]
    ho = [ord_of(h) for h in hs]
    if hs:
        f.add('holidays')
    if len(set(ho)) < len(ho):
        f.add('duplicate')
    if any(weekday(o) >= 5 for o in ho):
        f.add('weekend_holiday')
    if any(not a <= o <= b for o in ho):
        f.add('outside_holiday')
    if any(o in (a, b) for o in ho):
        f.add('edge_holiday')
    if BLANK in hol:
        f.add('blank')
    if any(has_tod(x) for x in [s_spec, e_spec] + hs):
        f.add('time_of_day')
    if is_dateobj(s_spec) or is_dateobj(e_spec):
        f.add('date_object_end')
    if any(is_dateobj(x) for x in hs):
        f.add('date_object_holiday')
    if len(hol) > 1000:
        f.add('long_list')
    return f


def case_networkdays(ev, s_spec, e_spec, hol, layout):
    so, eo = ord_of(s_spec), ord_of(e_spec)
    hol = list(hol or [])
    exp = ref_networkdays(so, eo, [ord_of(h) for h in hol if h != BLANK])
    got = ev.networkdays(mkv(s_spec), mkv(e_spec), hol, layout)
    if num_is(got, exp):
        return 1
    f = _nwd_features(s_spec, e_spec, hol)
    hs = [h for h in hol if h != BLANK]
    shown = ','.join(fmt(ymd3(h)) for h in hs[:8]) + (f',.. ({len(hs)})' if len(hs) > 8 else '')
    return ('C15.networkdays.' + ('+'.join(sorted(f)) or 'plain'), abs(eo - so) + 10 * len(hol) + abs(ymd3(s_spec)[0] - 2024) / 100.0,
            f'NETWORKDAYS({mkv(s_spec)!r},{mkv(e_spec)!r},[{shown}] as {layout}) -> {got!r}, expected {exp}')


CASES = {'date': case_date, 'ymd_of_date': case_ymd_of_date, 'ymd': case_ymd, 'edate': case_edate, 'eomonth': case_eomonth,
         'datedif': case_datedif, 'networkdays': case_networkdays}


class Acc:
    def __init__(self, ev):
        self.ev = ev
        self.route = ev.route
        self.evals = 0
        self.fails = {}
        self.samples = []

    def run(self, f, *args):
        r = CASES[f](self.ev, *args)
        if r is None:
            return
        if r.__class__ is int:
            self.evals += r
            return
        self.evals += 1
        key, size, what = r
        if self.route == 'abstract':
            key += '[abstract]'
        self.add(key, size, f'[{self.route}] {what}', {'kind': 'case', 'route': self.route, 'f': f, 'args': codec.enc(list(args))})

    def add(self, key, size, what, replay):
        cur = self.fails.get(key)
        if cur is None or (size, what) < (cur[0], cur[1]):
            self.fails[key] = (size, what, replay)

    def sample(self, obj):
        if len(self.samples) < 1:
            self.samples.append(obj)


# ====================================================================================== sweeps
DATE_EXTREME_Y = [0, 1, 99, 100, 1899, 1900, 1901, 1904, 1999, 2000, 2049, 2050, 2051, 2100, 2400, 9998, 9999]
DATE_EXTREME_M = [-1200, -25, -13, -12, -11, -1, 0, 1, 2, 3, 11, 12, 13, 14, 24, 25, 1200]
DATE_EXTREME_D = [-36525, -1000, -366, -365, -59, -31, -30, -2, -1, 0, 1, 2, 28, 29, 30, 31, 32, 59, 60, 61, 365, 366, 367, 1000,
                  36525, 100000]


def sweep_date_box(acc, rng, years, mlo, mhi, dlo, dhi, inverse=True):
    for y in years:
        for m in range(mlo, mhi + 1):
            for d in range(dlo, dhi + 1):
                acc.run('date', y, m, d)
                if inverse:
                    acc.run('ymd_of_date', y, m, d)
    acc.sample({'DATE': [years[0], mlo, dlo], 'expected': list(_date_exps(years[0], mlo, dlo)[0])})


def sweep_date_extremes(acc, rng):
    for y in DATE_EXTREME_Y:
        for m in DATE_EXTREME_M:
            for d in DATE_EXTREME_D:
                acc.run('date', y, m, d)
                acc.run('ymd_of_date', y, m, d)
    # integer-valued doubles (the only numbers Excel has) in any argument position
    for y in (2023, 2024):
        for m in range(-14, 27):
            for d in (-70, -31, -2, -1, 0, 1, 2, 28, 29, 30, 31, 32, 60, 99):
                acc.run('date', float(y), m, d)
                acc.run('date', y, float(m), d)
                acc.run('date', y, m, float(d))
                acc.run('date', float(y), float(m), float(d))


def ymd_values():
    out = []
    wins = [((1, 1, 1), 5), ((1899, 12, 25), 75), ((1999, 12, 25), 75), ((2023, 12, 25), 75), ((2050, 12, 25), 12),
            ((2100, 2, 25), 8), ((9999, 12, 25), 7)]
    for start, n in wins:
        o = ordinal(*start)
        for i in range(n):
            t = from_ordinal(o + i)
            out.append(t)
            out.append(t + (23, 59, 59, 999999))
            out.append(t + (0, 0, 1, 0))
            out.append(t + (12, 0, 0, 0))
    return out


def sweep_ymd(acc, rng):
    for spec in ymd_values():
        acc.run('ymd', spec)
    acc.sample({'YEAR/MONTH/DAY of': '2024-02-29 23:59:59.999999', 'expected': [2024, 2, 29]})


def shift_starts(tier, route=None):
    """start dates for EDATE / EOMONTH"""
    out = []
    if tier == 'quick':
        spans = [((2023, 12, 1), (2024, 3, 31) if route == 'override' else (2025, 3, 31))]
        tails = [1900, 1904, 1999, 2000, 2001, 2049, 2050, 2051, 2099, 2100, 2101, 2400, 9990]
    else:
        spans = [((1898, 1, 1), (1904, 12, 31)), ((1998, 1, 1), (2004, 12, 31)), ((2020, 1, 1), (2028, 12, 31)),
                 ((2048, 1, 1), (2053, 12, 31)), ((2098, 1, 1), (2104, 12, 31))]
        tails = [1, 4, 100, 400, 1600, 1700, 1800, 2200, 2300, 2400, 5000, 9990, 9994, 9999]
    for a, b in spans:
        out += [from_ordinal(o) for o in range(ordinal(*a), ordinal(*b) + 1)]
    for y in tails:
        for m in range(1, 13):
            out += [(y, m, d) for d in (1, 15, 27, 28, 29, 30, 31) if d <= dim(y, m)]
    return out


FRACTIONS = [0.5, -0.5, 0.9, -0.9, 1.5, -1.5, 11.99, -11.99, 12.000001, -12.000001, 59.5, -59.5, 2.0, -2.0, 12.0, -13.0, 0.0]


def sweep_shift(acc, rng, tier, part, nparts):
    starts = shift_starts(tier, acc.route)
    for i, t in enumerate(starts):
        if i % nparts != part:
            continue
        for k in range(-60, 61):
            acc.run('edate', t, k)
            acc.run('eomonth', t, k)
        if t[2] >= 28 or t[2] == 1:
            for k in FRACTIONS:
                acc.run('edate', t, k)
                acc.run('eomonth', t, k)
            for k in (-1200, -121, -120, -61, 61, 120, 121, 1200):
                acc.run('edate', t, k)
                acc.run('eomonth', t, k)
    acc.sample({'EDATE': [[2023, 12, 31], 2], 'expected': [2024, 2, 29]})


def sweep_datedif_window(acc, rng, lo, hi, part, nparts, sstep, cell_every):
    """all pairs s <= e of the window [lo, hi] (day numbers) whose start index is in this part"""
    days = [from_ordinal(o) for o in range(lo, hi + 1)]
    n = 0
    for i in range(0, len(days), sstep):
        if (i // sstep) % nparts != part:
            continue
        s = days[i]
        for j in range(i, len(days)):
            e = days[j]
            for u in ('D', 'M', 'Y', 'YM'):
                acc.run('datedif', s, e, u)
            n += 1
            if cell_every and n % cell_every == 0:
                acc.run('datedif', s, e, ('D', 'M', 'Y', 'YM')[(n // cell_every) % 4], True)
    acc.sample({'DATEDIF': [[2024, 1, 31], [2024, 3, 1]], 'expected': {'D': 30, 'M': 1, 'Y': 0, 'YM': 1}})


def sweep_datedif_random(acc, rng, n):
    """pairs anywhere in 1899..2101 (any span), near-anniversary pairs, and spans of centuries up to year 9999"""
    lo, hi = ordinal(1899, 1, 1), ordinal(2101, 12, 31)
    for i in range(n):
        mode = i % 4
        if mode == 0:
            a, b = rng.randint(lo, hi), rng.randint(lo, hi)
            s, e = from_ordinal(min(a, b)), from_ordinal(max(a, b))
        elif mode == 1:                      # end within a few days of an anniversary / monthiversary of the start
            s = from_ordinal(rng.randint(lo, hi - 40000))
            t = ref_edate(s, rng.choice([1, 11, 12, 13, 23, 24, 48, 59, 60, 120, 1200]))
            e = from_ordinal(ordinal(*t) + rng.randint(-3, 3))
        elif mode == 2:                      # starts on days 28..31, ends on days 27..31 / 1..2
            y, m = rng.randint(1899, 2100), rng.randint(1, 12)
            s = (y, m, rng.randint(28, dim(y, m)))
            y2, m2 = shift_month(y, m, rng.randint(0, 40))
            e = (y2, m2, rng.choice([1, 2, 27, 28, dim(y2, m2)]))
        else:
            a, b = rng.randint(ordinal(1000, 1, 1), MAX_ORD), rng.randint(ordinal(1000, 1, 1), MAX_ORD)
            s, e = from_ordinal(min(a, b)), from_ordinal(max(a, b))
        if s > e:
            continue
        for u in ('D', 'M', 'Y', 'YM'):
            acc.run('datedif', s, e, u)
        acc.run('datedif', s, e, ('D', 'M', 'Y', 'YM')[i % 4], True)


TODS = [(0, 0, 0, 0), (23, 59, 59, 999999), (12, 30, 0, 0), (0, 0, 1, 0)]


def _first_with(o, pred, step=1):
    while not pred(o):
        o += step
    return o


def holiday_menu(so, eo, lo, hi, rng, nrandom, cap_layouts):
    a, b = min(so, eo), max(so, eo)
    T = from_ordinal
    wd_in = _first_with(a, lambda o: weekday(o) < 5)
    wd_last = _first_with(b, lambda o: weekday(o) < 5, -1)
    sat = _first_with(a, lambda o: weekday(o) == 5)
    menu = [(None, 'none'),
            ([], 'col'),
            ([T((a + b) // 2)], 'col'),
            ([T(wd_in), BLANK, T(wd_in), T(wd_in), T(wd_last)], 'col'),
            ([T(sat), T(sat + 1), T(sat), T(sat + 7)], 'row'),
            ([T(a - 1), T(b + 1)], 'col'),
            ([T(a), T(b)], 'grid'),
            ([BLANK, T(a - 1), BLANK, T(a), T(a + 1), T(b - 1), T(b), T(b + 1), T(a)], 'sheetH')]
    for _ in range(nrandom):
        layout = rng.choice(cap_layouts)
        cap = LONG_ROWS if layout == 'long' else LAYOUTS[layout][3] * LAYOUTS[layout][4]
        k = rng.randint(1, min(cap, 14))
        hol = []
        for _ in range(k):
            r = rng.random()
            if r < 0.15:
                hol.append(BLANK)
            elif r < 0.35 and any(h != BLANK for h in hol):
                hol.append(rng.choice([h for h in hol if h != BLANK]))
            else:
                t = T(rng.randint(lo - 3, hi + 3))
                hol.append(t + rng.choice(TODS) if rng.random() < 0.2 else t)
        menu.append((hol, layout))
    return menu


def sweep_nwd_window(acc, rng, lo, hi, part, nparts, nrandom):
    """all ordered pairs (start, end) of the window, both directions, x the holiday menu"""
    n = 0
    for i, so in enumerate(range(lo, hi + 1)):
        if i % nparts != part:
            continue
        for eo in range(lo, hi + 1):
            s, e = from_ordinal(so), from_ordinal(eo)
            n += 1
            if n % 7 == 0:           # a time of day on the interval ends does not change their dates
                s, e = s + TODS[n % 4], e + TODS[(n // 4) % 4]
            for hol, layout in holiday_menu(so, eo, lo, hi, rng, nrandom, ['col', 'grid', 'row', 'sheetH']):
                acc.run('networkdays', s, e, hol, layout)
            if abs(so - eo) <= 1:    # the order of the two DATES decides the sign, whatever the times of day are
                d0, d1 = from_ordinal(so), from_ordinal(eo)
                for ta in TODS:
                    for tb in TODS:
                        acc.run('networkdays', d0 + ta, d1 + tb, None, 'none')
                        acc.run('networkdays', d0 + ta, d1 + tb, [from_ordinal(so + 2) + tb, BLANK], 'col')
    acc.sample({'NETWORKDAYS': [[2024, 1, 1], [2024, 1, 31], ['2024-01-02', '2024-01-02', '2024-01-06']], 'expected': 22})


def sweep_nwd_random(acc, rng, n, maxspan, long_lists):
    """long intervals anywhere in 1899..2101 (and a few up to 9999), random holiday lists; with `long_lists` the lists have
    1001..1200 entries (helpers and the AAA1:AAA1200 workbook)"""
    lo, hi = ordinal(1899, 1, 1), ordinal(2101, 12, 31)
    if long_lists:          # small witnesses first: the entries that matter sit behind 1000 / 1100 others
        a, b = (2024, 1, 1), (2024, 1, 31)
        for pre in (1000, 1100, LONG_ROWS - 1):
            acc.run('networkdays', a, b, [BLANK] * pre + [(2024, 1, 3)], 'long')
            acc.run('networkdays', b, a, [(2024, 1, 2)] * pre + [(2024, 1, 3)], 'long')
            acc.run('networkdays', a, b, [(2023, 12, 29)] * pre + [(2024, 1, 31)], 'long')
    for i in range(n):
        if i % 10 == 9:
            so = rng.randint(ordinal(2101, 1, 1), MAX_ORD - maxspan - 10)
        else:
            so = rng.randint(lo, hi)
        eo = so + rng.choice([-1, 1]) * rng.randint(0, maxspan)
        eo = max(1 + 10, eo)
        a, b = min(so, eo), max(so, eo)
        if long_lists:
            k = rng.randint(1001, LONG_ROWS)
            layout = 'long'
        else:
            layout = rng.choice(['col', 'grid', 'row', 'sheetH'])
            k = rng.randint(0, LAYOUTS[layout][3] * LAYOUTS[layout][4])
        hol = []
        for _ in range(k):
            r = rng.random()
            if r < 0.1:
                hol.append(BLANK)
            elif r < 0.3 and any(h != BLANK for h in hol):
                hol.append(rng.choice([h for h in hol if h != BLANK]))
            else:
                t = from_ordinal(rng.randint(max(1, a - 5), min(MAX_ORD, b + 5)))
                hol.append(t + rng.choice(TODS) if rng.random() < 0.1 else t)
        acc.run('networkdays', from_ordinal(so), from_ordinal(eo), hol, layout)
        if i % 5 == 0:
            acc.run('networkdays', from_ordinal(so), from_ordinal(eo), None, 'none')


def sweep_date_objects(acc, rng):
    """datetime.date objects (what C10 calls a date next to the date-time at its midnight) as override values"""
    D = lambda t: ('d',) + t
    days = [(1900, 2, 28), (1999, 12, 31), (2000, 2, 29), (2024, 1, 1), (2024, 1, 31), (2024, 2, 29), (2051, 3, 31)]
    for t in days:
        acc.run('ymd', D(t))
        for k in (-13, -1, 0, 1, 12, 25):
            acc.run('edate', D(t), k)
            acc.run('eomonth', D(t), k)
    for s in days:
        for e in days:
            for u in ('D', 'M', 'Y', 'YM'):
                acc.run('datedif', D(s), D(e), u)
                acc.run('datedif', s, D(e), u)
    a, b = (2024, 1, 1), (2024, 1, 31)
    for s, e in ((D(a), D(b)), (a, D(b)), (D(b), a)):
        acc.run('networkdays', s, e, None, 'none')
    acc.run('networkdays', a, b, [D((2024, 1, 3))], 'col')
    acc.run('networkdays', a, b, [(2024, 1, 2), D((2024, 1, 3)), D((2024, 1, 6))], 'grid')
    acc.run('networkdays', b, a, [D((2024, 1, 3)), D((2024, 1, 3))], 'sheetH')
    acc.sample({'NETWORKDAYS': ['2024-01-01', '2024-01-31', ['datetime.date(2024, 1, 3)']], 'expected': 22})


# ------------------------------------------------------------------ formulas with literal arguments (one workbook per batch)
def _lit(v):
    if isinstance(v, tuple):
        return 'DATE(%d,%d,%d)' % v
    if isinstance(v, str):
        return '"%s"' % v
    if isinstance(v, float) and v == int(v):
        return '%d/2' % (2 * int(v))       # a division: the generated code computes a double
    return repr(v)


def render(f, args):
    if f == 'date':
        return ['=DATE(%s,%s,%s)' % tuple(_lit(a) for a in args)]
    if f == 'ymd_of_date':
        inner = 'DATE(%s,%s,%s)' % tuple(_lit(a) for a in args)
        return [f'=YEAR({inner})', f'=MONTH({inner})', f'=DAY({inner})']
    if f in ('edate', 'eomonth'):
        return [f'={f.upper()}({_lit(args[0])},{_lit(args[1])})']
    if f == 'datedif':
        return [f'=DATEDIF({_lit(args[0])},{_lit(args[1])},{_lit(args[2])})']
    if f == 'networkdays':
        return [f'=NETWORKDAYS({_lit(args[0])},{_lit(args[1])})']
    raise ValueError(f)


def literal_cases(tier, rng):
    cs = []
    ms = [-14, -13, -12, -11, -1, 0, 1, 2, 12, 13, 14, 25, 26]
    ds = [-70, -31, -30, -2, -1, 0, 1, 28, 29, 30, 31, 32, 60, 99]
    for y in ([1900, 2024, 2051] if tier == 'quick' else [100, 1900, 1999, 2000, 2023, 2024, 2051, 2100, 9998]):
        for m in ms:
            for d in ds:
                cs.append(('date', (y, m, d)))
                if (m + d) % 5 == 0:
                    cs.append(('ymd_of_date', (y, m, d)))
                if (m + d) % 7 == 0:      # integer-valued results of a division as year / month / day
                    cs += [('date', (float(y), m, d)), ('date', (y, float(m), d)), ('date', (y, m, float(d)))]
    starts = [(2023, 12, 31), (2024, 1, 29), (2024, 1, 30), (2024, 1, 31), (2024, 2, 29), (2023, 3, 31), (1999, 12, 31),
              (2100, 1, 31), (2051, 8, 31), (1900, 1, 31)]
    ks = [-60, -37, -25, -13, -12, -11, -2, -1, 0, 1, 2, 11, 12, 13, 14, 25, 37, 60, 1.5, -1.5, -0.9]
    for t in starts:
        for k in (ks if tier == 'thorough' else ks[::2] + [-1.5]):
            cs.append(('edate', (t, k)))
            cs.append(('eomonth', (t, k)))
    pairs = [((2024, 1, 31), (2024, 3, 1)), ((2019, 12, 8), (2020, 12, 6)), ((2019, 1, 1), (2020, 12, 31)),
             ((2020, 2, 29), (2021, 2, 28)), ((2020, 2, 29), (2024, 2, 29)), ((2023, 1, 31), (2023, 2, 28)),
             ((1999, 12, 31), (2000, 1, 1)), ((2050, 6, 15), (2051, 6, 14)), ((2050, 6, 15), (2051, 6, 15)),
             ((2024, 3, 15), (2024, 3, 15)), ((1900, 2, 28), (1900, 3, 1)), ((2099, 12, 31), (2101, 1, 1))]
    for s, e in pairs:
        for u in ('D', 'M', 'Y', 'YM'):
            cs.append(('datedif', (s, e, u)))
        cs.append(('networkdays', (s, e, None, 'none')))
        cs.append(('networkdays', (e, s, None, 'none')))
    return cs


LITERAL_PARTS = {'quick': 8, 'thorough': 16}


LITERAL_FAMILY = {'date': 'date', 'ymd_of_date': 'date', 'edate': 'shift', 'eomonth': 'shift', 'datedif': 'datedif',
                  'networkdays': 'nwd'}


def sweep_literal(acc, rng, tier, family='date', part=0, nparts=1):
    cs = [c for c in literal_cases(tier, rng) if LITERAL_FAMILY[c[0]] == family][part::nparts]
    formulas, spans = [], []
    for f, args in cs:
        fs = render(f, args)
        spans.append((len(formulas), len(fs)))
        formulas += fs
    r = lib.eval_formulas(formulas)
    if r['error'] is not None:
        acc.evals += 1
        acc.add('C15.literal.translate', 0, f'[literal] translation of {len(formulas)} date formulas failed: {r["error"]}',
                {'kind': 'literal_all', 'tier': tier, 'family': family, 'part': part, 'nparts': nparts})
        return
    vals = [codec.dec(v, make_empty=lambda: 0) for v in r['values']]
    for (f, args), (i, n) in zip(cs, spans):
        got = vals[i] if n == 1 else tuple(vals[i:i + n])
        res = CASES[f](FixedEval(got), *args)
        if res is None:
            continue
        if res.__class__ is int:
            acc.evals += res
            continue
        acc.evals += 1
        key, size, what = res
        acc.add(key, size, f'[literal {" ".join(render(f, args))}] {what}',
                {'kind': 'literal', 'f': f, 'args': codec.enc(list(args))})
    if family == 'date':
        acc.sample({'formula': '=DATE(2024,-13,-70)', 'expected': list(ref_date(2024, -13, -70))})


# ------------------------------------------------------------------ TODAY
def _local_ref():
    lt = time.localtime()
    return (lt.tm_year, lt.tm_mon, lt.tm_mday)


def _today_probe(acc, ev, label):
    """every observation is bracketed by two readings of the reference clock (midnight race)"""
    for what in (('today', 'today_y', 'today_m', 'today_d') if isinstance(ev, HelperEval) else
                 ('today', 'today_y', 'today_m', 'today_d', 'today_dif', 'today_nwd')):
        r0 = _local_ref()
        got = ev.today(what)
        r1 = _local_ref()
        oks = []
        for r in (r0, r1):
            if what == 'today':
                oks.append(ymd_of(got) == r and isinstance(got, datetime.datetime))
            elif what in ('today_y', 'today_m', 'today_d'):
                oks.append(num_is(got, r[('today_y', 'today_m', 'today_d').index(what)]))
            elif what == 'today_dif':
                oks.append(num_is(got, ordinal(*r) - ordinal(2000, 1, 1)))
            else:
                oks.append(num_is(got, 1 if weekday(ordinal(*r)) < 5 else 0))
        acc.evals += 1
        if not any(oks):
            sfx = '[abstract]' if ev.route == 'abstract' else ''
            acc.add(f'C15.today.{label}{sfx}', len(acc.fails),
                    f'[{ev.route}, TZ={os.environ.get("TZ")!r}] {ZF[ZI[what]]} -> {got!r}, but the local date is {fmt(r1)}',
                    {'kind': 'today', 'key': f'C15.today.{label}{sfx}'})


def check_today(acc):
    """TODAY in the process time zone, then translated under UTC-12 and re-evaluated (same Executor) under UTC+14: the two
    local dates always differ, so a value frozen at translation / first evaluation, or taken from UTC, is seen"""
    old = os.environ.get('TZ')
    try:
        for route in ('runtime', 'abstract'):
            _today_probe(acc, HelperEval(route), 'process_tz')
        _today_probe(acc, PipeEval(), 'process_tz')
        os.environ['TZ'] = 'AAA12'
        time.tzset()
        west = _local_ref()
        ev = PipeEval()
        hs = [HelperEval('runtime'), HelperEval('abstract')]
        for e in [ev] + hs:
            _today_probe(acc, e, 'utc_minus_12')
        os.environ['TZ'] = 'BBB-14'
        time.tzset()
        east = _local_ref()
        switched = west != east and ordinal(*east) - ordinal(*west) in (1, 2)
        if switched:
            for e in [ev] + hs:
                _today_probe(acc, e, 'utc_plus_14_same_executor')
            _today_probe(acc, PipeEval(), 'utc_plus_14')
        acc.sample({'TZ': 'AAA12 then BBB-14', 'local dates': [fmt(west), fmt(east)], 'switch_effective': switched})
    finally:
        if old is None:
            os.environ.pop('TZ', None)
        else:
            os.environ['TZ'] = old
        time.tzset()


# ------------------------------------------------------------------ workbooks with date constants (contexts)
CTX_ROWS = [1, 2, 99, 100, 101, 999, 1000, 1001]
CTX_HOL = {'S': [(2024, 1, 2), (2024, 1, 2), BLANK, (2024, 1, 6), (2024, 1, 31, 12, 0, 0, 0), (2051, 4, 3), BLANK, (1999, 12, 31)],
           'T': [(2024, 2, 29), BLANK, (2024, 2, 29), (2100, 3, 1), (2024, 3, 3), BLANK, (2000, 1, 3), (2051, 4, 4)]}
CTX_DATA = {'S': [((2024, 1, 31), (2024, 3, 1), 1), ((2023, 12, 31), (2024, 2, 29), 2), ((1999, 12, 31), (2000, 3, 1), -10),
                  ((2000, 2, 29), (2001, 2, 28), 12), ((2050, 12, 31), (2051, 12, 30), 14), ((2051, 3, 31), (2052, 2, 29), -1),
                  ((2100, 1, 31), (2100, 3, 1), 1), ((1900, 1, 31), (1900, 3, 1), 1)],
            'T': [((2024, 2, 29), (2025, 2, 28), 12), ((2024, 3, 31), (2024, 4, 30), -1), ((2000, 1, 1), (2000, 12, 31), 60),
                  ((2099, 12, 31), (2100, 12, 31), 2), ((2051, 1, 1), (2051, 1, 1), 0), ((2023, 5, 31), (2024, 2, 29), -3),
                  ((1999, 1, 31), (2001, 3, 1), 25), ((2048, 2, 29), (2052, 2, 28), 48)]}
CTX_COLS = [('E', 'M'), ('F', 'edate'), ('G', 'eomonth'), ('H', 'nwd'), ('I', 'year_end'), ('J', 'date_expr'), ('AAA', 'YM'),
            ('AAB', 'nwd_rev'), ('AAC', 'Y'), ('AAD', 'D')]


def _ctx_formula(kind, r):
    return {'M': f'=DATEDIF(A{r},B{r},"M")', 'YM': f'=DATEDIF(A{r},B{r},"YM")', 'Y': f'=DATEDIF(A{r},B{r},"Y")',
            'D': f'=DATEDIF(A{r},B{r},"D")', 'edate': f'=EDATE(A{r},C{r})', 'eomonth': f'=EOMONTH(A{r},C{r})',
            'nwd': f'=NETWORKDAYS(A{r},B{r},K1:K8)', 'nwd_rev': f'=NETWORKDAYS(B{r},A{r},K1:K8)', 'year_end': f'=YEAR(B{r})',
            'date_expr': f'=DATE(YEAR(A{r}),MONTH(A{r})+C{r},DAY(A{r})-C{r})'}[kind]


def _ctx_expected(kind, s, e, k, hol):
    ho = [ord_of(h) for h in hol if h != BLANK]
    if kind in ('M', 'YM', 'Y', 'D'):
        return _datedif_exp(s, e, kind)
    if kind == 'edate':
        return ref_edate(s, k)
    if kind == 'eomonth':
        return ref_eomonth(s, k)
    if kind == 'nwd':
        return ref_networkdays(ordinal(*s), ordinal(*e), ho)
    if kind == 'nwd_rev':
        return ref_networkdays(ordinal(*e), ordinal(*s), ho)
    if kind == 'year_end':
        return e[0]
    return ref_date(s[0], s[1] + k, s[2] - k)


def _ctx_spec(data, hols):
    sheets = []
    for title in ('S', 'T'):
        cells = []
        for r, (s, e, k) in zip(CTX_ROWS, data[title]):
            cells += [['A', r, codec.enc(mkv(s))], ['B', r, codec.enc(mkv(e))], ['C', r, k]]
            cells += [[col, r, _ctx_formula(kind, r)] for col, kind in CTX_COLS]
        for i, h in enumerate(hols[title]):
            if h != BLANK:
                cells.append(['K', i + 1, codec.enc(mkv(h))])
        sheets.append({'title': title, 'cells': cells})
    return {'sheets': sheets}


def _ctx_ok(kind, got, exp):
    return (ymd_of(got) == exp) if kind in ('edate', 'eomonth', 'date_expr') else num_is(got, exp)


def check_contexts(acc, tier):
    """the same formula text on two sheets with different constants, rows 1..1001, columns up to AAD, whole-file and
    entry-point translation, overrides of constant / blank / formula cells, one Parser for two workbooks"""
    from excel2pycl import Cell, Parser, Executor
    from openpyxl.utils import column_index_from_string as colidx

    def fail(key, what):
        acc.add(key, 0, what, {'kind': 'contexts', 'key': key, 'tier': tier})

    with lib.scratch() as d:
        spec = _ctx_spec(CTX_DATA, CTX_HOL)
        p = lib.Pipe(spec, d)
        if p.error is not None:
            acc.evals += 1
            fail('C15.contexts.translate', f'whole-file translation failed: {p.error!r}')
            return
        # (1) whole file, both sheets
        for ti, title in enumerate(('S', 'T')):
            for r, (s, e, k) in zip(CTX_ROWS, CTX_DATA[title]):
                for col, kind in CTX_COLS:
                    exp = _ctx_expected(kind, s, e, k, CTX_HOL[title])
                    got = p.value(title if r % 2 else ti, colidx(col) - 1, r - 1)
                    acc.evals += 1
                    if not _ctx_ok(kind, got, exp):
                        fail(f'C15.contexts.whole_file.{kind}', f'sheet {title} {col}{r} {_ctx_formula(kind, r)} with A={fmt(s)} '
                             f'B={fmt(e)} C={k} -> {got!r}, expected {exp}')
        # (2) overrides on the whole-file class: constant start replaced, blank holiday cell filled, constant holiday blanked,
        #     the same cell set twice (the most recent value counts); sheet S is untouched by overrides of sheet T
        ex = p.executor
        blank = p.cls.EmptyCell()
        r = 1001
        s0, e0, k0 = CTX_DATA['T'][CTX_ROWS.index(r)]
        s1 = (2024, 1, 31)
        ex.set_cells([Cell('T', 'A', str(r), mkv((1990, 1, 1)))])
        ex.set_cells([Cell('T', 'A', str(r), mkv(s1)), Cell('T', 'K', '2', mkv((2024, 2, 1))), Cell('T', 'K', '1', blank),
                      Cell('T', 'K', '3', blank), Cell('T', 'K', '1200', mkv((2024, 2, 2)))])
        hol1 = [BLANK, (2024, 2, 1), BLANK] + CTX_HOL['T'][3:]
        for col, kind in CTX_COLS:
            exp = _ctx_expected(kind, s1, e0, k0, hol1)
            if kind in ('M', 'YM', 'Y', 'D') and s1 > e0:
                continue
            got = p.value('T', colidx(col) - 1, r - 1)
            acc.evals += 1
            if not _ctx_ok(kind, got, exp):
                fail(f'C15.contexts.override.{kind}', f'sheet T {col}{r} {_ctx_formula(kind, r)} after overriding A{r}={fmt(s1)}, '
                     f'K1=blank, K2=2024-02-01, K3=blank -> {got!r}, expected {exp}')
        s, e, k = CTX_DATA['S'][CTX_ROWS.index(r)]
        for col, kind in CTX_COLS:
            exp = _ctx_expected(kind, s, e, k, CTX_HOL['S'])
            got = p.value('S', colidx(col) - 1, r - 1)
            acc.evals += 1
            if not _ctx_ok(kind, got, exp):
                fail(f'C15.contexts.other_sheet.{kind}', f'sheet S {col}{r} after overriding cells of sheet T -> {got!r}, expected {exp}')
        # (3) entry-point translation of single cells
        targets = [(t, r, c) for t in ('S', 'T') for r in CTX_ROWS for c in CTX_COLS]
        if tier == 'quick':
            targets = targets[::9]
        for title, r, (col, kind) in targets:
            s, e, k = CTX_DATA[title][CTX_ROWS.index(r)]
            exp = _ctx_expected(kind, s, e, k, CTX_HOL[title])
            text = lib.translate(p.path, entry=(title, col, str(r)))
            acc.evals += 1
            if isinstance(text, codec.Raised):
                fail(f'C15.contexts.entry_point.{kind}', f'entry {title}!{col}{r}: translation raised {text!r}')
                continue
            cls = lib.call_catch(lib.load_class_from_text, text)
            if isinstance(cls, codec.Raised):
                fail(f'C15.contexts.entry_point.{kind}', f'entry {title}!{col}{r}: generated class does not load: {cls!r}')
                continue
            e2 = Executor().set_executed_class(class_object=cls)
            got = lib.call_catch(lambda: e2.get_cell(Cell(title, col, str(r))).value)
            if not _ctx_ok(kind, got, exp):
                fail(f'C15.contexts.entry_point.{kind}', f'entry {title}!{col}{r} {_ctx_formula(kind, r)} -> {got!r}, expected {exp}')
        # (4) one Parser, one entry Cell object, two workbooks with the same formulas and other constants
        data2 = {t: [(ref_edate(s, 7), ref_edate(e, 19), k + 1) for (s, e, k) in rows] for t, rows in CTX_DATA.items()}
        hol2 = {'S': CTX_HOL['T'], 'T': CTX_HOL['S']}
        path2 = os.path.join(d, 'wb2.xlsx')
        lib.write_workbook(_ctx_spec(data2, hol2), path2)
        parser = Parser()
        for (col, kind), r in zip(CTX_COLS, CTX_ROWS + CTX_ROWS[:2]):
            entry = Cell('T', col, str(r))
            for path, data, hols in ((p.path, CTX_DATA, CTX_HOL), (path2, data2, hol2)):
                s, e, k = data['T'][CTX_ROWS.index(r)]
                exp = _ctx_expected(kind, s, e, k, hols['T'])
                text = lib.call_catch(lambda: parser.set_excel_file_path(path).set_entrypoint_cell(entry).get_translation())
                acc.evals += 1
                if isinstance(text, codec.Raised):
                    fail(f'C15.contexts.parser_reuse.{kind}', f're-used Parser, entry T!{col}{r}: {text!r}')
                    continue
                cls = lib.call_catch(lib.load_class_from_text, text)
                got = cls if isinstance(cls, codec.Raised) else lib.call_catch(
                    lambda: Executor().set_executed_class(class_object=cls).get_cell(Cell('T', col, str(r))).value)
                if not _ctx_ok(kind, got, exp):
                    fail(f'C15.contexts.parser_reuse.{kind}', f're-used Parser, workbook {os.path.basename(path)}, entry T!{col}{r} '
                         f'{_ctx_formula(kind, r)} with A={fmt(s)} B={fmt(e)} C={k} -> {got!r}, expected {exp}')
    acc.sample({'sheet': 'T', 'cell': 'AAA1001', 'formula': '=DATEDIF(A1001,B1001,"YM")', 'A': '2048-02-29', 'B': '2052-02-28',
                'expected': 11})


# ====================================================================================== task plan / pool
W = {  # windows as day-number pairs
    'leap3y': (ordinal(2023, 1, 1), ordinal(2025, 12, 31)),
    'leap2y': (ordinal(2023, 7, 1), ordinal(2025, 6, 30)),
    'c1900': (ordinal(1899, 6, 1), ordinal(1901, 6, 30)),
    'c2000': (ordinal(1999, 6, 1), ordinal(2001, 6, 30)),
    'c2100': (ordinal(2099, 6, 1), ordinal(2101, 6, 30)),
    'y2050': (ordinal(2049, 6, 1), ordinal(2051, 6, 30)),
    'winter24': (ordinal(2023, 12, 1), ordinal(2024, 3, 31)),
    'mid': (ordinal(2023, 6, 1), ordinal(2025, 3, 31)),
    'nwd24': (ordinal(2023, 12, 18), ordinal(2024, 3, 10)),
    'nwd1900': (ordinal(1900, 2, 12), ordinal(1900, 3, 11)),
    'nwd2100': (ordinal(2100, 2, 15), ordinal(2100, 3, 14)),
    'nwd2051': (ordinal(2050, 12, 20), ordinal(2051, 1, 16)),
    'nwd2000': (ordinal(1999, 12, 20), ordinal(2000, 3, 5)),
}
HELPERS = ('runtime', 'abstract')
ALL3 = ('runtime', 'abstract', 'override')
NP = 16


def plan(tier):
    """[(check, route, sweep name, kwargs)]"""
    T = []
    q = tier == 'quick'
    # ---- DATE and its inverses
    box_years = [1900, 1999, 2000, 2023, 2024, 100, 2100] if q else \
        [1900, 1999, 2000, 2023, 2024, 100, 2100, 1904, 2050, 2051, 2096, 2400, 9998]
    box = dict(mlo=-14, mhi=26, dlo=-70, dhi=99) if q else dict(mlo=-30, mhi=40, dlo=-400, dhi=400)
    for route in ALL3:
        for y in box_years:
            T.append(('date', route, 'date_box', dict(years=[y], inverse=not (q and route == 'abstract'), **box)))
        T.append(('date', route, 'date_extremes', {}))
        T.append(('ymd', route, 'ymd', {}))
    for part in range(LITERAL_PARTS[tier]):
        T.append(('date', 'literal', 'literal', dict(tier=tier, family='date', part=part, nparts=LITERAL_PARTS[tier])))
    for fam in ('shift', 'datedif', 'nwd'):
        T.append((fam, 'literal', 'literal', dict(tier=tier, family=fam, part=0, nparts=1)))
    # ---- EDATE / EOMONTH
    for route in ALL3:
        for part in range(NP):
            T.append(('shift', route, 'shift', dict(tier=tier, part=part, nparts=NP)))
    # ---- DATEDIF
    for route in HELPERS:
        for part in range(NP):
            T.append(('datedif', route, 'datedif_window', dict(win='leap2y' if q else 'leap3y', part=part, nparts=NP,
                                                                sstep=2 if (q and route == 'abstract') else 1, cell_every=0)))
        for win in ('c1900', 'c2000', 'c2100', 'y2050'):
            for part in range(4):
                T.append(('datedif', route, 'datedif_window', dict(win=win, part=part, nparts=4, sstep=5 if q else 1, cell_every=0)))
    for part in range(NP):
        T.append(('datedif', 'override', 'datedif_window',
                  dict(win='winter24' if q else 'mid', part=part, nparts=NP, sstep=1, cell_every=5)))
    for route in ALL3:
        for part in range(4):
            T.append(('datedif', route, 'datedif_random', dict(n=1500 if q else 20000, salt=part)))
    # ---- NETWORKDAYS
    wins = ['nwd24'] if q else ['nwd24', 'nwd1900', 'nwd2100', 'nwd2051', 'nwd2000']
    for route in ALL3:
        for win in wins:
            for part in range(NP if route == 'override' else 8):
                T.append(('nwd', route, 'nwd_window', dict(win=win, part=part, nparts=NP if route == 'override' else 8,
                                                           nrandom=1 if q else 3)))
        for part in range(4):
            T.append(('nwd', route, 'nwd_random', dict(n=150 if q else 2000, maxspan=4000, long_lists=False, salt=part)))
    for route in HELPERS + ('long',):
        for part in range(2 if q else 8):
            T.append(('nwd', route, 'nwd_random', dict(n=25 if q else 150, maxspan=1500, long_lists=True, salt=100 + part)))
    # ---- date objects, contexts
    for route in ALL3:
        T.append(('dateobj', route, 'date_objects', {}))
    T.append(('contexts', 'contexts', 'contexts', dict(tier=tier)))
    return T


def _run_task(job):
    idx, seed, (check, route, sweep, kw) = job
    t0 = time.time()
    rng = random.Random(f'c15:{seed}:{idx}')
    kw = dict(kw)
    kw.pop('salt', None)
    try:
        if sweep == 'literal':
            acc = Acc(FixedEval(None))
            sweep_literal(acc, rng, **kw)
        elif sweep == 'contexts':
            acc = Acc(FixedEval(None))
            acc.route = 'contexts'
            check_contexts(acc, **kw)
        else:
            acc = Acc(get_ev(route))
            if 'win' in kw:
                kw['lo'], kw['hi'] = W[kw.pop('win')]
            {'date_box': sweep_date_box, 'date_extremes': sweep_date_extremes, 'ymd': sweep_ymd, 'shift': sweep_shift,
             'datedif_window': sweep_datedif_window, 'datedif_random': sweep_datedif_random, 'nwd_window': sweep_nwd_window,
             'nwd_random': sweep_nwd_random, 'date_objects': sweep_date_objects}[sweep](acc, rng, **kw)
    except Exception as exc:  # a crash of the harness itself must be visible, never silent
        acc = Acc(FixedEval(None))
        acc.evals = 1
        acc.add(f'C15.monitor_error.{sweep}.{route}', 0, f'{sweep} on {route} stopped: {type(exc).__name__}: {str(exc)[:300]}', None)
    return idx, check, acc.evals, acc.fails, acc.samples, time.time() - t0


def _minimal_feature_keys(fails):
    """NETWORKDAYS keys list the features of the witness; keep only keys whose feature set has no failing proper subset"""
    def feats(k):
        body = k[len('C15.networkdays.'):]
        tag = ''
        if body.endswith('[abstract]'):
            body, tag = body[:-len('[abstract]')], '[abstract]'
        return frozenset(body.split('+')) - {'plain'}, tag
    nk = {k: feats(k) for k in fails if k.startswith('C15.networkdays.')}
    drop = {k for k, (f, tag) in nk.items() if any(t2 == tag and f2 < f for k2, (f2, t2) in nk.items() if k2 != k)}
    return {k: v for k, v in fails.items() if k not in drop}


CHECKS = [
    ('date', 'C15.monitor.date',
     'DATE(y,m,d) and (YEAR,MONTH,DAY)(DATE(y,m,d)): {tier_box}; plus the grid years ' + str(DATE_EXTREME_Y) + ' x months ' +
     str(DATE_EXTREME_M) + ' x days ' + str(DATE_EXTREME_D) + '; integer-valued doubles in each argument position for years '
     '2023/2024, months -14..26, 14 days; routes: helper _date/_year/_month/_day in both run-time copies, =DATE(A1,B1,C1) and '
     '=YEAR/MONTH/DAY(DATE(A1,B1,C1)) under Executor overrides of A1,B1,C1 (which hold other constants), and formulas with '
     'literal (negative, zero, overflowing) arguments',
     'one evaluation = one returned date compared with 1 January of y moved (m-1) months and (d-1) days in closed-form Gregorian '
     'arithmetic (must be a date at 00:00), or one of the three components returned by YEAR/MONTH/DAY; years 0..1899 admit both '
     'the literal year and the 1900-based year; triples whose result leaves 0001-01-01..9999-12-31 have no clause and are not '
     'counted', True),
    ('ymd', 'C15.monitor.year_month_day',
     'YEAR/MONTH/DAY of every day in 7 windows (0001-01, 1899-12-25+75d, 1999-12-25+75d, 2023-12-25+75d, 2050-12-25+12d, '
     '2100-02-25+8d, 9999-12-25+7d) at 00:00, 00:00:01, 12:00 and 23:59:59.999999; helpers in both copies and =YEAR(A2) etc. with '
     'A2 (a formula cell) overridden',
     'one evaluation = one component compared with the component of the date the value was built from', True),
    ('shift', 'C15.monitor.edate_eomonth',
     'EDATE and EOMONTH: start dates {tier_shift}; offsets every integer -60..60, and for starts on day 1 / 28..31 also '
     '+-61, +-120, +-121, +-1200 and the non-integers/doubles ' + str(FRACTIONS) + '; helpers in both copies, =EDATE(A2,B2) / '
     '=EOMONTH(A2,B2) under overrides, formulas with literal start DATE(..) and literal offsets',
     'one evaluation = one returned date compared with (month index + whole months toward zero, day clamped to / replaced by the '
     'length of the target month); results outside years 1..9999 are not counted', True),
    ('datedif', 'C15.monitor.datedif',
     'DATEDIF units D, M, Y, YM: helpers in both copies on ALL pairs start<=end of {tier_dd0} and on the windows '
     '1899-06..1901-06, 1999-06..2001-06, 2049-06..2051-06, 2099-06..2101-06 ({tier_dd1}); =DATEDIF(A2,A3,"u") under overrides on '
     'all pairs of {tier_dd2}, every 5th pair also with the unit in an overridden cell D2; {tier_dd3} seeded pairs per route '
     '(uniform in 1899..2101, near anniversaries, month-end starts, spans up to year 9999); literal formulas for 12 borrow pairs',
     'one evaluation = one returned number compared with the definition (D: difference of day numbers; M: largest k with (month '
     'index+k, day) <=lex end; Y likewise on years; YM = M - 12 Y); reversed pairs and other units have no clause', False),
    ('nwd', 'C15.monitor.networkdays',
     'NETWORKDAYS: all ordered pairs (both directions) of the windows {tier_nwd} x 8 fixed holiday lists (absent; all blank; one '
     'mid date; duplicates with a blank; weekend dates repeated; the days just outside both ends; both ends; a 9-entry list on '
     'another sheet) + {tier_nwdr} seeded list(s) per pair (blanks, repeats, 20% with a time of day, dates up to 3 days outside the '
     'window), every 7th pair with times of day on the ends; holiday lists laid out as E1:E6, E1:G6, I8:T8, H!A1:A10 (cells hold '
     'other constants in the workbook); seeded long intervals (up to 4000 days, 1899..2101 and up to 9999) with lists up to 18 '
     'entries; lists of 1001..1200 entries in AAA1:AAA1200 (beyond the used range); helpers in both copies and formulas under '
     'overrides; literal =NETWORKDAYS(DATE(..),DATE(..)) both directions',
     'one evaluation = one returned number compared with (Mon-Fri count by week arithmetic) - |distinct listed dates that are '
     'Mon-Fri and inside the interval|, negated when start > end', False),
    ('today', 'C15.monitor.today',
     'TODAY(), YEAR/MONTH/DAY(TODAY()), DATEDIF(2000-01-01,TODAY(),"D"), NETWORKDAYS(TODAY(),TODAY()) in the process time zone; '
     'then translated and evaluated under TZ=UTC-12 and evaluated again with the same Executor / helper instances (and a fresh '
     'translation) under TZ=UTC+14, whose local date is always later',
     'one evaluation = one returned value compared with time.localtime() read before and after the call (either reading '
     'accepted); TODAY itself must be a date-time at 00:00', False),
    ('dateobj', 'C15.monitor.date_objects',
     'datetime.date objects as override values / helper arguments: YEAR/MONTH/DAY, EDATE, EOMONTH (6 offsets), DATEDIF (7x7 pairs, '
     'one or both ends), NETWORKDAYS ends and listed holidays; 7 dates; 3 routes',
     'same contracts as above with a date object standing for the date-time at its midnight (the reading C10 uses)', True),
    ('contexts', 'C15.monitor.workbook_contexts',
     'one workbook, sheets S and T with identical formula texts (DATEDIF M/YM/Y/D, EDATE, EOMONTH, NETWORKDAYS both directions '
     'with K1:K8, YEAR, DATE(YEAR(),MONTH()+k,DAY()-k)) in rows ' + str(CTX_ROWS) + ' and columns E..J, AAA..AAD over different '
     'date constants (1900..2100, date with a time among the holidays): whole-file translation (title and index addressing); '
     'overrides of a constant start (set twice), a blank and a constant holiday cell and a cell beyond the range; the other sheet '
     'unaffected; entry-point translation of {tier_ctx}; one Parser object and one entry Cell re-used for a second workbook',
     'one evaluation = one cell value compared with the reference arithmetic on the constants / overrides in force', False),
]


def run(tier='quick', seed=0):
    t_all = time.time()
    _oracle_selftest()
    tasks = plan(tier)
    jobs = [(i, seed, t) for i, t in enumerate(tasks)]
    agg = {c[0]: {'evals': 0, 'fails': {}, 'samples': [], 'seconds': 0.0} for c in CHECKS}
    # TODAY first, in this process (it changes TZ), before any worker is forked
    t0 = time.time()
    acc = Acc(FixedEval(None))
    acc.route = 'today'
    try:
        check_today(acc)
    except Exception as exc:
        acc.evals += 1
        acc.add('C15.monitor_error.today', 0, f'today check stopped: {type(exc).__name__}: {str(exc)[:300]}', None)
    agg['today'].update(evals=acc.evals, fails=dict(acc.fails), samples=acc.samples, seconds=time.time() - t0)
    # longest tasks first
    order = sorted(jobs, key=lambda j: (0 if j[2][2] in ('datedif_window', 'nwd_window', 'shift', 'contexts', 'literal') else 1, j[0]))
    t_pool = time.time()
    with multiprocessing.Pool(NP) as pool:
        results = pool.map(_run_task, order, chunksize=1)
    wall_pool = time.time() - t_pool
    cpu = sum(r[5] for r in results) or 1.0
    for idx, check, evals, fails, samples, secs in sorted(results, key=lambda r: r[0]):
        a = agg[check]
        a['evals'] += evals
        a['seconds'] += secs * wall_pool / cpu         # share of the pool's wall time
        for k, v in fails.items():
            cur = a['fails'].get(k)
            if cur is None or (v[0], v[1]) < (cur[0], cur[1]):
                a['fails'][k] = v
        for s in samples:
            if len(a['samples']) < 3 and s not in a['samples']:
                a['samples'].append(s)
    q = tier == 'quick'
    subst = {
        'tier_box': ('years {1900,1999,2000,2023,2024,100,2100} x months -14..26 x days -70..99 (abstract copy: DATE only)' if q else
                     'years {1900,1999,2000,2023,2024,100,2100,1904,2050,2051,2096,2400,9998} x months -30..40 x days -400..400'),
        'tier_shift': ('every day 2023-12-01..2025-03-31 (formulas under overrides: ..2024-03-31) + days 1,15,27..31 of every month of 13 further years 1900..9990' if q else
                       'every day of 1898-1904, 1998-2004, 2020-2028, 2048-2053, 2098-2104 + days 1,15,27..31 of every month of '
                       'years 1,4,100,400,1600,1700,1800,2200,2300,2400,5000,9990,9994,9999'),
        'tier_dd0': '2023-07-01..2025-06-30 (abstract copy: every 2nd start day)' if q else '2023-01-01..2025-12-31',
        'tier_dd1': 'every 5th start day' if q else 'all pairs',
        'tier_dd2': '2023-12-01..2024-03-31' if q else '2023-06-01..2025-03-31',
        'tier_dd3': '4 x 1500' if q else '4 x 20000',
        'tier_nwd': '2023-12-18..2024-03-10' if q else '2023-12-18..2024-03-10, 1900-02-12..03-11, 2100-02-15..03-14, '
                    '2050-12-20..2051-01-16, 1999-12-20..2000-03-05',
        'tier_nwdr': '1' if q else '3',
        'tier_ctx': 'every 9th formula cell' if q else 'every formula cell',
    }
    checks = []
    for cid, name, bound, rule, exhaustive in CHECKS:
        a = agg[cid]
        fails = _minimal_feature_keys(a['fails']) if cid in ('nwd', 'dateobj') else a['fails']
        flist = [{'key': k, 'what': v[1], 'replay': v[2]} for k, v in sorted(fails.items(), key=lambda kv: (kv[1][0], kv[0]))]
        for k, v in subst.items():
            bound = bound.replace('{' + k + '}', v)
        checks.append({'name': name, 'bound': bound, 'rule': rule, 'exhaustive': exhaustive, 'evaluations': a['evals'],
                       'distinct_nontrivial': a['evals'], 'failures': flist[:25], 'samples': a['samples'][:3],
                       'seconds': round(a['seconds'], 2)})
    return {'checks': checks, 'wall_seconds': round(time.time() - t_all, 1)}


# ====================================================================================== replay
def replay(payload):
    if not payload:
        return {'fails': False, 'text': 'nothing to replay'}
    kind = payload.get('kind')
    if kind == 'case':
        args = codec.dec(payload['args'])
        ev = get_ev(payload['route'])
        r = CASES[payload['f']](ev, *args)
        if r is None or r.__class__ is int:
            return {'fails': False, 'text': f'{payload["f"]}{tuple(args)!r} on {payload["route"]}: as demanded'}
        return {'fails': True, 'text': f'[{payload["route"]}] {r[2]}'}
    if kind == 'literal':
        args = codec.dec(payload['args'])
        f = payload['f']
        fs = render(f, args)
        r = lib.eval_formulas(fs)
        if r['error'] is not None:
            return {'fails': True, 'text': f'{fs}: translation failed: {r["error"]}'}
        vals = [codec.dec(v, make_empty=lambda: 0) for v in r['values']]
        got = vals[0] if len(vals) == 1 else tuple(vals)
        res = CASES[f](FixedEval(got), *args)
        if res is None or res.__class__ is int:
            return {'fails': False, 'text': f'{fs} -> {got!r}: as demanded'}
        return {'fails': True, 'text': f'{fs}: {res[2]}'}
    if kind in ('today', 'contexts', 'literal_all'):
        acc = Acc(FixedEval(None))
        if kind == 'today':
            check_today(acc)
        elif kind == 'contexts':
            check_contexts(acc, payload.get('tier', 'thorough'))
        else:
            sweep_literal(acc, random.Random(0), payload.get('tier', 'quick'), payload.get('family', 'date'),
                          payload.get('part', 0), payload.get('nparts', 1))
        key = payload.get('key')
        hit = acc.fails.get(key) if key else (next(iter(acc.fails.values())) if acc.fails else None)
        if hit:
            return {'fails': True, 'text': hit[1]}
        return {'fails': False, 'text': f'{kind} check re-run ({acc.evals} evaluations): {key} does not occur'}
    return {'fails': False, 'text': 'nothing to replay'}
