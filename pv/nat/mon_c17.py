"""K4 bounded monitor for C17 (text functions obey the substring algebra).  Runs under /venv/bin/python on the real code.

Contract monitored (written from the property statement, never from the code):
  LEFT(t,n)  = first n characters of t            (n >= len -> t, n < 0 -> an error value)
  RIGHT(t,n) = last n characters of t             (same)
  MID(t,k,n) = n characters from 1-based k        (shorter at the ends, error value for n < 0 or k < 1)
  0 <= n < len(t)  =>  LEFT(t,n) & MID(t,n+1,len(t)) == t
  a & b, CONCATENATE(a,b,..) = text forms of the operands joined in order
  SEARCH(f,t,s) = smallest 1-based p >= s such that some substring of t starting at p matches f case-insensitively
                  (? = one character, * = any run, ~? / ~* = the literal character), else #VALUE!
  VALUE(text of a number) = that number
observed (a) on the helper functions of both runtime copies and (b) through Parser -> generated class -> Executor with
the arguments supplied as overrides, as cell constants and as literals."""
import datetime
import itertools
import math
import os
import random
import time
from decimal import Decimal
from fractions import Fraction
from functools import lru_cache
from multiprocessing import Pool

from pv import codec
from pv.nat import lib

ERRS = frozenset(['#VALUE!', '#NUM!', '#ERROR!', '#N/A', '#REF!', '#DIV/0!', '#NAME?', '#NULL!'])
NPROC = 16


# ------------------------------------------------------------------------------------------------ expectations
def T(s):
    return ['text', s]


ERR = ['err']          # "an error value" (the statement does not say which)
VERR = ['verr']        # exactly #VALUE!


def P(i):
    return ['pos', i]


def N(q):
    q = Fraction(q)
    return ['num', f'{q.numerator}/{q.denominator}']


def ANY(*alts):
    return ['any', list(alts)]


def holds(got, exp):
    k = exp[0]
    if k == 'text':
        return type(got) is str and got == exp[1]
    if k == 'err':
        return type(got) is str and got in ERRS
    if k == 'verr':
        return type(got) is str and got == '#VALUE!'
    if k == 'pos':
        return type(got) is int and got == exp[1]
    if k == 'num':
        if type(got) not in (int, float):
            return False
        if type(got) is float and (got != got or got in (math.inf, -math.inf)):
            return False
        return Fraction(got) == Fraction(exp[1])
    if k == 'any':
        return any(holds(got, e) for e in exp[1])
    raise ValueError(exp)


def short(s, n=48):
    if isinstance(s, str) and len(s) > n:
        return f'<{len(s)} chars {s[:12]!r}..{s[-6:]!r}>'
    return repr(s)


def show(v):
    if type(v).__name__ in ('EmptyCell', 'EmptyStandIn'):
        return 'EmptyCell()'
    if isinstance(v, str):
        return short(v)
    return repr(v)


def show_exp(exp):
    k = exp[0]
    if k == 'text':
        return short(exp[1])
    if k == 'err':
        return 'an error value'
    if k == 'verr':
        return "'#VALUE!'"
    if k == 'pos':
        return repr(exp[1])
    if k == 'num':
        q = Fraction(exp[1])
        return str(q.numerator) if q.denominator == 1 else f'{float(q)!r}'
    return ' or '.join(show_exp(e) for e in exp[1])


# ------------------------------------------------------------------------------------------------ reference (oracle)
def ref_left(t, n):
    return ERR if n < 0 else T(t[:n])


def ref_right(t, n):
    return ERR if n < 0 else T(t[max(0, len(t) - n):])


def ref_mid(t, k, n):
    return ERR if (k < 1 or n < 0) else T(t[k - 1:k - 1 + n])


@lru_cache(maxsize=None)
def parse_pattern(f):
    """None = the statement has no clause (a ~ that does not escape ?, * or ~)."""
    toks, i = [], 0
    while i < len(f):
        c = f[i]
        if c == '~':
            if i + 1 < len(f) and f[i + 1] in '?*~':        # ~~ is the tilde itself (as in the criteria of C12)
                toks.append(('L', f[i + 1]))
                i += 2
                continue
            return None
        toks.append(('Q',) if c == '?' else ('S',) if c == '*' else ('L', c))
        i += 1
    return tuple(toks)


def ceq(a, b):
    return a == b or a.casefold() == b.casefold()


def match_from(toks, t, p):
    """does the pattern match some substring of t that starts at 0-based p"""
    cur = {p}
    n = len(t)
    for tok in toks:
        if not cur:
            return False
        if tok[0] == 'S':
            cur = set(range(min(cur), n + 1))
        elif tok[0] == 'Q':
            cur = {q + 1 for q in cur if q < n}
        else:
            c = tok[1]
            cur = {q + 1 for q in cur if q < n and ceq(t[q], c)}
    return bool(cur)


def ref_search(f, t, s):
    toks = parse_pattern(f)
    if toks is None:
        return None
    if s is None:
        s = 1
    if s < 1:
        r = ref_search(f, t, 1)          # positions are 1-based: "at or after s" == "at or after 1"; Excel says #VALUE!
        return None if r is None else (VERR if r == VERR else ANY(VERR, r))
    for p in range(s, len(t) + 1):
        if match_from(toks, t, p - 1):
            return P(p)
    if s == len(t) + 1 and match_from(toks, t, len(t)):
        return None                       # empty match just behind the text: no clause
    return VERR


REGEX_SPECIAL = frozenset('.+()[]{}^$|\\')


def raw_wild(s):
    """contains a ? or * that is not preceded by ~ (what the lexer takes for a pattern literal)"""
    return any(c in '?*' and (i == 0 or s[i - 1] != '~') for i, c in enumerate(s))


def search_key(f, t, s, mode):
    toks = parse_pattern(f)
    wild = any(x[0] in 'QS' for x in toks)
    if len(t.lower()) != len(t) or len(f.lower()) != len(f):
        return 'C17.search.lowercasing_changes_length'
    if mode == 'literal' and raw_wild(f):
        return 'C17.search.literal_wildcard_lexed_as_pattern'
    if mode == 'literal' and raw_wild(t):
        return 'C17.text_literal.wildcard_char_lexed_as_pattern'
    if wild:
        if '\n' in t:
            return 'C17.search.wildcard_vs_line_break'
        if any(c in REGEX_SPECIAL for c in f):
            return 'C17.search.wildcard_regex_metachar'
        if '~*' in f:
            return 'C17.search.wildcard_with_escaped_star'
        if s is not None and s > 1:
            return 'C17.search.wildcard_start_num'
        return 'C17.search.wildcard'
    if '~' in f:
        return 'C17.search.escaped_wildcard'
    if s is not None and s != 1:
        return 'C17.search.plain_start_num'
    return 'C17.search.plain'


def search_size(f, t, s, exp):
    """witness order: short texts first, and a witness where a position is expected before one where #VALUE! is"""
    return (len(f) + len(t)) * 10 + (0 if s is None else abs(s)) + (0 if exp[0] == 'pos' else 1000)


def slice_key(fn, t, n, k=None):
    if fn in ('left', 'right'):
        if n < 0:
            c = 'negative_count'
        elif t == '':
            c = 'empty_text'
        elif n == 0:
            c = 'zero_count'
        elif n >= len(t):
            c = 'count_ge_len'
        else:
            c = 'inner'
        return f'C17.{fn}.{c}'
    if k < 1:
        c = 'start_lt_1'
    elif n < 0:
        c = 'negative_count'
    elif k > len(t):
        c = 'start_past_end'
    elif k == len(t):
        c = 'start_eq_len'
    elif n == 0:
        c = 'zero_count'
    elif k + n - 1 > len(t):
        c = 'runs_past_end'
    else:
        c = 'inner'
    return f'C17.mid.{c}'


BASE_DATE = datetime.datetime(1899, 12, 30)
BLANK = '__blank__'


def op_kind(v):
    if isinstance(v, str):
        return 'blank' if v == BLANK else 'text'
    if isinstance(v, bool):
        return 'bool'
    if isinstance(v, int):
        return 'int'
    if isinstance(v, float):
        return 'whole_float' if v == int(v) else 'float'
    return 'date'


def text_form(v):
    """Excel text form of an operand (the kinds the sweep uses)."""
    k = op_kind(v)
    if k == 'blank':
        return ''
    if k == 'text':
        return v
    if k == 'bool':
        return 'TRUE' if v else 'FALSE'
    if k == 'int':
        return str(v)
    if k == 'whole_float':
        return str(int(v))
    if k == 'float':
        return format(Decimal(repr(v)), 'f')
    return str((v - BASE_DATE).days)       # a date at midnight is its serial number


ODD_KINDS = ('blank', 'bool', 'date', 'whole_float', 'float')


def concat_key(fn, operands, bad=None):
    """key = the operand kind whose text form is wrong.  `bad` = kinds already seen wrong on their own (joined with the
    empty text); a mixed failure is charged to those, and only to the combination when none of them is wrong alone."""
    kinds = [k for k in ODD_KINDS if k in {op_kind(v) for v in operands}]
    if not kinds:
        return f'C17.{fn}.text_int'
    if bad is not None and len(kinds) > 1:
        guilty = [k for k in kinds if (fn, k) in bad]
        if guilty:
            return f'C17.{fn}.text_form.{guilty[0]}'
        return f'C17.{fn}.text_form.' + '+'.join(kinds)
    return f'C17.{fn}.text_form.{kinds[0]}'


# ------------------------------------------------------------------------------------------------ accumulation
class Acc:
    def __init__(self):
        self.ev = 0
        self.nt = 0
        self.fails = {}
        self.samples = []

    def check(self, got, exp, key, size, what, replay, nontrivial=True):
        """what / replay are callables (only evaluated on failure)"""
        self.ev += 1
        if nontrivial:
            self.nt += 1
        if holds(got, exp):
            return True
        cur = self.fails.get(key)
        if cur is None or size < cur[0]:
            self.fails[key] = [size, what(), replay()]
        return False

    def sample(self, s):
        if len(self.samples) < 3 and s not in self.samples:
            self.samples.append(s)

    def dump(self):
        return {'ev': self.ev, 'nt': self.nt, 'fails': self.fails, 'samples': self.samples}

    def merge(self, d):
        self.ev += d['ev']
        self.nt += d['nt']
        for k, v in d['fails'].items():
            cur = self.fails.get(k)
            if cur is None or v[0] < cur[0]:
                self.fails[k] = v
        for s in d['samples']:
            self.sample(s)


def enc_plain(v):
    return codec.enc(v)


def helper_replay(which, fn, args, exp):
    return {'kind': 'helper', 'which': which, 'fn': fn, 'args': [enc_plain(a) for a in args], 'exp': exp}


def wb_replay(sheets, read, exp, overrides=None, entry=None):
    return {'kind': 'wb', 'sheets': sheets, 'overrides': overrides or [], 'read': list(read), 'entry': entry, 'exp': exp}


def one_formula_sheets(formula, cells=None):
    return [{'title': 'S', 'cells': [list(c) for c in (cells or [])] + [['Z', 1, formula]]}]


# ------------------------------------------------------------------------------------------------ input scopes
def strings(alpha, maxlen):
    for n in range(maxlen + 1):
        for tup in itertools.product(alpha, repeat=n):
            yield ''.join(tup)


def long_text(n):
    # neighbours always differ, and the text is not periodic with a small period
    return ''.join(chr(48 + (i * 7 + i // 11) % 75) for i in range(n)).replace('"', 'q').replace('?', 'Q').replace('*', 'x')


SPECIAL_TEXTS = ['~*', 'a"b', "it's", 'back\\slash', 'line\nbreak', 'tab\there', ' lead', 'trail ', 'Ünïcödé', 'Привет',
                 '{x}', '{0}', '%s', "'''", '"""', '=1+1', '0', '123', 'Hello World', 'a' * 10, 'x', '?', '*', '.', '(', '\\']
LONG_LENGTHS_QUICK = [50, 51, 255, 256, 300, 301, 1000]
LONG_LENGTHS_THOROUGH = LONG_LENGTHS_QUICK + [1001, 4096, 32767]


def box(n):
    return list(range(-2, n + 4))


def long_box(n):
    s = {-1, 0, 1, 2, 49, 50, 51, 52, 99, 100, 101, 255, 256, 257, 299, 300, 301, 302, 999, 1000, 1001,
         n - 2, n - 1, n, n + 1, n + 2, 2 * n, 2 ** 31, 2 ** 63}
    return sorted(x for x in s if x <= n + 2 or x >= 2 * n)


# ------------------------------------------------------------------------------------------------ 1. slices, helpers
def _t_slice_helper(args):
    texts, boxes = args
    acc = Acc()
    for which in ('runtime', 'abstract'):
        inst = lib.get_class(which)()
        for t in texts:
            bx = long_box(len(t)) if boxes == 'long' else box(len(t))
            for n in bx:
                for fn, ref in (('left', ref_left), ('right', ref_right)):
                    got = lib.call_catch(getattr(inst, '_' + fn), t, n)
                    exp = ref(t, n)
                    acc.check(got, exp, slice_key(fn, t, n), len(t) + abs(n),
                              lambda: f'{which}._{fn}({short(t)}, {n}) -> {show(got)}, expected {show_exp(exp)}',
                              lambda: helper_replay(which, '_' + fn, [t, n], exp), nontrivial=0 <= n)
                for k in bx:
                    got = lib.call_catch(inst._mid, t, k, n)
                    exp = ref_mid(t, k, n)
                    acc.check(got, exp, slice_key('mid', t, n, k), len(t) + abs(n) + abs(k),
                              lambda: f'{which}._mid({short(t)}, {k}, {n}) -> {show(got)}, expected {show_exp(exp)}',
                              lambda: helper_replay(which, '_mid', [t, k, n], exp), nontrivial=(k >= 1 and n >= 0))
            # rebuild identity on the helpers, joined the way the statement joins (text & text)
            for n in (range(0, len(t)) if len(t) <= 12 else [0, 1, 49, 50, 51, 299, 300, 301, len(t) - 2, len(t) - 1]):
                if not 0 <= n < len(t):
                    continue
                a = lib.call_catch(inst._left, t, n)
                b = lib.call_catch(inst._mid, t, n + 1, len(t))
                got = a + b if type(a) is str and type(b) is str else (a, b)
                acc.check(got, T(t), 'C17.rebuild.helpers', len(t) + n,
                          lambda: f'{which}: _left(t,{n}) + _mid(t,{n + 1},{len(t)}) for t={short(t)} -> {show(got)}, expected t',
                          lambda: {'kind': 'rebuild_helper', 'which': which, 't': t, 'n': n})
    acc.sample({'call': '_mid("aB?", 2, 5)', 'expected': 'B?'})
    return acc.dump()


# ------------------------------------------------------------------------------------------------ pipeline plumbing
def _raw_value(p, sheet, col, row):
    return p.value(sheet, col, row)


def _mk_override(p, sheet, col, row, v):
    from excel2pycl import Cell
    return Cell(sheet, col, row, p.cls.EmptyCell() if (isinstance(v, str) and v == BLANK) else v)


def _enc_over(v):
    return {'$e': 1} if (isinstance(v, str) and v == BLANK) else codec.enc(v)


def _batch_values(formulas, cells=None, titles=('S',)):
    """values (decoded; blank -> EmptyStandIn, exception -> Raised) of many formulas translated as ONE workbook; a
    formula whose translation fails is isolated by bisection and yields the Raised translation error."""
    if not formulas:
        return []
    r = lib.eval_formulas(formulas, cells=cells, titles=titles)
    if r['error'] is None:
        return [codec.dec(v) for v in r['values']]
    if len(formulas) == 1:
        return [codec.dec(r['error'])]
    mid = len(formulas) // 2
    return _batch_values(formulas[:mid], cells, titles) + _batch_values(formulas[mid:], cells, titles)


def _t_literal_batch(args):
    """args: list of (formula, exp, key, size, cells) -> Acc dump"""
    cases = args
    acc = Acc()
    groups = {}
    for c in cases:
        groups.setdefault(repr(c[4]), []).append(c)
    for grp in groups.values():
        cells = grp[0][4]
        vals = _batch_values([c[0] for c in grp], cells=[[0] + list(x) for x in (cells or [])])
        for (formula, exp, key, size, cells_), got in zip(grp, vals):
            acc.check(got, exp, key, size,
                      lambda: f'{short(formula, 90)}' + (f' with {cells_!r}' if cells_ else '') + f' -> {show(got)}, expected {show_exp(exp)}',
                      lambda: wb_replay(one_formula_sheets(formula, cells_), [0, 25, 0], exp))
            acc.sample({'formula': formula[:80], 'value': show(got)})
    return acc.dump()


def _chunks(lst, n):
    return [lst[i::n] for i in range(n) if lst[i::n]]


# ------------------------------------------------------------------------------------------------ 2. slices, pipeline
SLICE_FORMULAS = ['=LEFT(A1,B1)', '=RIGHT(A1,B1)', '=MID(A1,C1,B1)', '=LEFT(A1,B1)&MID(A1,B1+1,E1)', '=LEFT(A1)', '=RIGHT(A1)',
                  '=LEFT(AB7,B1)', '=MID(AB7,C1,B1)', '=RIGHT(AB7,B1)']


FAR_OF = {6: 0, 7: 2, 8: 1}


def _slice_sheets():
    def sheet(title, t, n, k):
        return {'title': title, 'cells': [['A', 1, t], ['B', 1, n], ['C', 1, k], ['E', 1, len(t)]] +
                [['Z', i + 1, f] for i, f in enumerate(SLICE_FORMULAS)]}
    return [sheet('S', 'Hello World', 5, 3), sheet('T', 'excel2pycl', 2, 9)]


def _slice_expect(t, n, k, blank_ab7=False):
    """expected values of SLICE_FORMULAS (None = no clause)"""
    reb = T(t) if 0 <= n < len(t) else None
    one = (T(t[:1]), T(t[-1:])) if t else (None, None)
    if blank_ab7:
        far = (None, None, None)        # text functions of a blank cell: the statement speaks about texts only
    else:
        far = (ref_left(t, n), ref_mid(t, k, n), ref_right(t, n))
    return [ref_left(t, n), ref_right(t, n), ref_mid(t, k, n), reb, one[0], one[1], far[0], far[1], far[2]]


def _slice_keys(t, n, k):
    return [slice_key('left', t, n), slice_key('right', t, n), slice_key('mid', t, n, k), 'C17.rebuild.pipeline',
            'C17.left.one_argument', 'C17.right.one_argument', slice_key('left', t, n) + '.cell_beyond_used_range',
            slice_key('mid', t, n, k) + '.cell_beyond_used_range', slice_key('right', t, n) + '.cell_beyond_used_range']


def _t_slice_override(args):
    texts, boxes, entry_mode = args
    from excel2pycl import Executor
    acc = Acc()
    sheets = _slice_sheets()
    with lib.scratch() as d:
        if entry_mode:
            sheets = [{'title': s['title'], 'cells': [c for c in s['cells'] if c[0] != 'Z' or c[1] in (3, 4)]} for s in sheets]
            p = lib.Pipe({'sheets': sheets}, d, entry=(0, 25, 3), safety=False)    # Z4 = the rebuild formula
        else:
            p = lib.Pipe({'sheets': sheets}, d, safety=False)
        if p.error is not None:
            acc.check(p.error, T('a translation'), 'C17.slices.translate', 0, lambda: f'translation failed: {p.error!r}',
                      lambda: wb_replay(sheets, [0, 25, 0], T('Hello')))
            return acc.dump()
        rows = [3] if entry_mode else list(range(len(SLICE_FORMULAS)))

        def sweep(sh, other, other_consts):
            for t in texts:
                bx = long_box(len(t)) if boxes == 'long' else box(len(t))
                first_k = bx[0]
                for n in bx:
                    for k in (bx if not entry_mode else [first_k]):
                        over = [[sh, 0, 0, t], [sh, 1, 0, n], [sh, 2, 0, k], [sh, 4, 0, len(t)], [sh, 27, 6, t]]
                        p.executor.set_cells([_mk_override(p, *o) for o in over])
                        exps, keys = _slice_expect(t, n, k), _slice_keys(t, n, k)
                        near_ok = {}
                        for r in rows:
                            if r not in (2, 7) and k != first_k:
                                continue        # only MID depends on k
                            if exps[r] is None:
                                continue
                            got = _raw_value(p, sh, 25, r)
                            exp = exps[r]
                            f = SLICE_FORMULAS[r]
                            key = keys[r]
                            if r in FAR_OF:                     # same root cause as the near cell unless only the far cell is wrong
                                if not near_ok.get(FAR_OF[r], True):
                                    key = keys[FAR_OF[r]]
                            else:
                                near_ok[r] = holds(got, exp)
                            acc.check(got, exp, key + ('.entrypoint' if entry_mode else ''), len(t) + abs(n) + abs(k),
                                      lambda: f'{f} on sheet {sh} with A1=AB7={short(t)}, B1={n}, C1={k}, E1={len(t)} (overrides) -> '
                                              f'{show(got)}, expected {show_exp(exp)}',
                                      lambda: wb_replay(sheets, [sh, 25, r], exp, [[a, b, c, _enc_over(v)] for a, b, c, v in over],
                                                        entry=[0, 25, 3] if entry_mode else None))
                # the other sheet holds the same formula texts over its own A1/B1/C1: it must not move
                if not entry_mode:
                    ot, on, ok_ = other_consts
                    oexp = _slice_expect(ot, on, ok_)
                    for r in (0, 1, 2, 3):
                        if oexp[r] is None:
                            continue
                        got = _raw_value(p, other, 25, r)
                        acc.check(got, oexp[r], 'C17.slices.same_formula_on_two_sheets', len(t),
                                  lambda: f'{SLICE_FORMULAS[r]} on sheet {other} (A1={ot!r}, B1={on}, C1={ok_}) after overriding sheet {sh} '
                                          f'with A1={short(t)} -> {show(got)}, expected {show_exp(oexp[r])}',
                                  lambda: wb_replay(sheets, [other, 25, r], oexp[r], [[sh, 0, 0, _enc_over(t)]]))
        # constants first (no override at all)
        if not entry_mode:
            for sh, (t, n, k) in ((0, ('Hello World', 5, 3)), (1, ('excel2pycl', 2, 9))):
                exps = _slice_expect(t, n, k, blank_ab7=True)
                for r in rows:
                    if exps[r] is None:
                        continue
                    got = _raw_value(p, sh, 25, r)
                    acc.check(got, exps[r], 'C17.slices.constants', r,
                              lambda: f'{SLICE_FORMULAS[r]} on sheet {sh} (constants A1={t!r}, B1={n}, C1={k}) -> {show(got)}, '
                                      f'expected {show_exp(exps[r])}', lambda: wb_replay(sheets, [sh, 25, r], exps[r]))
        sweep(0, 1, ('excel2pycl', 2, 9))
        if not entry_mode:
            p.executor.set_cells([_mk_override(p, *o) for o in ([0, 0, 0, 'Back Again'], [0, 1, 0, 4], [0, 2, 0, 6], [0, 4, 0, 10])])
            sweep(1, 0, ('Back Again', 4, 6))
            # a new Executor over the same class sees the workbook constants again
            ex2 = Executor().set_executed_class(class_object=p.cls)
            from excel2pycl import Cell
            got = lib.call_catch(lambda: ex2.get_cell(Cell(0, 25, 2)).value)
            acc.check(got, T('llo W'), 'C17.slices.fresh_executor', 0,
                      lambda: f'fresh Executor: =MID(A1,C1,B1) over constants -> {show(got)}, expected "llo W"',
                      lambda: wb_replay(sheets, [0, 25, 2], T('llo W')))
    acc.sample({'formula': '=LEFT(A1,B1)&MID(A1,B1+1,E1)', 'A1': 'aB?', 'B1': 1, 'E1': 3, 'expected': 'aB?'})
    return acc.dump()


def _const_cases(rng, n_cases, tier):
    base_texts = ['Hello World', 'a', '', 'aB', 'abc', 'x?*~', 'a"b', "it's", '{x}', '{0}{1}', 'back\\slash', 'Привет мир', '123',
                  ' pad ', 'TRUE', long_text(51), long_text(301), long_text(1000)]
    if tier == 'thorough':
        base_texts += [long_text(50), long_text(255), long_text(256), long_text(300), long_text(4096)]
    cases = []
    for t in base_texts:
        L = len(t)
        pts = sorted({-1, 0, 1, L - 1, L, L + 1, 50, 51} if L > 40 else {-1, 0, 1, L - 1, L, L + 1})
        for n in pts:
            for k in pts:
                cases.append((t, n, k))
    rng.shuffle(cases)
    # keep every text at its sharpest boundaries first, then the shuffled rest
    musts = []
    for t in base_texts:
        L = len(t)
        musts += [(t, L, 1), (t, 1, L), (t, 0, L + 1), (t, L + 1, 0), (t, max(L - 1, 0), 2)]
    out, seen = [], set()
    for c in musts + cases:
        if c not in seen:
            seen.add(c)
            out.append(c)
    return out[:n_cases]


def _const_rows(n):
    rows = list(range(1, 91)) + [99, 100, 101, 102, 103, 999, 1000, 1001, 1002, 1003]
    r = 104
    while len(rows) < n:
        if r not in rows:
            rows.append(r)
        r += 1
    return sorted(rows[:n]) if n <= len(rows) else rows


def _t_slice_constants(args):
    """arguments are workbook constants in rows 1..N (rows > 100 and > 1000 included); whole-file and entry-point translation"""
    seed, n_cases, n_entry, tier = args
    rng = random.Random(seed)
    acc = Acc()
    cases = _const_cases(rng, n_cases, tier)
    rows = _const_rows(len(cases))
    cells = []
    for (t, n, k), r in zip(cases, rows):
        if t != '':
            cells.append(['A', r, t])
        cells += [['B', r, n], ['C', r, k], ['D', r, len(t)],
                  ['W', r, f'=LEFT(A{r},B{r})&MID(A{r},B{r}+1,D{r})'], ['X', r, f'=LEFT(A{r},B{r})'],
                  ['Y', r, f'=RIGHT(A{r},B{r})'], ['Z', r, f'=MID(A{r},C{r},B{r})']]
    sheets = [{'title': 'Data', 'cells': cells}]

    def mini(t, n, k, r):
        return [{'title': 'Data', 'cells': [c for c in cells if c[1] == r]}]

    whole_ok = {}
    formula_at = {(c[0], c[1]): c[2] for c in cells}

    def check_all(p, which_rows, tag):
        for (t, n, k), r in zip(cases, rows):
            if r not in which_rows or t == '':
                continue            # a blank cell is not a text: no clause
            exps = {'W': T(t) if 0 <= n < len(t) else None, 'X': ref_left(t, n), 'Y': ref_right(t, n), 'Z': ref_mid(t, k, n)}
            keys = {'W': 'C17.rebuild.pipeline', 'X': slice_key('left', t, n), 'Y': slice_key('right', t, n), 'Z': slice_key('mid', t, n, k)}
            for col, ci in (('W', 22), ('X', 23), ('Y', 24), ('Z', 25)):
                exp = exps[col]
                if exp is None or (tag and col != tag):
                    continue
                got = _raw_value(p, 0, ci, r - 1)
                f = formula_at[(col, r)]
                if not tag:
                    whole_ok[(col, r)] = holds(got, exp)
                acc.check(got, exp, keys[col] + ('.entrypoint' if (tag and whole_ok.get((col, r), True)) else ''), len(t) + abs(n) + abs(k) + r,
                          lambda: f'{f} with constants A{r}={short(t)}, B{r}={n}, C{r}={k}, D{r}={len(t)}'
                                  f'{" (entry-point translation)" if tag else ""} -> {show(got)}, expected {show_exp(exp)}',
                          lambda: wb_replay(mini(t, n, k, r), [0, ci, r - 1], exp, entry=[0, ci, r - 1] if tag else None))
    with lib.scratch() as d:
        p = lib.Pipe({'sheets': sheets}, d, safety=False)
        if p.error is not None:
            acc.check(p.error, T('a translation'), 'C17.slices.translate_constants', 0,
                      lambda: f'translation of the constants workbook failed: {p.error!r}', lambda: wb_replay(sheets, [0, 25, 0], T('')))
            return acc.dump()
        check_all(p, set(rows), None)
        # entry-point translation of single cells of the same file
        picks = [r for (t, n, k), r in zip(cases, rows) if t != '']
        rng.shuffle(picks)
        for i, r in enumerate(sorted(picks[:n_entry])):
            col, ci = (('W', 22), ('X', 23), ('Y', 24), ('Z', 25))[i % 4]
            pe = lib.Pipe({'sheets': sheets}, d, entry=(0, ci, r - 1), safety=False, name='wb_entry.xlsx')
            if pe.error is not None:
                acc.check(pe.error, T('a translation'), 'C17.slices.translate_entrypoint', r,
                          lambda: f'entry-point translation of {col}{r} failed: {pe.error!r}', lambda: wb_replay(sheets, [0, ci, r - 1], T(''), entry=[0, ci, r - 1]))
                continue
            check_all(pe, {r}, col)
    return acc.dump()


def _slice_literal_cases(rng, tier):
    """LEFT / RIGHT / MID / rebuild with every argument a literal"""
    texts = ['Hello World', 'a', '', 'aB', 'abc', 'x~y', "it's", '{x}', 'back\\slash', 'Привет', '12.5', ' pad ', 'a,b;c', 'a)b(',
             'a&b', long_text(51), long_text(301)]
    if tier == 'thorough':
        texts += [long_text(50), long_text(300), long_text(1000), 'A1', 'TRUE', '1e3', '=x', "'q'"]
    cases = []

    def lit(n):
        return str(n)
    for t in texts:
        L = len(t)
        pts = sorted({-1, 0, 1, 2, L - 1, L, L + 1, L + 2} | ({49, 50, 51} if L > 40 else set()) | ({2 ** 31} if L == 11 else set()))
        q = '"' + t + '"'
        for n in pts:
            cases.append((f'=LEFT({q},{lit(n)})', ref_left(t, n), slice_key('left', t, n) + '.literal', L + abs(n), None))
            cases.append((f'=RIGHT({q},{lit(n)})', ref_right(t, n), slice_key('right', t, n) + '.literal', L + abs(n), None))
            if 0 <= n < L:
                cases.append((f'=LEFT({q},{n})&MID({q},{n + 1},{L})', T(t), 'C17.rebuild.literal', L + n, None))
            for k in (pts if L <= 11 or tier == 'thorough' else [1, L, L + 1]):
                cases.append((f'=MID({q},{lit(k)},{lit(n)})', ref_mid(t, k, n), slice_key('mid', t, n, k) + '.literal', L + abs(n) + abs(k), None))
        if t:
            cases.append((f'=LEFT({q})', T(t[:1]), 'C17.left.one_argument', L, None))
            cases.append((f'=RIGHT({q})', T(t[-1:]), 'C17.right.one_argument', L, None))
    # one key per root cause: the slice keys are the same as on the helpers
    cases = [(f, e, k if k == 'C17.rebuild.literal' else k.replace('.literal', ''), s, c) for f, e, k, s, c in cases]
    # text literals holding ? or * (the lexer turns them into patterns): keyed apart
    for t, n in (('a?b', 2), ('a*b', 3), ('??', 1), ('what?', 5)):
        q = '"' + t + '"'
        cases.append((f'=LEFT({q},{n})', ref_left(t, n), 'C17.text_literal.wildcard_char_lexed_as_pattern', len(t), None))
        cases.append((f'=MID({q},1,{n})', ref_mid(t, 1, n), 'C17.text_literal.wildcard_char_lexed_as_pattern', len(t) + 1, None))
        cases.append((f'=RIGHT({q},{n})&"."', T(t[max(0, len(t) - n):] + '.'), 'C17.text_literal.wildcard_char_lexed_as_pattern', len(t) + 2, None))
    return cases


def _t_parser_reuse(args):
    """one Parser object translating two workbooks in a row; the second class must compute from the second workbook"""
    from excel2pycl import Parser, Executor, Cell
    acc = Acc()
    with lib.scratch() as d:
        specs = []
        for i, (t, n, k) in enumerate([('Hello World', 5, 3), ('second file', 3, 8)]):
            path = os.path.join(d, f'w{i}.xlsx')
            sheets = [{'title': 'S', 'cells': [['A', 1, t], ['B', 1, n], ['C', 1, k], ['E', 1, len(t)]] +
                       [['Z', j + 1, f] for j, f in enumerate(SLICE_FORMULAS[:4])]}]
            lib.write_workbook({'sheets': sheets}, path)
            specs.append((path, t, n, k, sheets))
        parser = Parser()
        parser.disable_safety_check()
        classes = []
        for path, t, n, k, sheets in specs:
            parser.set_excel_file_path(path)
            text = lib.call_catch(parser.get_translation)
            classes.append(text if isinstance(text, codec.Raised) else lib.load_class_from_text(text))
        ex = Executor()
        for order in ((0, 1), (1, 0), (0, 0)):
            for i in order:
                path, t, n, k, sheets = specs[i]
                if isinstance(classes[i], codec.Raised):
                    got = classes[i]
                    acc.check(got, T('a translation'), 'C17.slices.parser_reuse', i, lambda: f'translation {i} failed: {got!r}',
                              lambda: {'kind': 'parser_reuse'})
                    continue
                ex.set_executed_class(class_object=classes[i])      # one Executor object re-used across classes
                exps = _slice_expect(t, n, k)[:4]
                for r in range(4):
                    got = lib.call_catch(lambda: ex.get_cell(Cell(0, 25, r)).value)
                    acc.check(got, exps[r], 'C17.slices.parser_executor_reuse', i + r,
                              lambda: f'one Parser / one Executor over two workbooks: {SLICE_FORMULAS[r]} of workbook {i} (A1={t!r}, B1={n}, '
                                      f'C1={k}) -> {show(got)}, expected {show_exp(exps[r])}', lambda: {'kind': 'parser_reuse'})
    return acc.dump()


# ------------------------------------------------------------------------------------------------ 3. & and CONCATENATE
CONCAT_VALUES = ['Hello', '', 'a b', 'x', '12', 'Ünï', 0, 7, -7, 42, 1234567890, 1.5, -0.25, 2.0, -3.0, True, False, BLANK,
                 datetime.datetime(2020, 1, 1), datetime.datetime(1999, 12, 31)]
CONCAT_FORMULAS = ['=A1&B1', '=CONCATENATE(A1,B1)', '=A1&B1&A1', '=CONCATENATE(B1,A1,B1)', '=A1&"-"&B1', '=CONCATENATE(A1;"-";B1)',
                   '=CONCATENATE(A1)', '=(A1&B1)&C1', '=A1&(B1&C1)', '=G1&A1', '=CONCATENATE(G1,A1)', '=AC9&A1', '=CONCATENATE(A1,AC9)']


def _concat_expect(a, b, c):
    ta, tb, tc = text_form(a), text_form(b), text_form(c)
    two = [a, b]
    return [(T(ta + tb), 'amp', two), (T(ta + tb), 'concatenate', two), (T(ta + tb + ta), 'amp', two), (T(tb + ta + tb), 'concatenate', two),
            (T(ta + '-' + tb), 'amp', two), (T(ta + '-' + tb), 'concatenate', two), (T(ta), 'concatenate', [a]),
            (T(ta + tb + tc), 'amp', [a, b, c]), (T(ta + tb + tc), 'amp', [a, b, c]),
            (T('2' + ta), 'amp', [2.0, a]), (T('2' + ta), 'concatenate', [2.0, a]),
            (T(ta), 'amp', [BLANK, a]), (T(ta), 'concatenate', [a, BLANK])]


def _t_concat_override(args):
    pairs, = args
    acc = Acc()
    sheets = [{'title': 'S', 'cells': [['A', 1, 'Hello'], ['B', 1, 42], ['C', 1, 'c'], ['G', 1, '=4/2']] +
               [['Z', i + 1, f] for i, f in enumerate(CONCAT_FORMULAS)]}]
    with lib.scratch() as d:
        p = lib.Pipe({'sheets': sheets}, d, safety=False)
        if p.error is not None:
            acc.check(p.error, T('a translation'), 'C17.concat.translate', 0, lambda: f'translation failed: {p.error!r}',
                      lambda: wb_replay(sheets, [0, 25, 0], T('Hello42')))
            return acc.dump()
        # which operand kinds are wrong on their own (joined with the empty text)
        bad = set()
        for v in CONCAT_VALUES:
            p.executor.set_cells([_mk_override(p, 0, 0, 0, v), _mk_override(p, 0, 1, 0, '')])
            for r, fn in ((0, 'amp'), (1, 'concatenate')):
                if not holds(_raw_value(p, 0, 25, r), T(text_form(v))):
                    bad.add((fn, op_kind(v)))
        p.executor.set_cells([_mk_override(p, 0, 0, 0, ''), _mk_override(p, 0, 1, 0, '')])
        for a, b in pairs:
            c = 'c'
            over = [[0, 0, 0, a], [0, 1, 0, b]]
            p.executor.set_cells([_mk_override(p, *o) for o in over])
            for r, (exp, fn, ops) in enumerate(_concat_expect(a, b, c)):
                got = _raw_value(p, 0, 25, r)
                key = concat_key(fn, ops, bad)
                acc.check(got, exp, key, sum(len(text_form(x)) for x in ops) + r,
                          lambda: f'{CONCAT_FORMULAS[r]} with A1={show(a) if a != BLANK else "blank"}, B1={show(b) if b != BLANK else "blank"}, '
                                  f'C1="c", G1==4/2, AC9 blank -> {show(got)}, expected {show_exp(exp)}',
                          lambda: wb_replay(sheets, [0, 25, r], exp, [[x, y, z, _enc_over(v)] for x, y, z, v in over]))
    acc.sample({'formula': '=A1&B1', 'A1': 'Hello', 'B1': 42, 'expected': 'Hello42'})
    return acc.dump()


def _concat_literal_cases(tier):
    cases = []
    lits = [('"Hello"', 'Hello'), ('""', ''), ('"a b"', 'a b'), ('7', 7), ('0', 0), ('1.5', 1.5), ('TRUE', True), ('FALSE', False),
            ('"x&y"', 'x&y'), ('"1"', '1'), ('1234567890', 1234567890)]
    for (la, a), (lb, b) in itertools.product(lits, repeat=2):
        e = T(text_form(a) + text_form(b))
        sz = len(la) + len(lb)
        cases.append((f'={la}&{lb}', e, concat_key('amp', [a, b]), sz, None))
        cases.append((f'=CONCATENATE({la},{lb})', e, concat_key('concatenate', [a, b]), sz, None))
    # order and arity: distinct markers
    for n in ([1, 2, 3, 5, 30, 31, 255] if tier == 'quick' else [1, 2, 3, 4, 5, 8, 29, 30, 31, 100, 254, 255]):
        parts = [f'p{i}.' for i in range(n)]
        cases.append(('=CONCATENATE(' + ','.join(f'"{x}"' for x in parts) + ')', T(''.join(parts)), 'C17.concatenate.order_arity', n, None))
        cases.append(('=CONCATENATE(' + ';'.join(f'"{x}"' for x in parts) + ')', T(''.join(parts)), 'C17.concatenate.order_arity', n, None))
        if n <= 31:
            cases.append(('=' + '&'.join(f'"{x}"' for x in parts), T(''.join(parts)), 'C17.amp.order_arity', n, None))
        mixed = [(f'"{x}"' if i % 2 == 0 else str(i)) for i, x in enumerate(parts)]
        mexp = ''.join(x if i % 2 == 0 else str(i) for i, x in enumerate(parts))
        if n <= 31:
            cases.append(('=' + '&'.join(mixed), T(mexp), 'C17.amp.order_arity', n + 1, None))
        cases.append(('=CONCATENATE(' + ','.join(mixed) + ')', T(mexp), 'C17.concatenate.order_arity', n + 1, None))
    # operands that are calls of the other text functions, and cells
    cells = [['A', 1, 'Hello'], ['B', 1, 42], ['C', 2, 'down']]
    for f, e in [('=LEFT(A1,2)&RIGHT(A1,2)', 'Helo'), ('=CONCATENATE(LEFT(A1,1),MID(A1,2,3),RIGHT(A1,1))', 'Hello'),
                 ('=A1&B1&C2', 'Hello42down'), ('=CONCATENATE(C2,B1,A1)', 'down42Hello'), ('=MID(A1&C2,4,4)', 'lodo'),
                 ('=LEFT(CONCATENATE(A1,C2),6)', 'Hellod'), ('=VALUE(B1&"1")', None), ('=SEARCH("o",A1&C2,6)', None),
                 ('="a"&"b"&"c"&"d"', 'abcd'), ('=("a"&"b")&("c"&"d")', 'abcd'), ('="a"&("b"&("c"&"d"))', 'abcd'),
                 ('=CONCATENATE("a";"b","c")', 'abc'), ('=CONCATENATE( "a" , "b" )', 'ab'), ('="a" & "b"', 'ab'),
                 ('=CONCATENATE("a","b")&CONCATENATE("c","d")', 'abcd'), ('=CONCATENATE("a"&"b","c"&"d")', 'abcd')]:
        if f.startswith('=VALUE'):
            cases.append((f, N(421), 'C17.value.of_joined_text', 9, cells))
        elif f.startswith('=SEARCH'):
            cases.append((f, P(7), 'C17.search.in_joined_text', 9, cells))
        else:
            cases.append((f, T(e), 'C17.concat.composition', len(f), cells))
    for t in ('a*b', 'what?', '*'):
        cases.append((f'="{t}"&"c"', T(t + 'c'), 'C17.text_literal.wildcard_char_lexed_as_pattern', len(t), None))
        cases.append((f'=CONCATENATE("{t}","c")', T(t + 'c'), 'C17.text_literal.wildcard_char_lexed_as_pattern', len(t) + 1, None))
    return cases


# ------------------------------------------------------------------------------------------------ 4. SEARCH, helpers
def _t_search_helper(args):
    finds, walpha, wmax, starts = args
    acc = Acc()
    insts = [(w, lib.get_class(w)()) for w in ('runtime', 'abstract')]
    withins = list(strings(walpha, wmax))
    for f in finds:
        if parse_pattern(f) is None:
            continue
        for t in withins:
            for s in starts:
                if s is not None and s > len(t) + 2:
                    continue
                exp = ref_search(f, t, s)
                if exp is None:
                    continue
                for which, inst in insts:
                    try:
                        got = inst._search(f, t, s)
                    except BaseException as e:  # noqa
                        got = codec.Raised(type(e).__name__, str(e)[:200])
                    acc.ev += 1
                    if exp[0] == 'pos':
                        acc.nt += 1
                    if not holds(got, exp):
                        key = search_key(f, t, s, 'helper')
                        size = search_size(f, t, s, exp)
                        cur = acc.fails.get(key)
                        if cur is None or size < cur[0]:
                            acc.fails[key] = [size, f'{which}._search({f!r}, {t!r}, {s!r}) -> {show(got)}, expected {show_exp(exp)}',
                                              helper_replay(which, '_search', [f, t, s], exp)]
    return acc.dump()


def _rand_text(rng, alpha, lo, hi):
    return ''.join(rng.choice(alpha) for _ in range(rng.randint(lo, hi)))


EDGE_SEARCH = [('b', 'İb', None), ('b', 'aİİb', 2), ('i', 'İi', None), ('a?b', 'a\nb', None), ('a*b', 'a\n\nb', None), ('я', 'ПриветЯ', None),
               ('Я?', 'xяz', None), ('ß', 'aßb', None), ('needle', long_text(300) + 'NeEdLe' + long_text(40), None),
               ('needle', long_text(300) + 'NeEdLe' + long_text(40), 301), ('needle', long_text(300) + 'NeEdLe' + long_text(40), 302),
               ('n??dle', long_text(300) + 'NeEdLe' + long_text(40), 250), ('n*e', long_text(60) + 'NeEdLe', 61), ('z', 'z' * 51, 51),
               ('z', 'z' * 51, 52), ('zz', 'z' * 51, 51), ('Z', 'a' * 1000 + 'z', 1001), ('Z', 'a' * 1000 + 'z', 1000), ('"', 'a"b', None),
               ("'", "it's", None), ('\\', 'a\\b', None), ('{', 'a{b}', None), ('%s', '10%s', None), ('ab', 'ABAB', 2), ('AB', 'abab', 3),
               ('b', 'Bob', None), ('a', 'bAnana', 2), ('o', 'Hello World', 6), ('O', 'Hello World', 5), ('world', 'Hello World', None),
               ('~?', 'what?', None), ('~*', '2*3', None), ('t~?', 'what? WhaT?', 6), ('?', 'x', None), ('?', '', None), ('*', 'x', None)]


def _t_search_random(args):
    seed, count, falpha, walpha = args
    rng = random.Random(seed)
    acc = Acc()
    insts = [(w, lib.get_class(w)()) for w in ('runtime', 'abstract')]
    for _ in range(count):
        t = _rand_text(rng, walpha, 4, 14)
        if rng.random() < 0.5 and len(t) > 3:       # plant an occurrence so that positive results are common
            i = rng.randrange(len(t) - 1)
            f = t[i:i + rng.randint(1, 4)].swapcase()
            if rng.random() < 0.5:
                j = rng.randrange(len(f))
                f = f[:j] + rng.choice('?*') + f[j + 1:]
            f = ''.join(('~' + c) if (c in '?*' and rng.random() < 0.3) else c for c in f)
        else:
            f = _rand_text(rng, falpha, 1, 5)
        s = rng.choice([None] + list(range(-1, len(t) + 3)))
        exp = ref_search(f, t, s)
        if exp is None:
            continue
        for which, inst in insts:
            got = lib.call_catch(inst._search, f, t, s)
            acc.check(got, exp, search_key(f, t, s, 'helper'), search_size(f, t, s, exp),
                      lambda: f'{which}._search({f!r}, {t!r}, {s!r}) -> {show(got)}, expected {show_exp(exp)}',
                      lambda: helper_replay(which, '_search', [f, t, s], exp), nontrivial=(exp[0] == 'pos'))
    return acc.dump()


def _t_search_edges(args):
    acc = Acc()
    insts = [(w, lib.get_class(w)()) for w in ('runtime', 'abstract')]
    for f, t, s in EDGE_SEARCH:
        exp = ref_search(f, t, s)
        if exp is None:
            continue
        for which, inst in insts:
            got = lib.call_catch(inst._search, f, t, s)
            acc.check(got, exp, search_key(f, t, s, 'helper'), search_size(f, t, s, exp),
                      lambda: f'{which}._search({short(f)}, {short(t)}, {s!r}) -> {show(got)}, expected {show_exp(exp)}',
                      lambda: helper_replay(which, '_search', [f, t, s], exp), nontrivial=(exp[0] == 'pos'))
    acc.sample({'call': "_search('L?', 'Hello', 2)", 'expected': 3})
    return acc.dump()


# ------------------------------------------------------------------------------------------------ 5. SEARCH, pipeline
SEARCH_FORMULAS = ['=SEARCH(D1,A1,C1)', '=SEARCH(D1,A1)', '=SEARCH(AD3,AB7,C1)']


def _t_search_override(args):
    finds, walpha, wmax, starts, extra = args
    acc = Acc()
    sheets = [{'title': 'S', 'cells': [['A', 1, 'Hello World'], ['C', 1, 1], ['D', 1, 'o w']] + [['Z', i + 1, f] for i, f in enumerate(SEARCH_FORMULAS)]},
              {'title': 'T', 'cells': [['A', 1, 'other sheet'], ['C', 1, 2], ['D', 1, 'T']] + [['Z', i + 1, f] for i, f in enumerate(SEARCH_FORMULAS[:2])]}]
    with lib.scratch() as d:
        p = lib.Pipe({'sheets': sheets}, d, safety=False)
        if p.error is not None:
            acc.check(p.error, T('a translation'), 'C17.search.translate', 0, lambda: f'translation failed: {p.error!r}',
                      lambda: wb_replay(sheets, [0, 25, 0], P(5)))
            return acc.dump()
        # constants
        for sh, r, exp in ((0, 0, P(5)), (0, 1, P(5)), (1, 0, P(2)), (1, 1, P(2))):
            got = _raw_value(p, sh, 25, r)
            acc.check(got, exp, 'C17.search.constants', r, lambda: f'{SEARCH_FORMULAS[r]} on sheet {sh} over constants -> {show(got)}, expected '
                      f'{show_exp(exp)}', lambda: wb_replay(sheets, [sh, 25, r], exp))
        triples = []
        withins = list(strings(walpha, wmax))
        for f in finds:
            if parse_pattern(f) is None:
                continue
            for t in withins:
                for s in starts:
                    if s is not None and s > len(t) + 2:
                        continue
                    triples.append((f, t, s))
        triples += list(extra)
        for f, t, s in triples:
            exp = ref_search(f, t, s)
            if exp is None:
                continue
            if s is None:
                over = [[0, 0, 0, t], [0, 3, 0, f]]
                reads = [1]
            else:
                over = [[0, 0, 0, t], [0, 3, 0, f], [0, 2, 0, s], [0, 27, 6, t], [0, 29, 2, f]]
                reads = [0, 2]
            p.executor.set_cells([_mk_override(p, *o) for o in over])
            near = True
            for r in reads:
                got = _raw_value(p, 0, 25, r)
                if r != 2:
                    near = holds(got, exp)
                acc.check(got, exp, search_key(f, t, s, 'override') + ('.cell_beyond_used_range' if (r == 2 and near) else ''),
                          search_size(f, t, s, exp) + r,
                          lambda: f'{SEARCH_FORMULAS[r]} with find={short(f)}, within={short(t)}, start={s!r} (overrides) -> {show(got)}, '
                                  f'expected {show_exp(exp)}',
                          lambda: wb_replay(sheets, [0, 25, r], exp, [[a, b, c, _enc_over(v)] for a, b, c, v in over]),
                          nontrivial=(exp[0] == 'pos'))
        # sheet T keeps its own constants
        for r, exp in ((0, P(2)), (1, P(2))):
            got = _raw_value(p, 1, 25, r)
            acc.check(got, exp, 'C17.search.same_formula_on_two_sheets', r, lambda: f'{SEARCH_FORMULAS[r]} on sheet T after overriding sheet S -> '
                      f'{show(got)}, expected {show_exp(exp)}', lambda: wb_replay(sheets, [1, 25, r], exp, [[0, 0, 0, 'zzz']]))
    acc.sample({'formula': '=SEARCH(D1,A1,C1)', 'D1': 'L?', 'A1': 'Hello', 'C1': 2, 'expected': 3})
    return acc.dump()


def _search_literal_cases(rng, tier):
    cases = []

    def add(f, t, s):
        if '"' in f or '"' in t:
            return
        exp = ref_search(f, t, s)
        if exp is None:
            return
        formula = f'=SEARCH("{f}","{t}")' if s is None else f'=SEARCH("{f}","{t}",{s})'
        cases.append((formula, exp, search_key(f, t, s, 'literal'), search_size(f, t, s, exp), None))
    plain_finds = ['a', 'A', 'b', 'ab', 'Ab', 'BA', '.', '+', '(', 'a.', '(a', 'a+b', 'zz', '[', '$', '^a', 'a|b', '\\', 'o w', 'O W', 'world', 'я']
    withins = ['', 'a', 'A', 'ab', 'aAb', 'bAB', 'a.b', 'a+b', '(a)', 'xxab', 'a|b', '^a$', 'Hello World', 'hello world', 'a\\b', 'ПриветЯ', long_text(51) + 'AB']
    for f in plain_finds:
        for t in withins:
            for s in [None, 1, 2, len(t), len(t) + 1]:
                add(f, t, s)
    for f, t, s in EDGE_SEARCH:
        if '\n' not in t and len(t) < 400:
            add(f, t, s)
    # escaped wildcards only (must stay ordinary literals) and genuine wildcards (known to be lexed as patterns)
    for f, t in [('~?', 'what-'), ('~*', '2x3'), ('a~?', 'xa-'), ('~?', 'ab')]:
        add(f, t, None)
    for f, t, s in [('a?', 'xab', None), ('L?', 'Hello', 2), ('*', 'abc', None), ('h*o', 'Hello', None), ('?', 'x', None), ('a?c', 'abc', 1)]:
        add(f, t, s)
    for f, t in [('a', 'a?b'), ('b', 'a*b'), ('?', 'what?')]:
        add(f, t, None)
    if tier == 'thorough':
        alpha = 'aAb.+( '
        for _ in range(1500):
            t = _rand_text(rng, alpha, 0, 8)
            f = _rand_text(rng, alpha, 1, 3)
            add(f, t, rng.choice([None, 1, 2, 3, len(t), len(t) + 1]))
    return cases


# ------------------------------------------------------------------------------------------------ 6. VALUE
def _value_cases(rng, tier):
    """(text, expectation, key)"""
    out = []
    ints = list(range(-20, 21)) + [99, 100, 101, 999, 1000, 1001, 2 ** 31 - 1, 2 ** 31, 2 ** 53 - 1, 2 ** 53, 2 ** 53 + 1, 10 ** 15, 10 ** 15 + 1,
                                   -2 ** 53 - 1, 10 ** 20 + 1, int('1' * 60), 1900, 2050, 2051, 43831]
    ints += [rng.randrange(-10 ** 12, 10 ** 12) for _ in range(60 if tier == 'quick' else 3000)]
    for x in ints:
        out.append((str(x), N(x), 'C17.value.integer'))
    for s in ['007', '0', '-0', '+5', '00', '0012', '-007']:
        out.append((s, N(int(s)), 'C17.value.integer_sign_zeros'))
    decs = [f'{i // 100}.{i % 100:02d}' for i in range(0, 301)] + ['0.1', '0.2', '0.3', '0.7', '1.005', '2.675', '0.000001', '123456.789',
                                                                     '-0.5', '-12.75', '.5', '5.', '1.50', '3.14159265358979', '0.30000000000000004',
                                                                     '9007199254740993.0', '1.0000000000000002', '4.35', '1.15', '-1.005']
    if tier == 'thorough':
        decs += [f'{rng.randrange(-10 ** 6, 10 ** 6)}.{rng.randrange(10 ** rng.randint(1, 9))}' for _ in range(3000)]
        decs += [f'{i // 1000}.{i % 1000:03d}' for i in range(0, 3000, 7)]
    for s in decs:
        out.append((s, N(Fraction(float(Fraction(Decimal(s))))), 'C17.value.decimal'))
    for s in ['1e3', '1E3', '2.5e-3', '1e+2', '-4E2', '1.5E10', '12e0', '1e-7', '1E15', '1e22']:
        out.append((s, N(Fraction(float(Fraction(Decimal(s))))), 'C17.value.exponent'))
    for s, q in [('7%', Fraction(7, 100)), ('50%', Fraction(1, 2)), ('100%', Fraction(1)), ('-5%', Fraction(-5, 100)), ('3%', Fraction(3, 100))]:
        out.append((s, N(Fraction(float(q))), 'C17.value.percent'))
    for s in ['abc', '', 'a1', '1a', '12abc', '--1', '1-', '1..2', '1.2.3', '$', '#', 'e5', '.', '-', '+', 'TRUE', 'x y', '0x10', '1 2 a', 'one']:
        out.append((s, ERR, 'C17.value.non_numeric'))
    for s in ['inf', '-inf', 'nan', 'Infinity', 'NaN', '1_000', '1_0.5', '-INF']:
        out.append((s, ERR, 'C17.value.python_only_number_syntax'))
    return out


def _t_value_helper(args):
    cases, = args
    acc = Acc()
    for which in ('runtime', 'abstract'):
        inst = lib.get_class(which)()
        for s, exp, key in cases:
            got = lib.call_catch(inst._value, s)
            acc.check(got, exp, key, len(s), lambda: f'{which}._value({short(s)}) -> {show(got)}, expected {show_exp(exp)}',
                      lambda: helper_replay(which, '_value', [s], exp), nontrivial=(exp[0] == 'num'))
    acc.sample({'call': "_value('12.75')", 'expected': 12.75})
    return acc.dump()


VALUE_FORMULAS = ['=VALUE(A1)', '=VALUE(A1)+1', '=VALUE(AB7)', '=VALUE(LEFT(A1,E1))', '=VALUE(A1&"")']


def _t_value_override(args):
    cases, = args
    acc = Acc()
    sheets = [{'title': 'S', 'cells': [['A', 1, '12'], ['E', 1, 2]] + [['Z', i + 1, f] for i, f in enumerate(VALUE_FORMULAS)]}]
    with lib.scratch() as d:
        p = lib.Pipe({'sheets': sheets}, d, safety=False)
        if p.error is not None:
            acc.check(p.error, T('a translation'), 'C17.value.translate', 0, lambda: f'translation failed: {p.error!r}',
                      lambda: wb_replay(sheets, [0, 25, 0], N(12)))
            return acc.dump()
        got = _raw_value(p, 0, 25, 0)
        acc.check(got, N(12), 'C17.value.constants', 0, lambda: f'=VALUE(A1) with the constant A1="12" -> {show(got)}, expected 12',
                  lambda: wb_replay(sheets, [0, 25, 0], N(12)))
        for s, exp, key in cases:
            over = [[0, 0, 0, s], [0, 4, 0, len(s)], [0, 27, 6, s]]
            p.executor.set_cells([_mk_override(p, *o) for o in over])
            for r, f in enumerate(VALUE_FORMULAS):
                e = exp
                if r == 1:
                    if not key.startswith('C17.value.integer') or abs(Fraction(exp[1])) >= 2 ** 52:
                        continue
                    e = N(Fraction(exp[1]) + 1)
                if r in (3, 4) and s == '':
                    continue            # LEFT("",0) / ""&"" have their own keys
                got = _raw_value(p, 0, 25, r)
                if r == 0:
                    near = holds(got, e)
                acc.check(got, e, key + ('.cell_beyond_used_range' if (r == 2 and near) else ''), len(s) + r,
                          lambda: f'{f} with A1=AB7={short(s)}, E1={len(s)} (overrides) -> {show(got)}, expected {show_exp(e)}',
                          lambda: wb_replay(sheets, [0, 25, r], e, [[a, b, c, _enc_over(v)] for a, b, c, v in over]),
                          nontrivial=(e[0] == 'num'))
    return acc.dump()


def _value_literal_cases(cases, rng, n):
    out = []
    pool = [c for c in cases if '"' not in c[0]]
    musts = [c for c in pool if c[2] != 'C17.value.decimal' and c[2] != 'C17.value.integer']
    rest = [c for c in pool if c not in musts]
    rng.shuffle(rest)
    for s, exp, key in musts + rest[:n]:
        out.append((f'=VALUE("{s}")', exp, key, len(s), None))
    out.append(('=VALUE(MID("abc123",4,3))', N(123), 'C17.value.of_slice', 3, None))
    out.append(('=VALUE(RIGHT("x-7.25",5))', N(Fraction(-29, 4)), 'C17.value.of_slice', 4, None))
    out.append(('=VALUE("12")+VALUE("0.5")', N(Fraction(25, 2)), 'C17.value.sum', 4, None))
    out.append(('=VALUE(LEFT("12ab",2))&"x"', T('12x'), 'C17.value.of_slice', 5, None))
    return out


# ------------------------------------------------------------------------------------------------ orchestration
def _finish(name, bound, rule, exhaustive, acc, t0):
    fails = []
    for key in sorted(acc.fails, key=lambda k: (acc.fails[k][0], k)):
        size, what, rep = acc.fails[key]
        if rep is not None:
            try:
                rr = replay(rep)
                what += '  [replayed: ' + ('reproduced' if rr['fails'] else 'NOT reproduced in isolation') + ']'
            except BaseException as e:  # noqa
                what += f'  [replay raised {type(e).__name__}]'
        fails.append({'key': key, 'what': what, 'replay': rep})
    return {'name': name, 'bound': bound, 'rule': rule, 'exhaustive': exhaustive, 'evaluations': acc.ev,
            'distinct_nontrivial': acc.nt, 'failures': fails[:25], 'samples': acc.samples[:3], 'seconds': round(time.time() - t0, 2)}


def _run_tasks(pool, fn, tasks):
    acc = Acc()
    for d in pool.map(fn, tasks, chunksize=1):
        acc.merge(d)
    return acc


def run(tier='quick', seed=0):
    thorough = tier == 'thorough'
    rng = random.Random(seed)
    checks = []
    with Pool(NPROC) as pool:
        # ---- 1 slices on the helpers
        t0 = time.time()
        small = list(strings('aB?', 5 if thorough else 4)) + SPECIAL_TEXTS
        longs = [long_text(n) for n in (LONG_LENGTHS_THOROUGH if thorough else LONG_LENGTHS_QUICK)]
        acc = _run_tasks(pool, _t_slice_helper, [(c, 'small') for c in _chunks(small, NPROC)] + [([t], 'long') for t in longs])
        checks.append(_finish(
            'C17.monitor.slices_helpers',
            f'_left/_right/_mid of both runtime copies: all {len(small) - len(SPECIAL_TEXTS)} texts over {{a,B,?}} up to length '
            f'{5 if thorough else 4} + {len(SPECIAL_TEXTS)} special texts (quotes, backslash, line break, braces, non-ASCII), every count and '
            f'start in -2..len+3; texts of length {LONG_LENGTHS_THOROUGH if thorough else LONG_LENGTHS_QUICK} with counts/starts at 0,1,2,49..52,'
            f'99..101,255..257,299..302,999..1001,len-2..len+2,2len,2^31,2^63; rebuild identity for every 0<=n<len',
            'one evaluation = one call compared with Python slicing (text result must be a str; negative count / start<1 must give an '
            'error value); non-trivial = arguments inside the non-error domain', True, acc, t0))

        # ---- 2 slices through the pipeline
        t0 = time.time()
        small_p = list(strings('aB?', 4 if thorough else 3)) + SPECIAL_TEXTS
        tasks = [(c, 'small', False) for c in _chunks(small_p, 8)] + [([t], 'long', False) for t in longs[:8]] + \
                [(_chunks(small_p, 2)[0], 'small', True), ([longs[1]], 'long', True)]
        acc = _run_tasks(pool, _t_slice_override, tasks)
        n_const = 400 if thorough else 105
        acc.merge(_run_tasks(pool, _t_slice_constants, [(seed + i, n_const, 40 if thorough else 6, tier) for i in range(4 if thorough else 1)]).dump())
        lit = _slice_literal_cases(rng, tier)
        acc.merge(_run_tasks(pool, _t_literal_batch, _chunks(lit, NPROC * 2)).dump())
        acc.merge(_run_tasks(pool, _t_parser_reuse, [None]).dump())
        checks.append(_finish(
            'C17.monitor.slices_rebuild_pipeline',
            f'Parser -> class -> Executor: {SLICE_FORMULAS} on two sheets with identical formula texts; arguments as overrides (all '
            f'{len(small_p)} small/special texts x counts/starts -2..len+3, long texts as above, the same text also in a cell beyond the used '
            f'range), as workbook constants in rows 1..{n_const} incl. rows 99-103 and 999-1003 ({n_const} boundary triples per workbook, whole-file and '
            f'entry-point translation), and as literals ({len(lit)} formulas); one Parser and one Executor re-used over two workbooks',
            'one evaluation = one cell value compared with Python slicing / with t for the rebuild identity (0<=n<len only); LEFT(t)/RIGHT(t) '
            'are read as n=1 for non-empty t; text functions of a blank cell are not counted (no clause)', False, acc, t0))

        # ---- 3 & and CONCATENATE
        t0 = time.time()
        pairs = list(itertools.product(CONCAT_VALUES, repeat=2))
        extra_long = [(long_text(n), long_text(7)) for n in ([51, 301, 1000] + ([32767] if thorough else []))]
        acc = _run_tasks(pool, _t_concat_override, [(c,) for c in _chunks(pairs + extra_long, NPROC)])
        clit = _concat_literal_cases(tier)
        acc.merge(_run_tasks(pool, _t_literal_batch, _chunks(clit, NPROC * 2)).dump())
        checks.append(_finish(
            'C17.monitor.concat',
            f'{CONCAT_FORMULAS} with A1,B1 overridden by every ordered pair of {len(CONCAT_VALUES)} operand values (texts incl. "", ints, '
            f'fractional and whole floats, booleans, blank, dates at midnight) + texts of 51/301/1000 characters; {len(clit)} literal formulas: '
            'all pairs of 11 literals for & and CONCATENATE, arities 1..255 with distinct markers (both separators), nested brackets, '
            'operands that are LEFT/MID/RIGHT/CONCATENATE calls',
            'one evaluation = one cell value compared with the operands\' Excel text forms joined in order (text as is, integer digits, '
            'TRUE/FALSE, blank -> "", whole number without fraction, date -> serial number); a key names the operand kind whose text form is wrong when '
            'joined with the empty text', True, acc, t0))

        # ---- 4 SEARCH on the helpers
        t0 = time.time()
        falpha = 'aAb?*~.+([$' if thorough else 'aAb?*~.+('
        walpha = 'aAb?*.~'
        fmax, wmax = 3, (4 if thorough else 3)
        starts = [None, -1, 0, 1, 2, 3, 4, 5, 6]
        finds = [f for f in strings(falpha, fmax)]
        acc = _run_tasks(pool, _t_search_helper, [(c, walpha, wmax, starts) for c in _chunks(finds, NPROC * 4)])
        n_rand = 1000000 if thorough else 48000
        acc.merge(_run_tasks(pool, _t_search_random, [(seed * 1000 + i, n_rand // 32, 'aAbB?*~.+(x', 'aAbBxX?*.+( ') for i in range(32)]).dump())
        acc.merge(_run_tasks(pool, _t_search_edges, [None]).dump())
        checks.append(_finish(
            'C17.monitor.search_helpers',
            f'_search of both runtime copies: every find text up to length {fmax} over {{{",".join(falpha)}}} x every within text up to length '
            f'{wmax} over {{{",".join(walpha)}}} x start in {{omitted,-1..6}}; {n_rand} seeded random triples (find 1..5, within 4..14 characters, planted '
            f'occurrences in swapped case with ?/* substituted); {len(EDGE_SEARCH)} hand-picked cases (texts > 50 / 300 / 1000 characters, start = len, '
            'len+1, characters whose lower-case form is longer, line breaks, quotes, Cyrillic)',
            'one evaluation = one call compared with a reference (smallest p >= start at which the pattern matches a substring; ? one character, '
            '* any run, ~? ~* ~~ literal; comparison by case folding); start < 1 may give #VALUE! or the result for start 1; not counted: a ~ that does not '
            'escape ?/*, and an empty match exactly behind the end of the text; non-trivial = a position is expected', True, acc, t0))

        # ---- 5 SEARCH through the pipeline
        t0 = time.time()
        pf = list(strings('aAb?*~.', 2)) + ['*(', 'a(', '(?', '+?', 'a+']
        extra = [(f, t, s) for f, t, s in EDGE_SEARCH]
        acc = _run_tasks(pool, _t_search_override, [(c, 'aAb?*.', 3, [None, 0, 1, 2, 3, 4], extra if i == 0 else [])
                                                    for i, c in enumerate(_chunks(pf, NPROC))])
        slit = _search_literal_cases(rng, tier)
        acc.merge(_run_tasks(pool, _t_literal_batch, _chunks(slit, NPROC * 2)).dump())
        checks.append(_finish(
            'C17.monitor.search_pipeline',
            f'{SEARCH_FORMULAS} (and the same formula texts on a second sheet) with find/within/start as overrides: every find text up to length 2 '
            f'over {{a,A,b,?,*,~,.}} (+ 5 with ( or +) x every within text up to length 3 over {{a,A,b,?,*,.}} x start in {{omitted,0..4}} + the {len(EDGE_SEARCH)} '
            f'hand-picked cases, also read through cells beyond the used range; {len(slit)} formulas =SEARCH("f","t"[,s]) with literal arguments '
            '(regex-special characters, escaped wildcards, wildcard literals, ? or * in the within literal)',
            'as for the helpers; wildcard literals (lexed as patterns) and regex metacharacters are keyed apart', False, acc, t0))

        # ---- 6 VALUE
        t0 = time.time()
        vcases = _value_cases(rng, tier)
        acc = _run_tasks(pool, _t_value_helper, [(c,) for c in _chunks(vcases, NPROC)])
        acc.merge(_run_tasks(pool, _t_value_override, [(c,) for c in _chunks(vcases, NPROC)]).dump())
        vlit = _value_literal_cases(vcases, rng, 1500 if thorough else 250)
        acc.merge(_run_tasks(pool, _t_literal_batch, _chunks(vlit, NPROC * 2)).dump())
        checks.append(_finish(
            'C17.monitor.value',
            f'{len(vcases)} texts: integers -20..20, powers/thresholds (2^31, 2^53+-1, 10^15+1, 10^20+1, 60 digits), seeded integers < 10^12, the '
            'grid 0.00..3.00 step 0.01, hand-picked decimals, exponent forms, whole percents, signs and leading zeros, 20 non-numeric texts, 8 texts that '
            f'only Python reads as numbers; through _value of both runtime copies, through {VALUE_FORMULAS} under overrides and through '
            f'{len(vlit)} formulas =VALUE("...")',
            'one evaluation = one result compared exactly (as a rational) with the integer denoted / the double nearest to the decimal denoted; '
            'non-numeric text must give an error value (this clause comes from the design note and Excel; the statement itself only speaks of '
            'numeric text); dates, times, decimal commas, inner blanks are not counted (no clause)', True, acc, t0))
    return {'checks': checks}


# ------------------------------------------------------------------------------------------------ replay
def replay(payload):
    if not payload:
        return {'fails': False, 'text': 'nothing to replay'}
    k = payload.get('kind')
    if k == 'helper':
        inst = lib.get_class(payload['which'])()
        args = [codec.dec(a) for a in payload['args']]
        got = lib.call_catch(getattr(inst, payload['fn']), *args)
        return {'fails': not holds(got, payload['exp']),
                'text': f'{payload["which"]}.{payload["fn"]}({", ".join(short(a) for a in args)}) -> {show(got)}; expected {show_exp(payload["exp"])}'}
    if k == 'rebuild_helper':
        inst = lib.get_class(payload['which'])()
        t, n = payload['t'], payload['n']
        a = lib.call_catch(inst._left, t, n)
        b = lib.call_catch(inst._mid, t, n + 1, len(t))
        ok = type(a) is str and type(b) is str and a + b == t
        return {'fails': not ok, 'text': f'_left(t,{n}) -> {show(a)}, _mid(t,{n + 1},{len(t)}) -> {show(b)} for t={short(t)}'}
    if k == 'wb':
        from excel2pycl import Cell
        with lib.scratch() as d:
            entry = tuple(payload['entry']) if payload.get('entry') else None
            p = lib.Pipe({'sheets': payload['sheets']}, d, entry=entry, safety=False)
            if p.error is not None:
                got = p.error
            else:
                enc, dec = lib.coder(p.cls)
                if payload['overrides']:
                    p.executor.set_cells([Cell(a, b, c, dec(v)) for a, b, c, v in payload['overrides']])
                got = p.value(*payload['read'])
            return {'fails': not holds(got, payload['exp']),
                    'text': f'workbook {str(payload["sheets"])[:300]} overrides {str(payload["overrides"])[:200]} read {payload["read"]} -> {show(got)}; '
                            f'expected {show_exp(payload["exp"])}'}
    if k == 'parser_reuse':
        d = _t_parser_reuse(None)
        return {'fails': bool(d['fails']), 'text': '; '.join(v[1] for v in d['fails'].values()) or 'one Parser / one Executor over two workbooks: all values right'}
    return {'fails': False, 'text': 'nothing to replay'}
