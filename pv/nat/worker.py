"""Native worker: executed by /venv/bin/python; imports the repository from $E2PYCL_REPO."""
import importlib
import json
import os
import sys
import warnings

warnings.filterwarnings('ignore')
REPO = os.environ.get('E2PYCL_REPO', '/repo')
VERIF = os.path.dirname(os.path.dirname(os.path.dirname(os.path.abspath(__file__))))
sys.path[:0] = [REPO, VERIF]
sys.dont_write_bytecode = True


def main():
    req = json.loads(sys.stdin.read())
    mod = importlib.import_module('pv.nat.' + req['module'])
    res = getattr(mod, req['func'])(**req['args'])
    sys.stdout.write('\n@@RESULT@@' + json.dumps(res))


if __name__ == '__main__':
    main()
