"""K2 facts about the real grammar data (token regexps and token sets read from the real classes)."""
import re


def grammar_facts():
    from pv.nat.basic import grammar
    g = grammar()
    nullable = []
    for name, info in g['regexp'].items():
        try:
            if re.fullmatch(info['regexp'], '', re.DOTALL) is not None:
                nullable.append(name)
        except re.error as e:
            nullable.append(f'{name} (regex error {e})')
    comp = g['composite']
    lexer = set(g['regexp'])
    # first-symbol graph
    first = {c: {ts[0] if ts[0] != 'cls' else c for ts in info['token_sets'] if ts} for c, info in comp.items()}
    left_rec = []
    for c in comp:
        seen, todo = set(), [c]
        while todo:
            x = todo.pop()
            for f in first.get(x, ()):
                if f in lexer:
                    continue
                if f == c:
                    left_rec.append(c)
                    todo = []
                    break
                if f not in seen:
                    seen.add(f)
                    todo.append(f)
    n_sets = sum(len(i['token_sets']) for i in comp.values())
    sep = g['regexp'].get('SeparatorToken')
    sep_ok = bool(sep) and re.fullmatch(sep['regexp'], ',') is not None and re.fullmatch(sep['regexp'], ';') is not None
    return {'n_regexp': len(g['regexp']), 'nullable': nullable, 'n_composite': len(comp), 'n_sets': n_sets,
            'left_recursive': sorted(set(left_rec)), 'separator_ok': sep_ok,
            'separator_detail': (f'SeparatorToken regexp {sep["regexp"]!r} accepts both "," and ";" and token sets mention only '
                                 'the class, never the text' if sep else 'no SeparatorToken class')}
