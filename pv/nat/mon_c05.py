"""K4 bounded monitor for C05 (a formula is translated whole or rejected - never silently truncated).

Runs under /venv/bin/python on the real code, through the public pipeline: one workbook per formula ->
Parser.get_translation -> generated class -> Executor.get_cell.

Contract monitored (taken from the property statement, not from the code).  For a cell text T that starts with '=':

  R(T) is an independent reference reading of the COMPLETE text: an Excel-style lexer (numbers, "texts" with ""
  escapes, TRUE/FALSE, A1 / $A$1 / Sheet!A1 / 'Sheet x'!A1 references, areas, operators, %, brackets, ',' / ';')
  + a precedence parser + the table SPEC of supported functions and the argument counts the grammar defines for each
  + a small evaluator over a fixed fixture workbook.

  (a) R(T) = not a formula (adjacent operands, dangling / doubled operator, unbalanced bracket, stray separator,
      unknown function, argument count outside SPEC, unterminated text ...)
          => Parser.get_translation must raise E2PyclParserException (the sibling E2PyclCellException, raised for an
             unknown sheet title, is also counted as a refusal by the library: the property's outcome classes are
             value / library exception / foreign exception).
  (b) R(T) = formula with value v   => library exception (rejected as a whole), or a class that loads and
      evaluates the cell to v.  Anything else (other value = some part of T was dropped or mis-read, foreign
      exception, module that does not compile) is a violation.
  (c) R(T) = formula, but the evaluator has no clause for its value (see `rule`) => only: no foreign exception and
      the returned module compiles.
  (d) T' = T with white space inserted between tokens, or with ',' / ';' exchanged => same outcome as T.

Operator precedence itself belongs to C01: formulas whose value depends on the relative precedence of a sign, a
comparison, % or & against a neighbouring operator are evaluated under (c) only (`precedence_safe`).  Likewise the
meaning of a wild-card text outside a criterion (C07/C12), the text form of computed numbers (C17) and the
semantics of each function beyond the canonical calls of `canonical_args` are not judged here."""
import datetime
import itertools
import multiprocessing
import os
import random
import re
import signal
import time
from fractions import Fraction

from pv import codec
from pv.nat import lib

# ====================================================================================================== fixture
DT = lambda y, m, d: {'$dt': [y, m, d, 0, 0, 0, 0]}  # noqa: E731
FIX_S = [['A', 1, 1], ['A', 2, 2], ['A', 3, 4], ['A', 4, 8], ['B', 1, 16], ['B', 2, 32], ['B', 3, 64], ['B', 4, 128],
         ['C', 1, 'ax'], ['C', 2, 'ay'], ['C', 3, 'b'], ['C', 4, 'ax'],
         ['D', 1, DT(2024, 1, 15)], ['D', 2, DT(2024, 3, 1)], ['D', 3, DT(2024, 1, 17)]]
FIX_T = [['A', 1, 1000], ['A', 2, 2000]]
TITLES = ('S', 'T 2')
CELLS = {('S', c, r): (codec.dec(v) if isinstance(v, dict) else v) for c, r, v in FIX_S}
CELLS.update({('T 2', c, r): v for c, r, v in FIX_T})
FORMULA_AT = ('Z', 1)           # the formula under test lives in S!Z1 (so COLUMN() = 26)


def col_num(letters):
    n = 0
    for ch in letters.upper():
        n = n * 26 + ord(ch) - 64
    return n


def col_letters(n):
    s = ''
    while n > 0:
        n, r = divmod(n - 1, 26)
        s = chr(65 + r) + s
    return s


# ====================================================================================================== reference
class RefError(Exception):
    """The complete text is not a formula of the supported grammar; .cat names the reason."""

    def __init__(self, cat):
        super().__init__(cat)
        self.cat = cat


class NoClause(Exception):
    """The reference evaluator has no clause for the value of this (well-formed) formula."""


WS = ' \t\n'
_NUM = re.compile(r'(\d+\.?\d*|\.\d+)([eE][+-]?\d+)?')
_WORD = re.compile(r'[A-Za-z_$][A-Za-z0-9_$.]*')
_CELL = re.compile(r'^\$?([A-Za-z]{1,3})\$?([0-9]+)$')
_COLONLY = re.compile(r'^\$?([A-Za-z]{1,3})$')
OPERAND_KINDS = ('num', 'str', 'bool', 'ref', 'range', 'name', 'lp')


def _cell_of(word):
    m = _CELL.match(word)
    if m and 1 <= col_num(m.group(1)) <= 16384 and 1 <= int(m.group(2)) <= 1048576:
        return col_num(m.group(1)), int(m.group(2))
    return None


def rlex(text):
    """Reference lexer over the text after the leading '='.  Token = (kind, payload, start, end)."""
    assert text[:1] == '='
    toks, i, n = [], 1, len(text)
    while i < n:
        c = text[i]
        if c in WS:
            i += 1
            continue
        if c == '"':
            j, buf = i + 1, []
            while True:
                if j >= n:
                    raise RefError('unterminated_text')
                if text[j] == '"':
                    if text[j + 1:j + 2] == '"':
                        buf.append('"')
                        j += 2
                        continue
                    break
                buf.append(text[j])
                j += 1
            toks.append(('str', ''.join(buf), i, j + 1))
            i = j + 1
            continue
        sheet = None
        start = i
        if c == "'":
            j = text.find("'", i + 1)
            if j < 0 or text[j + 1:j + 2] != '!':
                raise RefError('bad_sheet_prefix')
            sheet = text[i + 1:j]
            i = j + 2
            c = text[i:i + 1]
        if c.isdigit() or (c == '.' and text[i + 1:i + 2].isdigit()):
            if sheet is not None:
                raise RefError('bad_reference')
            m = _NUM.match(text, i)
            toks.append(('num', m.group(), i, m.end()))
            i = m.end()
            continue
        m = _WORD.match(text, i) if c else None
        if m:
            w, j = m.group(), m.end()
            if sheet is None and text[j:j + 1] == '!':
                sheet = w
                i = j + 1
                m = _WORD.match(text, i)
                if not m:
                    raise RefError('bad_reference')
                w, j = m.group(), m.end()
            cell = _cell_of(w)
            if cell:
                if text[j:j + 1] == ':':
                    m2 = _WORD.match(text, j + 1)
                    cell2 = _cell_of(m2.group()) if m2 else None
                    if not cell2:
                        raise RefError('bad_range')
                    toks.append(('range', (sheet, cell[0], cell[1], cell2[0], cell2[1]), start, m2.end()))
                    i = m2.end()
                else:
                    toks.append(('ref', (sheet, cell[0], cell[1]), start, j))
                    i = j
                continue
            if _COLONLY.match(w) and text[j:j + 1] == ':':
                m2 = _WORD.match(text, j + 1)
                if not (m2 and _COLONLY.match(m2.group())):
                    raise RefError('bad_range')
                toks.append(('range', (sheet, col_num(_COLONLY.match(w).group(1)), None,
                                       col_num(_COLONLY.match(m2.group()).group(1)), None), start, m2.end()))
                i = m2.end()
                continue
            if sheet is not None:
                raise RefError('bad_reference')
            if w.upper() in ('TRUE', 'FALSE'):
                if text[j:j + 2] == '()':
                    j += 2
                toks.append(('bool', w.upper() == 'TRUE', start, j))
                i = j
                continue
            k = j
            while k < n and text[k] in WS:
                k += 1
            if text[k:k + 1] != '(':
                raise RefError('name_without_call')
            toks.append(('name', w.upper(), start, j))
            i = j
            continue
        if sheet is not None:
            raise RefError('bad_reference')
        two = text[i:i + 2]
        if two in ('<>', '<=', '>='):
            toks.append(('op', two, i, i + 2))
            i += 2
        elif c in '+-*/&=<>':
            toks.append(('op', c, i, i + 1))
            i += 1
        elif c == '%':
            toks.append(('pct', c, i, i + 1))
            i += 1
        elif c == '(':
            toks.append(('lp', c, i, i + 1))
            i += 1
        elif c == ')':
            toks.append(('rp', c, i, i + 1))
            i += 1
        elif c in ',;':
            toks.append(('sep', c, i, i + 1))
            i += 1
        else:
            raise RefError('unknown_character')
    return toks


# ---- the supported grammar of function calls: name -> predicate on the number of arguments (empty ones included)
def _in(*ns):
    return lambda n: n in ns


def _atleast(k):
    return lambda n: n >= k


def _odd_from3(n):
    return n >= 3 and n % 2 == 1


def _even_from2(n):
    return n >= 2 and n % 2 == 0


SPEC = {
    'ADDRESS': _in(2, 3, 4, 5), 'AND': _atleast(1), 'AVERAGE': _atleast(1), 'AVERAGEIFS': _odd_from3,
    'COLUMN': _in(0, 1), 'COUNT': _atleast(1), 'COUNTBLANK': _atleast(1), 'COUNTIFS': _even_from2,
    'CONCATENATE': _atleast(1), 'DAY': _in(1), 'DATE': _in(3), 'DATEDIF': _in(3), 'EDATE': _in(2), 'EOMONTH': _in(2),
    'IF': _in(2, 3), 'IFERROR': _in(2), 'IFS': _even_from2, 'INDEX': _in(2, 3, 4), 'LEFT': _in(1, 2),
    'MATCH': _in(2, 3), 'MAX': _atleast(1), 'MID': _in(3), 'MIN': _atleast(1), 'MONTH': _in(1),
    'NETWORKDAYS': _in(2, 3), 'OR': _atleast(1), 'RIGHT': _in(1, 2), 'ROUND': _in(2), 'ROUNDUP': _in(1, 2),
    'ROUNDDOWN': _in(1, 2), 'SEARCH': _in(2, 3), 'SUM': _atleast(1), 'SUMIF': _in(2, 3), 'SUMIFS': _odd_from3,
    'TEXT': _in(2), 'TODAY': _in(0), 'VALUE': _in(1), 'VLOOKUP': _in(3, 4), 'XMATCH': _in(2, 3, 4), 'YEAR': _in(1),
}
# COUNTBLANK with several areas and ROUNDUP/ROUNDDOWN with one argument are extensions over Excel that the library
# documents by example; they are part of the supported grammar.  Everything else is Excel's signature.


class _P:
    def __init__(self, toks):
        self.t, self.i = toks, 0

    def peek(self):
        return self.t[self.i] if self.i < len(self.t) else None

    def kind(self):
        p = self.peek()
        return p[0] if p else None

    def take(self):
        self.i += 1
        return self.t[self.i - 1]

    def leftover(self):
        k = self.kind()
        if k == 'rp':
            return RefError('unbalanced_close')
        if k == 'sep':
            return RefError('stray_separator')
        if k in OPERAND_KINDS:
            prev = self.t[self.i - 1][0] if self.i else None
            return RefError('operand_after_percent' if prev == 'pct' else 'adjacent_operands')
        return RefError('trailing_' + str(k))

    def parse(self):
        if not self.t:
            raise RefError('empty')
        e = self.expr()
        if self.peek() is not None:
            raise self.leftover()
        return e

    def _binary(self, sub, ops):
        left = sub()
        while self.kind() == 'op' and self.peek()[1] in ops:
            op = self.take()[1]
            left = ('bin', op, left, sub())
        return left

    def expr(self):
        return self._binary(self.concat, ('=', '<>', '<', '>', '<=', '>='))

    def concat(self):
        return self._binary(self.add, ('&',))

    def add(self):
        return self._binary(self.mul, ('+', '-'))

    def mul(self):
        return self._binary(self.unary, ('*', '/'))

    def unary(self):
        if self.kind() == 'op' and self.peek()[1] in '+-':
            op = self.take()[1]
            return ('un', op, self.unary())
        return self.postfix()

    def postfix(self):
        e = self.primary()
        while self.kind() == 'pct':
            self.take()
            e = ('pct', e)
        return e

    def primary(self):
        p = self.peek()
        if p is None:
            raise RefError('operand_missing_at_end' if self.i else 'empty')
        k = p[0]
        if k in ('num', 'str', 'bool', 'ref', 'range'):
            self.take()
            return (k, p[1])
        if k == 'lp':
            self.take()
            e = self.expr()
            if self.kind() == 'sep' and e[0] in ('range', 'ref'):
                items = [e]
                while self.kind() == 'sep':
                    self.take()
                    x = self.expr()
                    if x[0] not in ('range', 'ref'):
                        raise RefError('bad_union')
                    items.append(x)
                e = ('union', items)
            if self.kind() != 'rp':
                if self.peek() is None:
                    raise RefError('unbalanced_open')
                raise self.leftover()
            self.take()
            return ('par', e)
        if k == 'name':
            self.take()
            self.take()                       # the lexer guarantees '('
            args = []
            if self.kind() == 'rp':
                self.take()
                return ('call', p[1], args)
            while True:
                if self.kind() in ('sep', 'rp'):
                    args.append(None)
                else:
                    args.append(self.expr())
                if self.kind() == 'sep':
                    self.take()
                    continue
                if self.kind() == 'rp':
                    self.take()
                    return ('call', p[1], args)
                if self.peek() is None:
                    raise RefError('unbalanced_open')
                raise self.leftover()
        raise RefError({'op': 'operator_where_operand_expected', 'pct': 'percent_where_operand_expected',
                        'rp': 'close_where_operand_expected', 'sep': 'separator_where_operand_expected'}[k])


def _check_calls(e):
    if e is None or not isinstance(e, tuple):
        return
    if e[0] == 'call':
        if e[1] not in SPEC:
            raise RefError('unknown_function')
        if not SPEC[e[1]](len(e[2])):
            raise RefError('arity_' + e[1])
        for a in e[2]:
            _check_calls(a)
    elif e[0] == 'bin':
        _check_calls(e[2])
        _check_calls(e[3])
    elif e[0] == 'un':
        _check_calls(e[2])
    elif e[0] in ('pct', 'par'):
        _check_calls(e[1])
    elif e[0] == 'union':
        for a in e[1]:
            _check_calls(a)


def rparse(text):
    """AST of the complete text, or RefError."""
    e = _P(rlex(text)).parse()
    _check_calls(e)
    return e


def unparse(e, sep=','):
    k = e[0] if e is not None else None
    if e is None:
        return ''
    if k == 'num':
        return e[1]
    if k == 'str':
        return '"' + e[1].replace('"', '""') + '"'
    if k == 'bool':
        return 'TRUE' if e[1] else 'FALSE'
    if k in ('ref', 'range'):
        s = e[1][0]
        pre = '' if s is None else (s + '!' if re.fullmatch(r'\w+', s) else "'" + s + "'!")
        if k == 'ref':
            return pre + col_letters(e[1][1]) + str(e[1][2])
        a = col_letters(e[1][1]) + ('' if e[1][2] is None else str(e[1][2]))
        b = col_letters(e[1][3]) + ('' if e[1][4] is None else str(e[1][4]))
        return pre + a + ':' + b
    if k == 'bin':
        return unparse(e[2], sep) + e[1] + unparse(e[3], sep)
    if k == 'un':
        return e[1] + unparse(e[2], sep)
    if k == 'pct':
        return unparse(e[1], sep) + '%'
    if k == 'par':
        return '(' + unparse(e[1], sep) + ')'
    if k == 'union':
        return sep.join(unparse(x, sep) for x in e[1])
    if k == 'call':
        return e[1] + '(' + sep.join(unparse(a, sep) for a in e[2]) + ')'
    raise ValueError(k)


# ---- precedence gate (C01 owns precedence): value clause only for chains whose reading does not depend on it
ARITH = ('+', '-', '*', '/')
CMP = ('=', '<>', '<', '>', '<=', '>=')


def _flat(e):
    if e[0] == 'bin':
        return _flat(e[2]) + [e[1]] + _flat(e[3])
    return [e]


def precedence_safe(e):
    if e is None:
        return True
    k = e[0]
    if k == 'bin':
        chain = _flat(e)
        operands, ops = chain[0::2], chain[1::2]
        if any(o[0] == 'un' for o in operands[:-1]) or any(o[0] == 'pct' for o in operands[:-2]) or \
                any(o[0] == 'pct' and o[1][0] == 'pct' for o in operands[:-1]):
            return False
        if any(op in CMP for op in ops):
            if ops[0] not in CMP or any(op not in ARITH for op in ops[1:]):
                return False
        elif '&' in ops:
            seen_arith = False
            for op in ops:
                if op in ARITH:
                    seen_arith = True
                elif seen_arith:
                    return False
        return all(precedence_safe(o) for o in operands)
    if k == 'un':
        return e[2][0] != 'bin' and precedence_safe(e[2])
    if k in ('pct', 'par'):
        return precedence_safe(e[1])
    if k == 'call':
        return all(precedence_safe(a) for a in e[2])
    if k == 'union':
        return all(precedence_safe(a) for a in e[1])
    return True


# ---- evaluator
class Area(list):
    pass


def _num(v):
    if isinstance(v, bool):
        return Fraction(int(v))
    if isinstance(v, (int, Fraction)):
        return Fraction(v)
    if isinstance(v, float):
        return Fraction(repr(v))
    raise NoClause('not a number')


def _cellval(sheet, c, r):
    return CELLS.get((sheet or 'S', col_letters(c), r))


def _area(e):
    s, c1, r1, c2, r2 = e[1]
    if r1 is None:
        r1, r2 = 1, 4
    return Area([[_cellval(s, c, r) for c in range(c1, c2 + 1)] for r in range(r1, r2 + 1)])


def _text_operand(e, v):
    """text form of an operand of & / CONCATENATE: only texts and whole numbers written as such have a clause"""
    if isinstance(v, str):
        return v
    if (e[0] == 'ref' or (e[0] == 'num' and e[1].isdigit())) and isinstance(v, (int, Fraction)) and not isinstance(v, bool) and Fraction(v).denominator == 1:
        return str(int(v))
    raise NoClause('text form')


def _round(x, d, mode):
    q = Fraction(10) ** d
    y = abs(x) * q
    f = y.numerator // y.denominator
    rem = y - f
    if mode == 'half' and rem * 2 >= 1:
        f += 1
    elif mode == 'up' and rem > 0:
        f += 1
    return (f / q) * (1 if x >= 0 else -1)


def _truthy(v):
    if isinstance(v, bool):
        return v
    if isinstance(v, (int, Fraction)):
        return v != 0
    raise NoClause('condition')


def _scalars(e_args):
    out = []
    for a in e_args:
        if a is None:
            raise NoClause('empty argument')
        if a[0] == 'range':
            for row in _area(a):
                out.extend(v for v in row if isinstance(v, (int, float)) and not isinstance(v, bool))
        else:
            v = ev(a)
            if isinstance(v, bool) or not isinstance(v, (int, Fraction)):
                raise NoClause('non-numeric scalar in aggregate')
            out.append(v)
    return out


def _int(v):
    x = _num(v)
    if isinstance(v, bool) or x.denominator != 1:
        raise NoClause('integer expected')
    return int(x)


def ev(e):
    k = e[0]
    if k == 'num':
        return Fraction(e[1])
    if k == 'str' and re.search(r'(?<!~)[?*]', e[1]):
        raise NoClause('text with a wild card outside a criterion (C12/C07)')
    if k in ('str', 'bool'):
        return e[1]
    if k == 'ref':
        v = _cellval(*e[1])
        if v is None or isinstance(v, datetime.datetime):
            raise NoClause('blank or date cell')
        return v
    if k == 'par':
        return ev(e[1])
    if k == 'un':
        v = ev(e[2])
        if isinstance(v, str):
            raise NoClause('sign of text')
        return _num(v) if e[1] == '+' else -_num(v)
    if k == 'pct':
        v = ev(e[1])
        if isinstance(v, str):
            raise NoClause('percent of text')
        return _num(v) / 100
    if k == 'bin':
        op = e[1]
        if op == '&':
            return _text_operand(e[2], ev(e[2])) + _text_operand(e[3], ev(e[3]))
        a, b = ev(e[2]), ev(e[3])
        if op in ARITH:
            if isinstance(a, str) or isinstance(b, str):
                raise NoClause('arithmetic on text')
            a, b = _num(a), _num(b)
            if op == '/':
                if b == 0:
                    raise NoClause('division by zero')
                return a / b
            return a + b if op == '+' else a - b if op == '-' else a * b
        if isinstance(a, str) and isinstance(b, str):
            if a != b and a.casefold() == b.casefold():
                raise NoClause('case')
            x, y = a.casefold(), b.casefold()
        elif isinstance(a, (bool, str)) or isinstance(b, (bool, str)):
            raise NoClause('mixed comparison')
        else:
            x, y = _num(a), _num(b)
        return {'=': x == y, '<>': x != y, '<': x < y, '>': x > y, '<=': x <= y, '>=': x >= y}[op]
    if k == 'call':
        name, args = e[1], e[2]
        canon = CANON.get(unparse(e))
        if canon is not None:
            return canon[0]() if callable(canon[0]) else canon[0]
        if any(a is None for a in args):
            if name in ('ROUNDUP', 'ROUNDDOWN') and len(args) == 2 and args[0] is not None:
                return _round(_num(ev(args[0])), 0, 'up' if name == 'ROUNDUP' else 'down')
            raise NoClause('empty argument')
        if name == 'SUM':
            return sum(_scalars(args), Fraction(0))
        if name in ('MIN', 'MAX'):
            xs = _scalars(args)
            if not xs:
                raise NoClause('empty')
            return min(xs) if name == 'MIN' else max(xs)
        if name == 'AVERAGE':
            xs = _scalars(args)
            if not xs:
                raise NoClause('empty')
            return sum(xs, Fraction(0)) / len(xs)
        if name == 'COUNT':
            return len(_scalars(args))
        if name == 'IF':
            c = _truthy(ev(args[0]))
            if c:
                return ev(args[1])
            return ev(args[2]) if len(args) == 3 else False
        if name in ('AND', 'OR'):
            vs = [_truthy(ev(a)) for a in args]
            return all(vs) if name == 'AND' else any(vs)
        if name in ('ROUND', 'ROUNDUP', 'ROUNDDOWN'):
            d = _int(ev(args[1])) if len(args) == 2 else 0
            v = ev(args[0])
            if isinstance(v, (str, bool)):
                raise NoClause('round of non-number')
            return _round(_num(v), d, {'ROUND': 'half', 'ROUNDUP': 'up', 'ROUNDDOWN': 'down'}[name])
        if name in ('LEFT', 'RIGHT'):
            t = ev(args[0])
            n = _int(ev(args[1])) if len(args) == 2 else 1
            if not isinstance(t, str) or n < 0:
                raise NoClause('text function domain')
            return t[:n] if name == 'LEFT' else (t[len(t) - n:] if n <= len(t) else t)
        if name == 'MID':
            t, s, n = ev(args[0]), _int(ev(args[1])), _int(ev(args[2]))
            if not isinstance(t, str) or s < 1 or n < 0 or s > len(t):
                raise NoClause('text function domain')
            return t[s - 1:s - 1 + n]
        if name == 'CONCATENATE':
            return ''.join(_text_operand(a, ev(a)) for a in args)
        raise NoClause('function ' + name)
    raise NoClause(k)


def reference(text):
    """('invalid', category) | ('value', v) | ('noclause', why)"""
    try:
        e = rparse(text)
    except RefError as x:
        return ('invalid', x.cat)
    if not precedence_safe(e):
        return ('noclause', 'precedence-sensitive (C01)')
    if e[0] in ('range', 'union'):
        return ('noclause', 'area as a result')
    try:
        return ('value', ev(e))
    except NoClause as x:
        return ('noclause', str(x))
    except RecursionError:
        return ('noclause', 'too deep for the reference')


# ---- canonical calls: every supported function, every argument count the grammar defines, with the value Excel
#      defines on the fixture; every argument influences the value where the function allows it.
def _today():
    return datetime.datetime.combine(datetime.date.today(), datetime.time())


PAIRS = [('A1:A4', '">0"'), ('A1:A4', '">1"'), ('A1:A4', '">2"'), ('A1:A4', '">4"')]


def _pairs(k):
    return [x for i in range(k) for x in PAIRS[i % 4]]


def canonical_args(name, n):
    """(argument texts, expected value | NOVAL) for a call of `name` with n arguments (valid or not)."""
    P2 = [str(2 ** i) for i in range(40)]
    if name == 'ADDRESS':
        a = (['2', '3', '4', 'TRUE', '"T 2"'] + ['1'] * 40)[:n]
        return a, {2: '$C$2', 3: 'C2', 4: 'C2', 5: "'T 2'!C2"}.get(n, NOVAL)
    if name == 'AND':
        return ['A1>0'] * (n - 1) + ['A1>5'] * min(n, 1), False
    if name == 'OR':
        return ['A1>5'] * (n - 1) + ['A1>0'] * min(n, 1), True
    if name == 'AVERAGE':
        return P2[:n], (Fraction(2 ** n - 1, n) if n else NOVAL)
    if name == 'SUM':
        return P2[:n], 2 ** n - 1
    if name == 'COUNT':
        return P2[:n], n
    if name == 'MAX':
        return P2[:n], (2 ** (n - 1) if n else NOVAL)
    if name == 'MIN':
        return P2[:n][::-1], 1
    if name == 'CONCATENATE':
        return ['"%s"' % chr(97 + i % 26) for i in range(n)], ''.join(chr(97 + i % 26) for i in range(n))
    if name in ('AVERAGEIFS', 'SUMIFS'):
        a = (['B1:B4'] + _pairs(20))[:n]
        k = (n - 1) // 2
        val = {'SUMIFS': {1: 240, 2: 224, 3: 192, 4: 128}, 'AVERAGEIFS': {1: 60, 2: Fraction(224, 3), 3: 96, 4: 128}}[name]
        return a, val.get(k, NOVAL)
    if name == 'COUNTIFS':
        return _pairs(20)[:n], {1: 4, 2: 3, 3: 2, 4: 1}.get(n // 2, NOVAL)
    if name == 'IFS':
        k = n // 2
        a = [x for i in range(k - 1) for x in ('A1>%d' % (5 + i), '"n%d"' % i)] + ['A1>0', '"yes"']
        if n % 2:
            a.append('A2>0')
        return a[:n] if n else [], 'yes'
    if name == 'COLUMN':
        return (['C5', 'B1', 'A1'] + ['A1'] * 40)[:n], {0: 26, 1: 3}.get(n, NOVAL)
    if name == 'COUNTBLANK':
        return (['E1:E4', 'F1:F2', 'E1:E2'] + ['E1:E1'] * 40)[:n], 4 + 2 * (n - 1) if n <= 3 else 8 + (n - 3)
    if name in ('DAY', 'MONTH', 'YEAR'):
        return (['D1', '2', '3'] + ['1'] * 40)[:n], {'DAY': 15, 'MONTH': 1, 'YEAR': 2024}[name]
    if name == 'DATE':
        return (['2024', '2', '29'] + ['1'] * 40)[:n], datetime.datetime(2024, 2, 29)
    if name == 'DATEDIF':
        return (['D1', 'D2', '"D"'] + ['1'] * 40)[:n], 46
    if name in ('EDATE', 'EOMONTH'):
        return (['D1', '1'] + ['1'] * 40)[:n], datetime.datetime(2024, 2, 15 if name == 'EDATE' else 29)
    if name == 'IF':
        if n == 2:
            return ['A1>0', '"y"'], 'y'
        return (['A1>5', '"y"', '"n"'] + ['"z"'] * 40)[:n], 'n'
    if name == 'IFERROR':
        return (['A2/A1', '"e"'] + ['"z"'] * 40)[:n], 2
    if name == 'INDEX':
        if n == 2:
            return ['A1:A4', '3'], 4
        if n == 4:
            return ['(A1:A4,B1:B4)', '2', '1', '2'], 32
        return (['A1:B4', '2', '2', '1'] + ['1'] * 40)[:n], 32
    if name in ('LEFT', 'RIGHT'):
        return (['"abcdef"', '2'] + ['1'] * 40)[:n], {1: 'a' if name == 'LEFT' else 'f', 2: 'ab' if name == 'LEFT' else 'ef'}.get(n, NOVAL)
    if name == 'MID':
        return (['"abcdef"', '2', '3'] + ['1'] * 40)[:n], 'bcd'
    if name == 'MATCH':
        if n == 2:
            return ['5', 'A1:A4'], 3
        return (['4', 'A1:A4', '0'] + ['1'] * 40)[:n], 3
    if name == 'NETWORKDAYS':
        return (['D1', 'D2', 'D3:D4'] + ['1'] * 40)[:n], {2: 35, 3: 34}.get(n, NOVAL)
    if name == 'ROUND':
        return (['2.346', '2'] + ['1'] * 40)[:n], Fraction('2.35')
    if name == 'ROUNDUP':
        return (['2.341', '2'] + ['1'] * 40)[:n], {1: 3, 2: Fraction('2.35')}.get(n, NOVAL)
    if name == 'ROUNDDOWN':
        return (['2.349', '2'] + ['1'] * 40)[:n], {1: 2, 2: Fraction('2.34')}.get(n, NOVAL)
    if name == 'SEARCH':
        return (['"c"', '"abcabc"', '4'] + ['1'] * 40)[:n], {2: 3, 3: 6}.get(n, NOVAL)
    if name == 'SUMIF':
        return (['A1:A4', '">1"', 'B1:B4'] + ['1'] * 40)[:n], {2: 14, 3: 224}.get(n, NOVAL)
    if name == 'TEXT':
        return (['12', '"0"'] + ['1'] * 40)[:n], NOVAL            # the format argument is C17's business
    if name == 'TODAY':
        return ['1'] * n, _today
    if name == 'VALUE':
        return (['"12"'] + ['1'] * 40)[:n], 12
    if name == 'VLOOKUP':
        if n == 3:
            return ['5', 'A1:B4', '2'], 64
        return (['4', 'A1:B4', '2', 'FALSE'] + ['1'] * 40)[:n], 64
    if name == 'XMATCH':
        if n == 3:
            return ['4', 'A1:A4', '0'], 3
        if n == 2:
            return ['"ax"', 'C1:C4'], 1
        return (['"ax"', 'C1:C4', '0', '-1'] + ['1'] * 40)[:n], 4
    raise KeyError(name)


class _NoVal:
    def __repr__(self):
        return 'NOVAL'


NOVAL = _NoVal()
CANON = {}
EXTRA_CANON = {'COUNTIFS(C1:C4,"a*",A1:A4,">1")': 2, 'SUMIF(C1:C4,"a?",B1:B4)': 176, 'COUNTIFS(C1:C4,"a*")': 3,
               'SUMIF(C1:C4,"b",B1:B4)': 64, 'COUNTIFS(A1:A4,">1",B1:B4,">32")': 2, 'SUMIF(A1:A4,">1",B1:B4)': 224,
               'VLOOKUP(4,A1:B4,2,FALSE)': 64, 'INDEX((A1:A4,B1:B4),2,1,2)': 32, 'DATE(2024,2,29)': datetime.datetime(2024, 2, 29),
               'YEAR(D1)': 2024, 'COLUMN()': 26, 'SEARCH("c","abcabc")': 3, 'IFERROR(A2/A1,"e")': 2}


def _build_canon():
    for name, ok in SPEC.items():
        for n in range(0, 10):
            if not ok(n):
                continue
            args, val = canonical_args(name, n)
            if val is NOVAL:
                continue
            try:
                key = unparse(rparse('=' + name + '(' + ','.join(args) + ')'))
            except RefError:
                continue
            CANON[key] = (val,)
    for k, v in EXTRA_CANON.items():
        CANON[unparse(rparse('=' + k))] = (v,)


_build_canon()


# ====================================================================================================== observation
def write_book(path, formula, extra=None, at=FORMULA_AT, sheet=0):
    sheets = [{'title': TITLES[0], 'cells': [list(c) for c in FIX_S]}, {'title': TITLES[1], 'cells': [list(c) for c in FIX_T]}]
    sheets[sheet]['cells'].append([at[0], at[1], formula])
    for s, c, r, v in (extra or []):
        sheets[s]['cells'].append([c, r, v])
    lib.write_workbook({'sheets': sheets}, path)


CPU_LIMIT = 20.0      # seconds of CPU for one translation (a normal one takes ~0.01 s)


class _CpuLimit(Exception):
    pass


def _on_alarm(signum, frame):
    raise _CpuLimit()


def limited_translate(path, entry=None, safety=False, limit=None):
    """lib.translate under a CPU-time limit (ITIMER_VIRTUAL: independent of the load of the machine)"""
    old = signal.signal(signal.SIGVTALRM, _on_alarm)
    signal.setitimer(signal.ITIMER_VIRTUAL, limit or CPU_LIMIT)
    try:
        return lib.translate(path, entry=entry, safety=safety)
    except _CpuLimit:
        return codec.Raised('_CpuLimit', 'no outcome within the CPU limit', ())
    finally:
        signal.setitimer(signal.ITIMER_VIRTUAL, 0)
        signal.signal(signal.SIGVTALRM, old)


def classify(raised):
    if raised.cls == '_CpuLimit':
        return ('timeout', f'no outcome within {CPU_LIMIT:.0f} s of CPU time')
    # outcome classes of the property: value / library exception / foreign exception.  E2PyclParserException is what the
    # statement names; the sibling E2PyclCellException (unknown sheet title, row 0) is also a refusal by the library.
    if raised.isa('E2PyclException'):
        return ('reject', raised.cls)
    return ('foreign', raised.cls + ': ' + raised.msg[:80])


def observe_text(text, where=(0, 25, 0)):
    """outcome of a translation text: ('noload', ..) | ('value', v) | ('evalerr', ..)"""
    from excel2pycl import Executor, Cell
    cls = lib.call_catch(lib.load_class_from_text, text)
    if isinstance(cls, codec.Raised):
        return ('noload', cls.cls + ': ' + cls.msg[:80])
    ex = lib.call_catch(lambda: Executor().set_executed_class(class_object=cls))
    if isinstance(ex, codec.Raised):
        return ('noload', ex.cls + ': ' + ex.msg[:80])
    r = lib.call_catch(ex.get_cell, Cell(*where))
    if isinstance(r, codec.Raised):
        return ('evalerr', r.cls + ': ' + r.msg[:80])
    v = r.value
    if isinstance(v, cls.EmptyCell):
        return ('value', None)
    return ('value', v)


_SEQ = 0


def observe(formula, tmpdir, mode='file', safety=False):
    """Outcome of translating a workbook whose S!Z1 holds `formula`:
    ('reject', cls) | ('foreign', ..) | ('noload', ..) | ('evalerr', ..) | ('value', v)"""
    global _SEQ
    _SEQ += 1
    path = os.path.join(tmpdir, 'f%d_%d.xlsx' % (os.getpid(), _SEQ))
    write_book(path, formula)
    t = limited_translate(path, entry=(0, 'Z', '1') if mode == 'entry' else None, safety=safety)
    try:
        os.unlink(path)
    except OSError:
        pass
    if isinstance(t, codec.Raised):
        return classify(t)
    return observe_text(t)


def same_value(ref, got):
    if callable(ref):
        ref = ref()
    if isinstance(ref, bool) or isinstance(got, bool):
        return isinstance(ref, bool) and isinstance(got, bool) and ref == got
    if isinstance(ref, (int, Fraction)):
        if not isinstance(got, (int, float)):
            return False
        try:
            g = Fraction(repr(got)) if isinstance(got, float) else Fraction(got)
        except (ValueError, OverflowError):
            return False
        return abs(g - ref) <= Fraction(1, 10 ** 9) * max(1, abs(ref))
    if isinstance(ref, datetime.datetime):
        if isinstance(got, datetime.datetime):
            return got == ref
        return isinstance(got, datetime.date) and datetime.datetime(got.year, got.month, got.day) == ref
    return type(ref) is type(got) and ref == got


def show(v):
    if isinstance(v, Fraction):
        return str(v.numerator) if v.denominator == 1 else repr(float(v))
    if callable(v):
        return show(v())
    return repr(v)


def text_spans(text):
    """[(start, end)] of the quoted texts (closing quote included; "" is an escaped quote)"""
    spans, i, n = [], 0, len(text)
    while i < n:
        if text[i] == '"':
            j = i + 1
            while j < n:
                if text[j] == '"':
                    if text[j + 1:j + 2] == '"':
                        j += 2
                        continue
                    break
                j += 1
            spans.append((i, min(j, n - 1)))
            i = j + 1
        else:
            i += 1
    return spans


def mask_texts(text):
    out = list(text)
    for a, b in text_spans(text):
        for i in range(a + 1, b):
            out[i] = '_'
    return ''.join(out)


def swallow_feature(text):
    """root-cause tag: a quote, later an un-escaped ? or *, later a quote that is not the partner of the first one"""
    quotes = [i for i, ch in enumerate(text) if ch == '"']
    for i, p in enumerate(quotes):
        for q in quotes[i + 2:]:
            if any(text[w] in '?*' and text[w - 1] != '~' for w in range(p + 1, q)):
                return True
    return False


def root_tag(text):
    """name of a known root cause whose trigger is present in the text (used for the failure key only, never for the verdict)"""
    m = mask_texts(text)
    if re.search(r'%[ \t\n]*["(\d.A-Za-z$\']', m):
        return 'grammar.percent_as_binary_operator'
    if re.search(r"(?<![A-Za-z0-9_$.'])!", m):
        return 'lexer.empty_sheet_prefix'
    for w in re.findall(r'(?<![A-Za-z0-9_.])\$?([A-Z]+)\$?\d+', m):
        if col_num(w) > 16384:
            return 'lexer.column_beyond_XFD'
    if swallow_feature(text):
        return 'lexer.wildcard_after_quoted_text'
    for pre in re.finditer(r"'[^']*'!", text):
        if not re.match(r"\$?[A-Z]+\$?\d*:\$?[A-Z]+", text[pre.end():]) and \
                re.search(r"'[^']*'!\$?[A-Z]+\$?\d*:", text[pre.end():]):
            return 'lexer.quoted_sheet_prefix_span'
    return None


def judge(formula, out, ref=None):
    """None when the contract holds, else (key, what)."""
    ref = ref or reference(formula)
    tag = root_tag(formula)
    kind = out[0]
    if kind == 'timeout':
        return ('C05.no_outcome.cpu_limit', f'{formula[:80]!r} ({ref[0]}) -> {out[1]}; expected a class or E2PyclParserException')
    if ref[0] == 'invalid':
        if kind == 'reject':
            return None
        if kind == 'foreign':
            return ('C05.%s' % (tag or 'malformed.' + ref[1] + '.foreign_exception'),
                    f'{formula!r} is not a formula ({ref[1]}) -> {out[1]}, expected E2PyclParserException')
        m = re.match(r'arity_(\w+)', ref[1])
        return ('C05.%s' % (tag or ('accepts.' + ref[1])),
                f'{formula!r} is not a formula ({ref[1]}) -> accepted ({kind}: {show(out[1]) if kind == "value" else out[1]}), '
                f'expected E2PyclParserException' + (' [argument list outside the grammar]' if m else ''))
    if kind == 'reject':
        return None
    if kind in ('foreign', 'noload'):
        return ('C05.%s' % (tag or 'wellformed.' + kind),
                f'{formula!r} is a formula -> {kind} {out[1]}; expected a loadable class or E2PyclParserException')
    if ref[0] == 'noclause':
        return None
    if kind == 'evalerr' or not same_value(ref[1], out[1]):
        return ('C05.%s' % (tag or 'value.mismatch'),
                f'{formula!r} -> {show(out[1]) if kind == "value" else out[1]}; the complete text denotes {show(ref[1])}')
    return None


# ---- worker side
_TMP = None           # scratch directory of the running check: made by _pool_map with lib.scratch(), inherited by the forked workers


def _tmp():
    assert _TMP is not None and os.path.isdir(_TMP)
    return _TMP


def _w_single(job):
    """job = (formula, mode, safety) -> {'formula', 'ref': kind, 'out': kind, 'fail': None | [key, what]}"""
    formula, mode, safety = job
    ref = reference(formula)
    out = observe(formula, _tmp(), mode, safety)
    bad = judge(formula, out, ref)
    return {'formula': formula, 'mode': mode, 'safety': safety, 'ref': ref[0], 'refinfo': ref[1] if ref[0] != 'value' else show(ref[1]),
            'out': out[0], 'outinfo': show(out[1]) if out[0] == 'value' else out[1], 'fail': list(bad) if bad else None}


def _same_outcome(a, b):
    if a[0] != b[0]:
        return False
    if a[0] == 'value':
        return codec.same(a[1], b[1]) or a[1] == b[1] and type(a[1]) is type(b[1])
    if a[0] == 'reject':
        return True
    return a[1].split(':')[0] == b[1].split(':')[0]


def _w_variants(job):
    """job = (base formula, [variant texts], what) : every variant must have the outcome of the base (clause d)."""
    base, variants, what = job
    d = _tmp()
    ob = observe(base, d)
    res = {'base': base, 'n': 0, 'nontrivial': 0, 'fails': [], 'baseout': ob[0]}
    bad = judge(base, ob)
    if bad:
        res['fails'].append([bad[0], bad[1], {'kind': 'formula', 'formula': base, 'mode': 'file', 'safety': False}])
    for v in variants:
        ov = observe(v, d)
        res['n'] += 1
        if v != base:
            res['nontrivial'] += 1
        if not _same_outcome(ob, ov):
            tag = root_tag(base)
            key = 'C05.%s' % (tag or (what + '.changes_outcome.' + ('accepted_to_' + ov[0] if ob[0] == 'value' else ob[0] + '_to_' + ov[0])))
            res['fails'].append([key, f'{v!r} -> {ov[0]} {show(ov[1]) if ov[0] == "value" else ov[1]}, but {base!r} -> '
                                      f'{ob[0]} {show(ob[1]) if ob[0] == "value" else ob[1]}',
                                 {'kind': 'variant', 'base': base, 'variant': v, 'what': what}])
    return res


def _pool_map(fn, jobs, procs=16, chunk=None):
    global _TMP
    if not jobs:
        return []
    with lib.scratch() as d:
        _TMP = d
        try:
            if len(jobs) < 40:
                return [fn(j) for j in jobs]
            ctx = multiprocessing.get_context('fork')
            with ctx.Pool(procs) as pool:
                return pool.map(fn, jobs, chunksize=chunk or max(1, min(64, len(jobs) // (procs * 4))))
        finally:
            _TMP = None


def _dedupe(fails, limit=25):
    seen, out = set(), []
    def size(f):
        r = f.get('replay') or {}
        c = r.get('case') or {}
        if c.get('n'):
            return c['n'] * 10 + (1 if c.get('tail') or c.get('cut') else 0)
        return len(r.get('formula') or r.get('variant') or '') or len(f['what'])
    for f in sorted(fails, key=lambda f: (f['key'], size(f), f['what'])):
        if f['key'] not in seen:
            seen.add(f['key'])
            out.append(f)
    return out[:limit]


def _collect_single(results):
    fails = []
    for r in results:
        if r['fail']:
            fails.append({'key': r['fail'][0], 'what': r['fail'][1],
                          'replay': {'kind': 'formula', 'formula': r['formula'], 'mode': r['mode'], 'safety': r['safety']}})
    return fails


def _stats(results):
    s = {}
    for r in results:
        k = r['ref'] + '->' + r['out']
        s[k] = s.get(k, 0) + 1
    return s


# ====================================================================================================== check 1: arity
def _embed(call, how):
    return {'bare': '=' + call, 'sum_right': '=1+' + call, 'if_arg': '=IF(1>0,' + call + ',"zz")', 'sum_left': '=' + call + '+1',
            'paren': '=(' + call + ')', 'nested_arg': '=SUM(1,' + call + ')'}[how]


def arity_jobs(tier, rng):
    jobs = []
    for name in sorted(SPEC):
        counts = list(range(0, 8)) + [30, 31]
        if tier == 'thorough':
            counts += [8, 9, 10, 11, 12, 13, 64, 65, 254, 255]
        for n in counts:
            args, _ = canonical_args(name, n)
            if len(args) != n:
                continue
            variants = {','.join(args)}
            if n > 1:
                variants.add(';'.join(args))
                mixed = ''.join(a + (';' if i % 2 else ',') for i, a in enumerate(args))[:-1]
                variants.add(mixed)
            for body in sorted(variants):
                call = name + '(' + body + ')'
                valid = SPEC[name](n)
                hows = ['bare', 'if_arg', 'paren'] if valid else ['bare', 'sum_right', 'if_arg', 'sum_left', 'nested_arg']
                if tier != 'thorough':
                    hows = hows[:2] if valid else hows[:3]
                if n > 13:
                    hows = hows[:2]
                for how in hows:
                    jobs.append((_embed(call, how), 'entry' if (len(jobs) % 5 == 4) else 'file', len(jobs) % 7 == 6))
            # empty arguments: before, between and after (argument count changes, so the contract is (a) or (c))
            if 1 <= n <= 4:
                for pos in range(n + 1):
                    a2 = args[:pos] + [''] + args[pos:]
                    jobs.append(('=' + name + '(' + ','.join(a2) + ')', 'file', False))
    return jobs


def check_arity(tier, rng):
    t0 = time.time()
    jobs = arity_jobs(tier, rng)
    res = _pool_map(_w_single, jobs)
    fails = _collect_single(res)
    st = _stats(res)
    return {'name': 'C05.monitor.function_arity',
            'bound': f'{len(SPEC)} supported functions x argument counts 0..7, 30, 31' + (', 8..13, 64, 65, 254, 255' if tier == 'thorough' else '')
                     + " x separators (all ',', all ';', alternating) x embeddings (bare, 1+f, f+1, IF argument, (f), SUM argument)"
                       ' + one empty argument at every position for 1..4 arguments; whole-file and entry-cell translation, safety check on/off',
            'rule': 'one evaluation = one workbook translated through Parser.get_translation and S!Z1 evaluated; a count outside the '
                    'table SPEC must raise E2PyclParserException, a count inside must give the value Excel defines on the fixture '
                    '(every argument matters for it) or E2PyclParserException; calls with an empty argument, TEXT, are checked for '
                    'the outcome class only.  outcome classes seen: ' + ', '.join(f'{k}:{v}' for k, v in sorted(st.items())),
            'exhaustive': True, 'evaluations': len(res), 'distinct_nontrivial': len({r['formula'] for r in res}),
            'failures': _dedupe(fails), 'samples': [{k: r[k] for k in ('formula', 'ref', 'refinfo', 'out', 'outinfo')} for r in res[:3]],
            'seconds': time.time() - t0}


# ====================================================================================================== check 2: token mutations
BASES = [
    '=1+2', '=A1', '=7', '="x"', '=TRUE', '=A1+B2*4', '=(A1+2)*4', '=2*(A1+B1)', '=8-4-2', '=A1%', '=50%*4', '=-A2', '=2*-4',
    '=A1&"x"', '="a"&"b"&"c"', '=A1<B1', '=(1+2)=4', '=SUM(1,2,4)', '=SUM(A1:A4)', '=SUM(A1:A4,B1:B4,1)', '=MAX(1,2,4)+8',
    '=IF(A1>0,"y","n")', '=IF(A1>5,"y","n")&"z"', '=IF(A1>5,1,IF(A2>1,2,4))', '=ROUND(2.346,2)', '=LEFT("abcdef",2)',
    '=MID("abcdef",2,4)', '=AND(A1>0,B1>8)', '=SUM(1,2)%', "=A1+'T 2'!A1", '=S!A2*4', '=$A$1+A$2+$A4', '=CONCATENATE("a","b","c")',
    '=COUNTIFS(A1:A4,">1",B1:B4,">32")', '=SUMIF(A1:A4,">1",B1:B4)', '=VLOOKUP(4,A1:B4,2,FALSE)', '=INDEX((A1:A4,B1:B4),2,1,2)',
    '=MIN(8,4,2)', '=IFERROR(A2/A1,"e")', '=DATE(2024,2,29)', '=TODAY()', '=COLUMN()', '=YEAR(D1)', '=1.5+2.25', '=1e3+1',
    '=SUM(1,IF(A1>0,2,4),8)', '=((1+2))', '=IF(C1="ax","a,b","c;d")', '=IF(C3="b","it""s","n")', '=SEARCH("c","abcabc")',
    '=COUNTIFS(C1:C4,"a*",A1:A4,">1")', '=SUMIF(C1:C4,"a?",B1:B4)', '=IF(C1="ax",A1*2,"none")', '=IF(C3="b","q?","n")&"!"',
    '=CONCATENATE("a*","b")', "=SUM('T 2'!A1,'T 2'!A1:A2)", '=COUNT(1,2,4)', "=COUNT(A3*'T 2'!A1)+SUM('T 2'!A1:A2)", '="a  b"&" c"', '="p\nq"&"\tr "',
    '=MID("abcdef",2,4e0)', '=LEFT("abcdef",2E0)',      # a whole number written with an exponent where a count is needed
]
APPEND1 = [')', '(', '+', '-', '*', '/', '&', '%', ',', ';', '=', '<', '>', '<>', '<=', '>=', '1', '2.5', '"x"', '""', '"', 'A1', 'B2',
           'A1:B2', 'TRUE', 'SUM', 'IF', 'SUM(1)', '()', '(1)', '%%', '!', ':', '.', "'", '#', '$', 'x', 'e1']
APPEND2 = [')', '(', '+', '-', '*', '&', '%', ',', ';', '=', '1', '"x"', 'A1', 'SUM(1)']


def tok_texts(text):
    """texts of the reference tokens of a well-formed base (with '=' first)"""
    return ['='] + [text[t[2]:t[3]] for t in rlex(text)]


def render(toks, joiner=''):
    return toks[0] + joiner.join(toks[1:])


def mutation_jobs(tier, rng):
    seen, jobs = set(), []

    def add(f, mode='file'):
        if f not in seen and f.startswith('='):
            seen.add(f)
            jobs.append((f, mode, False))
    thorough = tier == 'thorough'
    pair_alpha = APPEND2 if thorough else [')', '+', ',', '%', '1', 'A1']
    spaced = (')', '(', '+', ',', '%', '%%', '=', '1', '"x"', 'A1', 'A1:B2', 'TRUE', 'SUM(1)', '(1)')
    ins_alpha = APPEND1 if thorough else [')', '(', '+', ',', '1', '!']
    for b in BASES:
        add(b)
        add(b, 'entry')
        toks = tok_texts(b)
        # exactly one trailing token (glued and after a blank), then two
        for a in APPEND1:
            add(b + a)
            if thorough or a in spaced:
                add(b + ' ' + a)
        for a1 in pair_alpha:
            for a2 in pair_alpha:
                add(b + a1 + a2)
                if thorough:
                    add(b + ' ' + a1 + ' ' + a2)
        if thorough:
            for a in itertools.product(APPEND2[:6], repeat=3):
                add(b + ''.join(a))
        # delete / duplicate / swap at every position
        for i in range(1, len(toks)):
            add(render(toks[:i] + toks[i + 1:]))
            add(render(toks[:i + 1] + toks[i:]))
            add(render(toks[:i + 1] + toks[i:], ' '))
            if i + 1 < len(toks):
                add(render(toks[:i] + [toks[i + 1], toks[i]] + toks[i + 2:]))
        # truncations: every proper prefix
        for i in range(1, len(toks)):
            add(render(toks[:i]))
        # insert one token at every position
        for i in range(1, len(toks)):
            for a in ins_alpha:
                add(render(toks[:i] + [a] + toks[i:]))
                if thorough:
                    add(render(toks[:i] + [a] + toks[i:], ' '))
    # seeded multi-mutations
    n_random = 20000 if tier == 'thorough' else 1000
    alphabet = APPEND1 + ['3', '4', '"y"', 'B1', 'MAX', 'LEFT', 'AND', 'C1', '0.5']
    for _ in range(n_random):
        toks = tok_texts(rng.choice(BASES))
        for _ in range(rng.choice((1, 2, 2, 3, 4))):
            op = rng.choice('idsr')
            i = rng.randrange(1, len(toks) + 1)
            if op == 'i':
                toks.insert(i, rng.choice(alphabet))
            elif op == 'd' and len(toks) > 2 and i < len(toks):
                del toks[i]
            elif op == 's' and i + 1 < len(toks):
                toks[i], toks[i + 1] = toks[i + 1], toks[i]
            elif op == 'r' and i < len(toks):
                toks[i] = rng.choice(alphabet)
        add(render(toks, rng.choice(('', '', ' '))))
    return jobs


def check_mutations(tier, rng):
    t0 = time.time()
    jobs = mutation_jobs(tier, rng)
    res = _pool_map(_w_single, jobs)
    fails = _collect_single(res)
    st = _stats(res)
    return {'name': 'C05.monitor.token_mutations',
            'bound': f'{len(BASES)} well-formed base formulas (every token kind, {len(SPEC)}-function grammar, nested calls, % and signs, '
                     f'sheet prefixes, texts containing separators and doubled quotes) x [one trailing token from {len(APPEND1)} glued' + (' / ' if tier == 'thorough' else ', 14 of them also ') + 'after a blank; '
                     f'two trailing tokens from {14 if tier == "thorough" else 6}^2' + (', three from 6^3' if tier == 'thorough' else '') +
                     '; every single deletion, duplication, adjacent swap, proper prefix; every single insertion of one of '
                     f'{len(APPEND1) if tier == "thorough" else 6} tokens at every position] + {20000 if tier == "thorough" else 1000} seeded 1..4-step mutations',
            'rule': 'one evaluation = one distinct cell text; the reference lexer/parser reads the COMPLETE text: not a formula -> must raise '
                    'E2PyclParserException; formula -> exception or the value of the complete text (value clause only where the reference '
                    'evaluator defines it and precedence is not involved).  classes: ' + ', '.join(f'{k}:{v}' for k, v in sorted(st.items())),
            'exhaustive': False, 'evaluations': len(res),
            'distinct_nontrivial': sum(1 for r in res if r['ref'] == 'invalid' or r['ref'] == 'value'),
            'failures': _dedupe(fails), 'samples': [{k: r[k] for k in ('formula', 'ref', 'refinfo', 'out', 'outinfo')} for r in res[5:8]],
            'seconds': time.time() - t0}


# ====================================================================================================== check 3: white space
WS_BASES = BASES + ['=1 2', '=1+', '=1+2)', '=(1+2', '=SUM(1,2,)', '=IF(A1>0,1,2,4)', '=1%2', '=A1 B1', '=SUM(1,2)4', '="a" "b"',
                    '="a b"&" c "', '=IF(C1="ax"," y ","n")', '=1<>2', '=A1<=B1', '=-(A1+2)', '=SUM(\'T 2\'!A1:A2)']
WS_KINDS = [' ', '\t', '\n', '  ', ' \n', '\n\n\t ']


def boundaries(text):
    """indices in `text` where white space may be inserted: before every reference token and (not counted as 'between') none else"""
    return [t[2] for t in rlex_lenient(text)]


def rlex_lenient(text):
    """tokens of a possibly malformed text (token positions only); falls back to the longest lexable prefix"""
    try:
        return rlex(text)
    except RefError:
        for cut in range(len(text) - 1, 0, -1):
            try:
                return rlex(text[:cut])
            except RefError:
                continue
        return []


def insert_ws(text, places):
    """places = {index: ws}"""
    out, last = [], 0
    for i in sorted(places):
        out.append(text[last:i])
        out.append(places[i])
        last = i
    out.append(text[last:])
    return ''.join(out)


def ws_jobs(tier, rng):
    jobs = []
    for b in WS_BASES:
        bs = boundaries(b)
        vs = []
        for i in bs:
            for w in WS_KINDS:
                vs.append(insert_ws(b, {i: w}))
        for w in WS_KINDS:
            vs.append(insert_ws(b, {i: w for i in bs}))
        for _ in range(60 if tier == 'thorough' else 3):
            vs.append(insert_ws(b, {i: rng.choice(WS_KINDS) for i in bs if rng.random() < 0.5}))
        # continuation lines starting in column 0 with an operator / operand
        vs.append(insert_ws(b, {i: '\n' for i in bs[1:]}))
        vs = sorted(set(vs))
        for i in range(0, len(vs), 16):
            jobs.append((b, vs[i:i + 16], 'whitespace'))
    return jobs


def check_whitespace(tier, rng):
    t0 = time.time()
    jobs = ws_jobs(tier, rng)
    res = _pool_map(_w_variants, jobs, chunk=1)
    fails = [{'key': k, 'what': w, 'replay': p} for r in res for k, w, p in r['fails']]
    # trailing white space: no invariance clause, but still whole-or-rejected
    tr = _pool_map(_w_single, [(b + w, 'file', False) for b in BASES for w in (' ', '\n', '\t ')])
    fails += _collect_single(tr)
    n = sum(r['n'] for r in res)
    return {'name': 'C05.monitor.whitespace',
            'bound': f'{len(WS_BASES)} formulas ({len(BASES)} well-formed, {len(WS_BASES) - len(BASES)} malformed) x every token boundary '
                     f"(after '=', around operators, brackets, separators, between a function name and its bracket) x {len(WS_KINDS)} "
                     'white-space strings (blank, tab, line break, runs) singly, at all boundaries at once, every token on its own line '
                     '(continuation lines start in column 0 with + - * , a literal, a cell, a bracket), seeded subsets; plus trailing white space',
            'rule': 'one evaluation = one variant translated and evaluated; its outcome (E2PyclParserException, or the value) must equal the '
                    'outcome of the compact text; white space inside quoted texts is data and must survive.  Trailing white space has no '
                    'invariance clause (not between tokens): checked for whole-or-rejected only',
            'exhaustive': False, 'evaluations': n + len(tr), 'distinct_nontrivial': sum(r['nontrivial'] for r in res),
            'failures': _dedupe(fails), 'samples': [{'base': r['base'], 'variants': r['n'], 'base_outcome': r['baseout']} for r in res[:3]],
            'seconds': time.time() - t0}


# ====================================================================================================== check 4: separators
SEP_BASES = [
    '=SUM(1,2,4)', '=SUM(1,2,4,8,16,32,64)', '=IF(A1>0,"y","n")', '=IF(A1>5,"a,b","c;d")', '=IF(A1>5,1,IF(A2>1,2,4))',
    '=SUM(1,IF(A1>0,2,4),MAX(8,16),MIN(64,32))', '=ROUND(2.346,2)', '=MID("a,b;c,d",2,5)', '=CONCATENATE("a",";",",","b")',
    '=COUNTIFS(A1:A4,">1",B1:B4,">32")', '=SUMIFS(B1:B4,A1:A4,">1",A1:A4,"<8")', '=AVERAGEIFS(B1:B4,A1:A4,">1")',
    '=SUMIF(A1:A4,">1",B1:B4)', '=VLOOKUP(4,A1:B4,2,FALSE)', '=INDEX((A1:A4,B1:B4),2,1,2)', '=INDEX(A1:B4,2,2)', '=MATCH(4,A1:A4,0)',
    '=XMATCH("ax",C1:C4,0,-1)', '=DATE(2024,2,29)', '=DATEDIF(D1,D2,"D")', '=EDATE(D1,1)', '=NETWORKDAYS(D1,D2,D3:D4)',
    '=ADDRESS(2,3,4,TRUE,"T 2")', '=AND(A1>0,B1>8,A2>1)', '=OR(A1>5,B1>80,A2>1)', '=IFS(A1>5,"a",A1>0,"b")', '=LEFT("abcdef",2)',
    '=SEARCH("c","abcabc",4)', '=COUNT(1,2,A1:A4)', '=COUNTBLANK(E1:E4,F1:F2)', '=IFERROR(A2/A1,"e")', '=MAX(1,2,4)+MIN(8,16)',
    '=TEXT(12,"0")', '=ROUNDUP(2.341,2)', '=ROUNDDOWN(2.349,2)', '=AVERAGE(1,2,4,8)', '=SUM(1,2,4', '=SUM(1,2,,4)', '=IF(A1>0,1,2,4)',
    '=1,2', '=SUM(1,2),4',
]


def sep_positions(text):
    return [t[2] for t in rlex_lenient(text) if t[0] == 'sep']


def sep_jobs(tier, rng):
    jobs = []
    for b in SEP_BASES:
        pos = sep_positions(b)
        k = len(pos)
        if k <= (10 if tier == 'thorough' else 7):
            combos = list(itertools.product(',;', repeat=k))
        else:
            combos = [tuple(rng.choice(',;') for _ in range(k)) for _ in range(64)] + [(',',) * k, (';',) * k]
        vs = []
        for c in combos:
            s = list(b)
            for p, ch in zip(pos, c):
                s[p] = ch
            vs.append(''.join(s))
        base = list(b)
        for p in pos:
            base[p] = ','
        vs = sorted(set(vs))
        for i in range(0, len(vs), 12):
            jobs.append((''.join(base), vs[i:i + 12], 'separator'))
    return jobs


def check_separators(tier, rng):
    t0 = time.time()
    jobs = sep_jobs(tier, rng)
    res = _pool_map(_w_variants, jobs, chunk=1)
    fails = [{'key': k, 'what': w, 'replay': p} for r in res for k, w, p in r['fails']]
    return {'name': 'C05.monitor.separators',
            'bound': f"{len(SEP_BASES)} formulas (every function that takes 2+ arguments, nested calls, unions, texts containing ',' and ';', "
                     "5 malformed) x every assignment of ',' / ';' to the argument separators (exhaustive up to "
                     f"{10 if tier == 'thorough' else 7} separators, 64 seeded assignments beyond; the longest base has 7)",
            'rule': "one evaluation = one assignment translated and evaluated; outcome must equal the all-',' text (and the reference value); "
                    'separator characters inside quoted texts are data',
            'exhaustive': True, 'evaluations': sum(r['n'] for r in res), 'distinct_nontrivial': sum(r['nontrivial'] for r in res),
            'failures': _dedupe(fails), 'samples': [{'base': r['base'], 'variants': r['n'], 'base_outcome': r['baseout']} for r in res[:3]],
            'seconds': time.time() - t0}


# ====================================================================================================== check 5: contexts
DEEP_LIMIT = 5.0    # nest 3 / brackets 8 need ~0.3 s, nest 5 ~30 s, brackets 16 ~70 s: the sizes used stay clear of the limit
MALFORMED = ['=1 2', '=1+', '=1+2)', '=(1+2', '=SUM(1,2) 4', '=A1 B1', '=IF(A1>0,1,2,4)', '=1,', '=1%2', '=SUM(1,2)+', '="a" "b"',
             '=DAY(D1,2)', '=TODAY(1)', '=1**2']


def _ctx_case(case):
    """case = dict(kind=..., ...) -> (ok, text)"""
    from excel2pycl import Parser, Cell
    kind = case['kind']
    bad, good = case.get('bad'), case.get('good', '=1+2+4')
    with lib.scratch() as d:
        path = os.path.join(d, 'wb.xlsx')
        if kind == 'location':
            # the malformed text somewhere else than Z1: far row / far column / other sheet, whole-file translation
            sheet, col, row = case['at']
            write_book(path, good, extra=[[sheet, col, row, bad]])
            t = lib.translate(path, safety=case.get('safety', False))
            ok = isinstance(t, codec.Raised) and t.isa('E2PyclParserException')
            return ok, f'{bad!r} in {TITLES[sheet]}!{col}{row}, whole file -> {t if isinstance(t, codec.Raised) else "translated"}; expected E2PyclParserException'
        if kind == 'reach':
            # entry cell is well-formed and reads the malformed cell (directly / through an area / across sheets)
            sheet, col, row = case['at']
            write_book(path, case['reader'], extra=[[sheet, col, row, bad]])
            t = lib.translate(path, entry=(0, 'Z', '1'))
            ok = isinstance(t, codec.Raised) and t.isa('E2PyclParserException')
            return ok, f'entry S!Z1 {case["reader"]!r} reads {TITLES[sheet]}!{col}{row} = {bad!r} -> ' \
                       f'{t if isinstance(t, codec.Raised) else "translated"}; expected E2PyclParserException'
        if kind == 'reuse':
            # one Parser object: good book, malformed book (twice), other good book
            p2, p3 = os.path.join(d, 'bad.xlsx'), os.path.join(d, 'good2.xlsx')
            write_book(path, good)
            write_book(p2, bad)
            write_book(p3, '=1+2+4+8')
            p = Parser().disable_safety_check()
            seq = []
            for pth in case['order']:
                p.set_excel_file_path({'g': path, 'b': p2, 'h': p3}[pth])
                if case.get('entry'):
                    p.set_entrypoint_cell(Cell(0, 'Z', '1'))
                t = lib.call_catch(p.get_translation)
                if case.get('twice'):
                    t = lib.call_catch(p.get_translation)
                if isinstance(t, codec.Raised):
                    seq.append('reject' if t.isa('E2PyclParserException') else 'foreign:' + t.cls)
                else:
                    o = observe_text(t)
                    seq.append(show(o[1]) if o[0] == 'value' else o[0])
            exp = [{'g': '7', 'b': 'reject', 'h': '15'}[x] for x in case['order']]
            return seq == exp, f'one Parser, books {case["order"]} (b = {bad!r}) -> {seq}; expected {exp}'
        if kind == 'twosheets':
            # the same well-formed text on two sheets and the malformed variant next to it
            write_book(path, good, extra=[[1, 'Z', 1, good], [1, 'Y', 1, bad]])
            t = lib.translate(path)
            ok = isinstance(t, codec.Raised) and t.isa('E2PyclParserException')
            t2 = None
            if ok:
                write_book(path, good, extra=[[1, 'Z', 1, good]])
                t2 = lib.translate(path)
                ok = not isinstance(t2, codec.Raised) and observe_text(t2, (1, 25, 0))[1] == 7 and observe_text(t2)[1] == 7
            return ok, f'{good!r} on both sheets, {bad!r} in T 2!Y1 -> {t if isinstance(t, codec.Raised) else "translated"}; without it -> ' \
                       f'{"values 7/7" if ok else t2 if isinstance(t2, codec.Raised) else "wrong values"}'
        if kind == 'array':
            from openpyxl import Workbook
            from openpyxl.worksheet.formula import ArrayFormula
            wb = Workbook()
            ws = wb.active
            ws.title = 'S'
            ws['A1'] = 1
            ws['A2'] = 2
            ws['Z1'] = ArrayFormula('Z1', case['text'])
            wb.save(path)
            t = lib.translate(path)
            ref = reference(case['text'].strip())
            if isinstance(t, codec.Raised):
                out = classify(t)
            else:
                out = observe_text(t)
            b = judge(case['text'].strip(), out, ref)
            return b is None, f'array formula {case["text"]!r} -> {out[0]} {show(out[1]) if out[0] == "value" else out[1]}; reference {ref[0]} ' \
                              f'{show(ref[1]) if ref[0] == "value" else ref[1]}'
        if kind == 'long':
            n = case['n']
            f = '=' + '+'.join(['1'] * n) + case.get('tail', '')
            write_book(path, f)
            t = limited_translate(path, entry=(0, 'Z', '1') if case.get('entry') else None)
            out = classify(t) if isinstance(t, codec.Raised) else observe_text(t)
            exp = 'reject' if case.get('tail') else n
            ok = (out[0] == 'reject') if case.get('tail') else (out[0] == 'reject' or (out[0] == 'value' and out[1] == n))
            return ok, f'=1+1+...+1 ({n} terms, {len(f)} characters){" + " + repr(case["tail"]) if case.get("tail") else ""} -> {out[0]} ' \
                       f'{show(out[1]) if out[0] == "value" else out[1]}; expected {exp}' + ('' if case.get('tail') else ' or E2PyclParserException')
        if kind in ('nest', 'parens', 'longtext'):
            n = case['n']
            if kind == 'nest':
                f = '1'
                for _ in range(n):
                    f = 'SUM(1,' + f + ')'
                f, exp = '=' + f, n + 1
            elif kind == 'parens':
                f, exp = '=' + '(' * n + '1+2' + ')' * n, 3
            else:
                f, exp = '="' + 'a' * n + '"&"b"', 'a' * n + 'b'
            f += case.get('tail', '')
            if case.get('cut'):
                f = f[:-case['cut']]
            write_book(path, f)
            t = limited_translate(path, entry=(0, 'Z', '1') if case.get('entry') else None, limit=DEEP_LIMIT)
            out = classify(t) if isinstance(t, codec.Raised) else observe_text(t)
            if out[0] == 'timeout':
                out = ('timeout', f'no outcome within {DEEP_LIMIT:.0f} s of CPU time')
            malformed = bool(case.get('tail') or case.get('cut'))
            ok = out[0] == 'reject' or (not malformed and out[0] == 'value' and out[1] == exp)
            return ok, f'{f[:40]!r}...{f[-12:]!r} ({kind} {n}, {len(f)} characters' + (', malformed' if malformed else '') + f') -> {out[0]} ' \
                       f'{show(out[1])[:60] if out[0] == "value" else out[1]}; expected ' + ('E2PyclParserException' if malformed else f'{show(exp)[:20]} or E2PyclParserException')
    return True, 'unknown case'


def _w_ctx(case):
    r = lib.call_catch(_ctx_case, case)
    if isinstance(r, codec.Raised):
        return {'case': case, 'ok': False, 'text': f'monitor error {r}'}
    return {'case': case, 'ok': r[0], 'text': r[1]}


def ctx_cases(tier):
    cases = []
    locs = [(0, 'Z', 2), (0, 'A', 150), (0, 'B', 1001), (0, 'AAA', 1), (0, 'AB', 101), (1, 'A', 3), (1, 'AA', 120)]
    if tier == 'thorough':
        locs += [(0, 'XFD', 2), (1, 'C', 5000), (0, 'ZZ', 27)]
    for bad in MALFORMED if tier == 'thorough' else MALFORMED[:8]:
        for at in locs:
            cases.append({'kind': 'location', 'bad': bad, 'at': list(at), 'safety': len(cases) % 3 == 0, 'key': 'C05.context.location'})
    readers = [((0, 'Y', 1), '=Y1+1'), ((0, 'Y', 1), '=SUM(X1:Y1)'), ((0, 'Y', 3), '=SUM(Y1:Y4)'), ((1, 'C', 2), "='T 2'!C2+1"),
               ((1, 'C', 2), "=SUM('T 2'!C1:C2)"), ((0, 'Y', 120), '=IF(A1>0,Y120,0)'), ((0, 'Y', 1), '=IF(A1>5,Y1,0)'),
               ((0, 'Y', 2), '=VLOOKUP(4,X1:Y4,2,FALSE)'), ((0, 'Y', 2), '=COUNTIFS(Y1:Y4,">1")'), ((0, 'Y', 1), '=SUM(Y:Y)')]
    for bad in MALFORMED[:6] if tier == 'thorough' else MALFORMED[:3]:
        for at, reader in readers:
            cases.append({'kind': 'reach', 'bad': bad, 'at': list(at), 'reader': reader, 'key': 'C05.context.reachable_malformed_cell'})
    for bad in MALFORMED[:5]:
        for order in ('gb', 'gbb', 'bg', 'gbh', 'bgbh', 'hbg'):
            for entry in (False, True):
                for twice in (False, True):
                    cases.append({'kind': 'reuse', 'bad': bad, 'order': order, 'entry': entry, 'twice': twice, 'key': 'C05.context.parser_reuse'})
    for bad in MALFORMED[:6]:
        cases.append({'kind': 'twosheets', 'bad': bad, 'key': 'C05.context.two_sheets'})
    for text in ['=SUM(A1:A2)', '=SUM(A1:A2) ', ' =SUM(A1:A2)', '=SUM(A1:A2) 4', '=SUM(A1:A2))', '=SUM(A1:A2)+', '=A1+A2\n', '=1 2']:
        cases.append({'kind': 'array', 'text': text, 'key': 'C05.context.array_formula'})
    for n in (20, 60, 150, 300, 500, 950, 990, 1000) + ((2500, 4000) if tier == 'thorough' else ()):
        cases.append({'kind': 'long', 'n': n, 'key': 'C05.long_formula'})
        cases.append({'kind': 'long', 'n': n, 'tail': ')', 'key': 'C05.long_formula'})
        cases.append({'kind': 'long', 'n': n, 'tail': ' 1', 'entry': True, 'key': 'C05.long_formula'})
    deep = (('nest', (1, 2, 3, 5, 6) + ((8, 64) if tier == 'thorough' else ())),
            ('parens', (1, 2, 4, 8, 16) + ((20, 64) if tier == 'thorough' else ())), ('longtext', (10, 51, 300, 5000)))
    for kind, ns in deep:
        for n in ns:
            cases.append({'kind': kind, 'n': n, 'key': 'C05.deep_formula.' + kind})
            cases.append({'kind': kind, 'n': n, 'tail': ')', 'entry': True, 'key': 'C05.deep_formula.' + kind})
            if n <= 4 or kind == 'longtext':
                cases.append({'kind': kind, 'n': n, 'tail': ' 1', 'key': 'C05.deep_formula.' + kind})
                cases.append({'kind': kind, 'n': n, 'cut': 1, 'key': 'C05.deep_formula.' + kind})
    return cases


def check_contexts(tier, rng):
    t0 = time.time()
    cases = ctx_cases(tier)
    cases.sort(key=lambda c: (c['kind'] not in ('nest', 'parens'), -c.get('n', 0)))      # the slow ones first
    res = _pool_map(_w_ctx, cases, chunk=1)
    fails = [{'key': r['case']['key'], 'what': r['text'], 'replay': {'kind': 'ctx', 'case': r['case']}} for r in res if not r['ok']]
    return {'name': 'C05.monitor.contexts',
            'bound': 'malformed texts placed in far rows (101, 150, 1001), far columns (AB, AAA' + (', XFD, ZZ' if tier == 'thorough' else '')
                     + '), the second sheet; read from a well-formed entry cell directly / through areas / whole columns / criteria ranges / '
                       'the untaken IF branch / another sheet; one Parser object re-used over good, malformed, good workbooks (with and '
                       'without entry cell, get_translation called once or twice); same text on two sheets; array-formula cells; chains '
                       '=1+1+...+1 of 20..' + ('4000' if tier == 'thorough' else '1000') + ' terms, SUM nested 1, 2, 3, 5, 6 deep, brackets '
                       'nested 1, 2, 4, 8, 16 deep' + (' (and 8 / 20 / 64 deep)' if tier == 'thorough' else '') + ' under a CPU limit of 5 s each, text literals of 10..5000 characters, each complete, with one trailing token, and cut by one character',
            'rule': 'one evaluation = one scenario; a malformed text that is translated (whole file, or reachable from the entry cell) must '
                    'raise E2PyclParserException in every place and API order, a well-formed one must keep its value; a re-used Parser '
                    'must not hand out the previous translation after a rejection',
            'exhaustive': True, 'evaluations': len(res), 'distinct_nontrivial': len(res),
            'failures': _dedupe(fails), 'samples': [r['text'] for r in res[:3]], 'seconds': time.time() - t0}


# ====================================================================================================== check 6: generated formulas
def gen_expr(rng, depth=0, calls=0):
    """random well-formed expression text over the fixture whose value every operand influences (mostly)"""
    r = rng.random()
    if calls >= 2 and r >= 0.72:
        r = rng.random() * 0.72
    if depth >= 3 or r < 0.3:
        return rng.choice(['1', '2', '4', '8', '16', '0.5', '2.25', 'A1', 'A2', 'A3', 'B1', 'B4', '$A$4', "'T 2'!A1", 'S!B2', '32', '64', '3', '7'])
    if r < 0.55:
        n = rng.randrange(2, 5)
        return rng.choice('+-*').join(gen_expr(rng, depth + 1) for _ in range(n)) if rng.random() < 0.8 else \
            gen_expr(rng, depth + 1) + rng.choice('+-*') + gen_expr(rng, depth + 1)
    if r < 0.65:
        return '(' + gen_expr(rng, depth + 1) + ')'
    if r < 0.72:
        return rng.choice(['1', '5', 'A1', '50', 'B2']) + '%'
    if r < 0.9:
        f = rng.choice(['SUM', 'MAX', 'MIN', 'SUM', 'AVERAGE', 'COUNT'])
        n = rng.randrange(1, 6)
        args = [gen_expr(rng, depth + 1, calls + 1) if rng.random() < 0.7 else rng.choice(['A1:A4', 'B1:B4', 'A1:B2', 'A2:B4', "'T 2'!A1:A2"]) for _ in range(n)]
        return f + '(' + rng.choice(',;').join(args) + ')'
    if r < 0.96:
        side = lambda: rng.choice(['A1', 'A3', 'B1', '2', '16', '(' + gen_expr(rng, depth + 1, calls + 1) + ')', 'SUM(A1:A4)'])  # noqa: E731
        c = side() + rng.choice(['<', '>', '=', '<>', '<=', '>=']) + side()
        return 'IF(' + c + ',' + gen_expr(rng, depth + 1, calls + 1) + ',' + gen_expr(rng, depth + 1, calls + 1) + ')'
    return 'ROUND(' + gen_expr(rng, depth + 1, calls + 1) + ',' + rng.choice('012') + ')'


def gen_text_expr(rng):
    parts = [rng.choice(['"a"', '"b c"', '"d,e"', '"f;g"', '"(h"', '"i)"', '"+"', '" "', 'C1', 'C3', 'A1', '12', 'LEFT("abcdef",2)',
                         'MID("abcdef",2,3)', 'IF(A1>0,"y","n")', 'CONCATENATE("p","q")', '"it""s"']) for _ in range(rng.randrange(1, 5))]
    return '&'.join(parts)


def gen_jobs(tier, rng):
    n = 20000 if tier == 'thorough' else 1500
    seen, jobs = set(), []
    tails = [')', ' 1', '+', ',', '%%', ' A1', '(', ',1', ')+1', ' "x"', ';', '*', '&', '=', '""']
    while len(jobs) < n:
        f = '=' + (gen_text_expr(rng) if rng.random() < 0.2 else gen_expr(rng))
        for g in (f, f + rng.choice(tails), f[:rng.randrange(2, len(f) + 1)] if rng.random() < 0.3 else f):
            if g not in seen and len(g) > 1:
                seen.add(g)
                jobs.append((g, 'entry' if len(jobs) % 4 == 3 else 'file', False))
    return jobs


def check_generated(tier, rng):
    t0 = time.time()
    jobs = gen_jobs(tier, rng)
    res = _pool_map(_w_single, jobs)
    fails = _collect_single(res)
    st = _stats(res)
    return {'name': 'C05.monitor.generated_formulas',
            'bound': f'{len(jobs)} seeded texts: random well-formed expressions of depth <= 3 over numbers, references (relative, $, S!, '
                     "'T 2'!), areas, + - *, %, brackets, SUM/MAX/MIN/AVERAGE/COUNT/IF/ROUND and text chains with & (texts containing "
                     'separators, brackets, operators, doubled quotes), each also with one trailing token from 15 and as a random proper prefix',
            'rule': 'one evaluation = one distinct text judged by the reference reading of the complete text (value where the evaluator '
                    'defines it, E2PyclParserException where it is not a formula).  classes: ' + ', '.join(f'{k}:{v}' for k, v in sorted(st.items())),
            'exhaustive': False, 'evaluations': len(res),
            'distinct_nontrivial': sum(1 for r in res if r['ref'] in ('invalid', 'value')),
            'failures': _dedupe(fails), 'samples': [{k: r[k] for k in ('formula', 'ref', 'refinfo', 'out', 'outinfo')} for r in res[:3]],
            'seconds': time.time() - t0}


# ====================================================================================================== entry points
def run(tier='quick', seed=0):
    checks = []
    for i, fn in enumerate((check_arity, check_mutations, check_whitespace, check_separators, check_contexts, check_generated)):
        checks.append(fn(tier, random.Random(seed * 1000 + i)))
    return {'checks': checks}


def replay(payload):
    k = payload.get('kind')
    with lib.scratch() as d:
        if k == 'formula':
            f = payload['formula']
            ref = reference(f)
            out = observe(f, d, payload.get('mode', 'file'), payload.get('safety', False))
            bad = judge(f, out, ref)
            return {'fails': bad is not None,
                    'text': f'{f!r}: reference {ref[0]} {show(ref[1]) if ref[0] == "value" else ref[1]}; observed {out[0]} '
                            f'{show(out[1]) if out[0] == "value" else out[1]}' + (f' -> {bad[0]}' if bad else '')}
        if k == 'variant':
            ob, ov = observe(payload['base'], d), observe(payload['variant'], d)
            return {'fails': not _same_outcome(ob, ov),
                    'text': f'{payload["base"]!r} -> {ob[0]} {show(ob[1]) if ob[0] == "value" else ob[1]}; {payload["variant"]!r} -> {ov[0]} '
                            f'{show(ov[1]) if ov[0] == "value" else ov[1]}'}
        if k == 'ctx':
            ok, text = _ctx_case(payload['case'])
            return {'fails': not ok, 'text': text}
    return {'fails': False, 'text': 'nothing to replay'}
