"""K4 bounded monitor for C12 (conditional aggregates select exactly the positions meeting every criterion).

Runs under /venv/bin/python on the real code.  Contract monitored (written from the property statement only):

  SUMIF / SUMIFS / COUNTIFS / AVERAGEIFS include position i exactly when every (range, criterion) pair accepts the
  i-th cell of its range; the result is the sum / count / mean of the aligned target cells; ranges with different
  numbers of cells are an error.  accepts(criterion, cell):
    plain value        equality (numbers exactly, texts case-insensitively, different kinds are unequal)
    "<op>value"        op in = <> > < >= <= ; <> is the negation of = ; order operators compare numbers with numbers,
                       texts with texts, dates with dates and never select a cell of another kind
    wildcard pattern   ? one character, * any run, ~? ~* ~~ literal, the WHOLE cell text must match

Where the statement is silent (a blank cell against 0 / "" / "<5", TRUE against 1, the text "5" against 5, a date
against a number, upper/lower case in patterns ...) the oracle returns BOTH truth values and the formula may produce
the fold of any admissible selection; an exception is never an admissible outcome except for mis-sized ranges.
The oracle never looks at the library."""
import datetime
import itertools
import multiprocessing
import random
import time
from decimal import Decimal, InvalidOperation
from fractions import Fraction

from pv import codec
from pv.nat import lib

DT = datetime.datetime
BLANK = None
NOCLAUSE = ('$noclause',)
OPS = ['=', '<>', '>', '<', '>=', '<=']
OPCLASS = {'=': 'eq', '<>': 'ne', '>': 'ord', '<': 'ord', '>=': 'ord', '<=': 'ord', 'pat': 'pat'}
ORD = {'>': lambda a, b: a > b, '<': lambda a, b: a < b, '>=': lambda a, b: a >= b, '<=': lambda a, b: a <= b}
FUNCS = ['SUMIF', 'SUMIFS', 'COUNTIFS', 'AVERAGEIFS']
LONGTEXT = 'the quick brown fox jumps over the lazy dog and keeps running far away'   # > 50 characters
NPROC = 16


# ------------------------------------------------------------------ small utilities
def col_letters(n):
    s = ''
    while n:
        n, r = divmod(n - 1, 26)
        s = chr(65 + r) + s
    return s


def col_index(s):
    n = 0
    for ch in s:
        n = n * 26 + ord(ch) - 64
    return n


def venc(v):
    if v is BLANK:
        return None
    if isinstance(v, tuple) and v and v[0] == 'dep':
        return {'$dep': [list(v[1]), v[2]]}
    return codec.enc(v)


def vdec(j):
    if j is None:
        return BLANK
    if isinstance(j, dict) and '$dep' in j:
        return ('dep', tuple(j['$dep'][0]), j['$dep'][1])
    return codec.dec(j)


def numeric_text_value(s):
    t = s.strip()
    if not t or any(ch not in '0123456789.+-eE' for ch in t):
        return None
    try:
        return Fraction(Decimal(t))
    except (InvalidOperation, ValueError, ZeroDivisionError):
        return None


def ckind(v):
    if v is BLANK:
        return 'blank'
    if isinstance(v, bool):
        return 'bool'
    if isinstance(v, (int, float)):
        return 'num'
    if isinstance(v, str):
        return 'numtext' if numeric_text_value(v) is not None else 'text'
    if isinstance(v, (datetime.date, datetime.datetime)):
        return 'date'
    return 'other'


def frac(v):
    return Fraction(int(v)) if isinstance(v, bool) else Fraction(v)


def instant(v):
    return v if isinstance(v, DT) else DT(v.year, v.month, v.day)


def serial(v):
    d = instant(v) - DT(1899, 12, 30)
    return Fraction(d.days) + Fraction(d.seconds, 86400)


_DATEWORDS = ('jan', 'feb', 'mar', 'apr', 'may', 'jun', 'jul', 'aug', 'sep', 'oct', 'nov', 'dec',
              'mon', 'tue', 'wed', 'thu', 'fri', 'sat', 'sun')


def datelike(t):
    return any(ch.isdigit() for ch in t) or t.strip()[:3].lower() in _DATEWORDS


# ------------------------------------------------------------------ the spec: accepts(criterion, cell)
def parse_pattern(p):
    """Excel wildcard syntax -> token list, None when the pattern uses an escape the statement does not define."""
    toks, i = [], 0
    while i < len(p):
        ch = p[i]
        if ch == '~':
            if i + 1 < len(p) and p[i + 1] in '?*~':
                toks.append(('lit', p[i + 1]))
                i += 2
                continue
            return None
        toks.append(('any1',) if ch == '?' else ('run',) if ch == '*' else ('lit', ch))
        i += 1
    return toks


def wmatch(toks, text, ci):
    """whole-text match of a token list (dynamic programming, no regular expressions)"""
    if ci:
        text = text.lower()
    cur = {0}
    for t in toks:
        nxt = set()
        for pos in cur:
            if t[0] == 'run':
                nxt.update(range(pos, len(text) + 1))
            elif pos < len(text):
                if t[0] == 'any1' or (t[1].lower() if ci else t[1]) == text[pos]:
                    nxt.add(pos + 1)
        cur = nxt
        if not cur:
            return False
    return len(text) in cur


def pattern_is_wild(toks):
    return any(t[0] != 'lit' for t in toks)


def eq_adm(o, c):
    """admissible truth values of 'cell c equals operand o'"""
    if c is BLANK:
        return eq_adm(o, 0) | eq_adm(o, '') | {False}
    ko, kc = ckind(o), ckind(c)
    if ko == 'num' and kc == 'num':
        return {frac(o) == frac(c)}
    if ko == 'bool' and kc == 'bool':
        return {o == c}
    if {ko, kc} == {'bool', 'num'}:
        return {True, False} if frac(o) == frac(c) else {False}
    text = ('text', 'numtext')
    if ko in text and kc in text:
        r = {o.lower() == c.lower()}
        if ko == kc == 'numtext' and numeric_text_value(o) == numeric_text_value(c):
            r.add(True)
        return r
    if (ko in text) != (kc in text):
        t, x = (o, c) if ko in text else (c, o)
        kx = ckind(x)
        if kx == 'num':
            return {True, False} if numeric_text_value(t) is not None and numeric_text_value(t) == frac(x) else {False}
        if kx == 'bool':
            return {True, False} if t.strip().lower() == ('true' if x else 'false') else {False}
        if kx == 'date':
            return {True, False} if datelike(t) else {False}
        return {True, False}
    if ko == 'date' and kc == 'date':
        return {instant(o) == instant(c)}
    if {ko, kc} == {'date', 'num'}:
        d, n = (o, c) if ko == 'date' else (c, o)
        return {True, False} if serial(d) == frac(n) else {False}
    if {ko, kc} == {'date', 'bool'}:
        return {False}
    return {True, False}


def ord_adm(op, o, c):
    """admissible truth values of 'cell c <op> operand o' for an order operator"""
    f = ORD[op]
    ko = ckind(o)
    if c is BLANK:
        if ko == 'num':
            return {f(Fraction(0), frac(o)), False}
        if ko == 'date':
            return {f(Fraction(0), serial(o)), False}
        return {True, False}
    kc = ckind(c)
    text = ('text', 'numtext')
    if ko == 'num':
        if kc == 'num':
            return {f(frac(c), frac(o))}
        if kc == 'bool':
            return {f(frac(c), frac(o)), False}
        if kc == 'numtext':
            return {f(numeric_text_value(c), frac(o)), False}
        if kc == 'text':
            return {False}
        if kc == 'date':
            return {f(serial(c), frac(o)), False}
    if ko in text:
        if kc in text:
            return {f(c.lower(), o.lower()), f(c, o)}
        return {True, False}
    if ko == 'date':
        if kc == 'date':
            return {f(instant(c), instant(o))}
        if kc in ('num', 'bool'):
            return {f(frac(c), serial(o)), False}
        if kc in text:
            return {True, False} if datelike(c) else {False}
    return {True, False}


def pat_adm(toks, c):
    if c is BLANK:
        return {False, wmatch(toks, '', True), wmatch(toks, '0', True)}
    k = ckind(c)
    if k in ('text', 'numtext'):
        return {wmatch(toks, c, True), wmatch(toks, c, False)}
    if k == 'num':
        forms = {str(c), repr(c)}
        if isinstance(c, float) and c == int(c):
            forms.add(str(int(c)))
        return {False} | {wmatch(toks, s, True) for s in forms}
    if k == 'bool':
        return {False} | {wmatch(toks, s, True) for s in (str(c), str(c).upper(), str(int(c)))}
    return {True, False}


def admissible(crit, o, c):
    """set of admissible truth values of accepts(criterion, cell); None = the statement has no clause"""
    op = crit['op']
    if op == 'pat':
        toks = parse_pattern(crit['val'])
        if toks is None:
            return None
        if not pattern_is_wild(toks):                      # only escapes: the pattern denotes one literal text
            return eq_adm(''.join(t[1] for t in toks), c)
        return pat_adm(toks, c)
    if o is NOCLAUSE or ckind(o) in ('blank', 'other'):
        return None
    if isinstance(o, str):
        if o == '' or any(ch in o for ch in '?*~'):
            return None
        if crit['form'] in ('plain_lit', 'plain_cell', 'concat') and o[:1] in '=<>':
            return None
    if op == '=':
        return eq_adm(o, c)
    if op == '<>':
        return {not b for b in eq_adm(o, c)}
    return ord_adm(op, o, c)


# ------------------------------------------------------------------ grids, ranges, criteria
def mkref(c0, r0, c1=None, r1=None, s=None, absolute=False):
    return {'s': s, 'c0': c0, 'r0': r0, 'c1': c1 if c1 is not None else c0, 'r1': r1 if r1 is not None else r0,
            'abs': absolute}


def ref_cells(ref, home):
    s = home if ref['s'] is None else ref['s']
    return [(s, c, r) for r in range(ref['r0'], ref['r1'] + 1) for c in range(ref['c0'], ref['c1'] + 1)]


def ref_shape(ref):
    return (ref['r1'] - ref['r0'] + 1, ref['c1'] - ref['c0'] + 1)


def title_text(title):
    return title if title.replace('_', 'a').isalnum() else "'" + title + "'"


def render_ref(ref, titles):
    d = '$' if ref['abs'] else ''
    pre = '' if ref['s'] is None else title_text(titles[ref['s']]) + '!'
    if ref.get('bare'):                                          # a one-cell range written as a cell (SUMIF only)
        return f"{pre}{d}{col_letters(ref['c0'])}{d}{ref['r0']}"
    return f"{pre}{d}{col_letters(ref['c0'])}{d}{ref['r0']}:{d}{col_letters(ref['c1'])}{d}{ref['r1']}"


def render_cellref(pos, titles):
    s, c, r = pos
    pre = '' if s is None else title_text(titles[s]) + '!'
    return f'{pre}{col_letters(c)}{r}'


def lit(form, op, val, spell=None):
    return {'form': form, 'op': op, 'src': 'lit', 'val': val, 'spell': spell}


def fromcell(form, op, pos, src='cell', plus=0, prefix='', sp=False):
    return {'form': form, 'op': op, 'src': src, 'ref': list(pos), 'plus': plus, 'prefix': prefix, 'sp': sp}


def render_crit(crit, titles):
    op, src, form = crit['op'], crit['src'], crit['form']
    if src == 'lit':
        v = crit['val']
        if op == 'pat':
            return '"' + v + '"'
        if form == 'plain_lit':
            if isinstance(v, bool):
                return 'TRUE' if v else 'FALSE'
            if isinstance(v, str):
                return '"' + v + '"'
            return crit.get('spell') or repr(v)
        body = v if isinstance(v, str) else (crit.get('spell') or repr(v))
        return '"' + op + body + '"'
    ref = render_cellref((crit['ref'][0], crit['ref'][1], crit['ref'][2]), titles)
    if src == 'expr':
        ref = f"{ref}+{crit['plus']}"
    amp = ' & ' if crit.get('sp') else '&'
    if src == 'concat':
        return '"' + crit['prefix'] + '"' + amp + ref
    if form.startswith('plain'):
        return ref
    return '"' + op + '"' + amp + ref


def render_formula(spec, titles):
    sep = spec.get('sep', ',')
    pad = ' ' if spec.get('sp') else ''
    parts = []
    pairs = [(render_ref(r, titles), render_crit(c, titles)) for r, c in spec['pairs']]
    if spec['func'] == 'SUMIF':
        parts = [pairs[0][0], pairs[0][1]] + ([render_ref(spec['target'], titles)] if spec['target'] else [])
    else:
        if spec['func'] != 'COUNTIFS':
            parts.append(render_ref(spec['target'], titles))
        for a, b in pairs:
            parts += [a, b]
    return '=' + spec['func'] + '(' + pad + (pad + sep + pad).join(parts) + pad + ')'


def cell_value(grid, pos, depth=0):
    v = grid.get(tuple(pos), BLANK)
    if isinstance(v, tuple) and v and v[0] == 'dep':
        if depth > 5:
            return NOCLAUSE
        b = cell_value(grid, v[1], depth + 1)
        return b + v[2] if ckind(b) == 'num' else NOCLAUSE
    return v


def operand_of(crit, grid, home):
    if crit['src'] == 'lit':
        return crit['val']
    s, c, r = crit['ref']
    v = cell_value(grid, (home if s is None else s, c, r))
    if v is BLANK or v is NOCLAUSE:
        return NOCLAUSE
    if crit['src'] == 'cell':
        return v
    if crit['src'] == 'expr':
        return v + crit['plus'] if ckind(v) == 'num' else NOCLAUSE
    if crit['src'] == 'concat':
        return crit['prefix'] + v if isinstance(v, str) else NOCLAUSE
    return NOCLAUSE


# ------------------------------------------------------------------ the spec: select, then fold
def expected_of(spec, grid):
    """-> ('vals', {Fraction}) | ('nonnum',) | ('error',) | None (no clause), plus the determined selection"""
    home = spec['home']
    func = spec['func']
    ranges = [ref_cells(r, home) for r, _ in spec['pairs']]
    if func == 'COUNTIFS':
        target = None
        sizes = [len(x) for x in ranges]
        shapes = [ref_shape(r) for r, _ in spec['pairs']]
    elif func == 'SUMIF':
        target = ref_cells(spec['target'], home) if spec['target'] else ranges[0]
        if spec['target'] and ref_shape(spec['target']) != ref_shape(spec['pairs'][0][0]):
            return None, None                      # Excel re-sizes SUMIF's target; the statement says error: no clause
        sizes, shapes = [len(ranges[0])], [ref_shape(spec['pairs'][0][0])]
    else:
        target = ref_cells(spec['target'], home)
        sizes = [len(target)] + [len(x) for x in ranges]
        shapes = [ref_shape(spec['target'])] + [ref_shape(r) for r, _ in spec['pairs']]
    if len(set(sizes)) > 1:
        return ('error',), None
    if len(set(shapes)) > 1:
        return None, None                          # same number of cells, different geometry: no clause
    n = sizes[0]
    can_t, can_f = [True] * n, [False] * n
    for (ref, crit), cells in zip(spec['pairs'], ranges):
        o = operand_of(crit, grid, home)
        for i, pos in enumerate(cells):
            a = admissible(crit, o, cell_value(grid, pos))
            if a is None:
                return None, None
            can_t[i] = can_t[i] and (True in a)
            can_f[i] = can_f[i] or (False in a)
    fixed = [i for i in range(n) if can_t[i] and not can_f[i]]
    free = [i for i in range(n) if can_t[i] and can_f[i]]
    if len(free) > 6:
        return None, None
    tv = [cell_value(grid, p) for p in target] if target is not None else None
    results = set()
    for k in range(len(free) + 1):
        for extra in itertools.combinations(free, k):
            sel = fixed + list(extra)
            if func == 'COUNTIFS':
                results.add(Fraction(len(sel)))
                continue
            vals = []
            for i in sel:
                v = tv[i]
                if v is BLANK and func != 'AVERAGEIFS':
                    vals.append(Fraction(0))
                elif ckind(v) == 'num':
                    vals.append(frac(v))
                else:
                    return None, None              # text / logical / date / (for the mean) blank in a selected target cell
            if func == 'AVERAGEIFS':
                if not vals:
                    results.add('nonnum')
                else:
                    results.add(sum(vals) / len(vals))
            else:
                results.add(sum(vals, Fraction(0)))
    if results == {'nonnum'}:
        return ('nonnum',), fixed
    if 'nonnum' in results:
        return None, None
    return ('vals', results), (fixed if not free else None)


def is_library_error(got):
    return isinstance(got, codec.Raised) and (got.isa('ExcelInPythonException') or got.isa('E2PyclException'))


def conforms(got, exp):
    if exp[0] == 'error':
        return is_library_error(got) or (isinstance(got, str) and got.startswith('#'))
    if exp[0] == 'nonnum':
        return is_library_error(got) or (isinstance(got, str) and got.startswith('#'))
    if isinstance(got, bool) or not isinstance(got, (int, float)):
        return False
    try:
        g = Fraction(got)
    except (ValueError, OverflowError):
        return False
    return any(abs(g - e) <= Fraction(1, 10 ** 9) * max(1, abs(e)) for e in exp[1])


def show_exp(exp):
    if exp[0] != 'vals':
        return 'an error value / library exception' if exp[0] == 'error' else 'an error value (nothing is selected)'
    vals = sorted(exp[1])
    return ' or '.join(str(int(v)) if v.denominator == 1 else repr(float(v)) for v in vals[:4]) + (' ...' if len(vals) > 4 else '')


def show_val(v):
    if v is BLANK:
        return 'blank'
    if isinstance(v, DT):
        return v.isoformat()
    return repr(v)


# ------------------------------------------------------------------ failure keys
def operand_kind(crit, o):
    if crit['op'] == 'pat':
        return 'pattern'
    k = ckind(o)
    if k == 'num' and frac(o) < 0 and crit['src'] == 'lit':
        return 'negnum'                                          # a sign inside a literal criterion is a spelling of its own
    return 'text' if k == 'numtext' else k


def outcome_of(got, exp, selected_expected=None):
    if isinstance(got, codec.Raised):
        return 'raises_' + got.cls
    if exp[0] == 'nonnum' and selected_expected is False:
        return 'selected'
    if exp[0] in ('error', 'nonnum'):
        return 'silent_value'
    if selected_expected is True:
        return 'missed'
    if selected_expected is False:
        return 'selected'
    return 'wrong_value'


def pattern_features(p):
    """coarse shape of a pattern: one / several wildcard groups, escapes, characters that are special in other pattern languages"""
    toks = parse_pattern(p) or []
    groups, prev = 0, False
    for t in toks:
        w = t[0] != 'lit'
        groups += w and not prev
        prev = w
    f = ['one_wildcard_group' if groups <= 1 else 'several_wildcard_groups']
    if '~' in p:
        f.append('escape')
    if any(t[0] == 'lit' and t[1] in '.[]' for t in toks):
        f.append('dot_or_bracket')
    return '+'.join(f)


def single_cell_key(spec, grid, got, exp):
    """root-cause key of a one-cell probe: (criterion form, operator class, operand kind, cell kind, outcome)"""
    ref, crit = spec['pairs'][spec.get('probe', 0)]
    home = spec['home']
    c = cell_value(grid, ref_cells(ref, home)[0])
    o = operand_of(crit, grid, home)
    adm = admissible(crit, o, c)
    sel = (True in adm) if adm is not None and len(adm) == 1 else None
    out = outcome_of(got, exp, sel)
    if crit['op'] == 'pat':
        toks = parse_pattern(crit['val'])
        kc = 'text' if isinstance(c, str) else 'not_text'
        if not pattern_is_wild(toks):
            return f"C12.crit.wild_escape_only.{kc}.{out}"
        if out == 'raises_SyntaxError':
            return 'C12.crit.wild.any_pattern.raises_SyntaxError'
        if out.startswith('raises_'):
            return f"C12.crit.wild.{pattern_features(crit['val'])}.{out}"
        if out == 'selected' and isinstance(c, str):
            # name the simplest wrong matcher that explains the acceptance (diagnosis only, the verdict is already made)
            if any(wmatch(toks, c[:k], True) for k in range(len(c))):
                return f"C12.crit.wild.prefix_only_match.{kc}.{out}"
            loose = [('any1',) if t == ('lit', '.') else t for t in toks]
            if loose != toks and any(wmatch(loose, c[:k], True) for k in range(len(c) + 1)):
                return f"C12.crit.wild.dot_matches_any_character.{kc}.{out}"
        return f"C12.crit.wild.{pattern_features(crit['val'])}.{kc}.{out}"
    ok, kc = operand_kind(crit, o), ckind(c)
    if ok == 'text' and kc == 'numtext':
        kc = 'text'
    if OPCLASS[crit['op']] == 'ne' and out == 'missed' and kc != {'negnum': 'num'}.get(ok, ok):
        kc = 'other_kind'                                        # "<>v" must accept every cell of another kind than v: one root cause
    return f"C12.crit.{crit['form']}.{OPCLASS[crit['op']]}.{ok}.{kc}.{out}"


# ------------------------------------------------------------------ running batches on the real pipeline
def _sheet_specs(batch, items):
    sheets = [{'title': sh['title'], 'cells': []} for sh in batch['sheets']]
    for si, sh in enumerate(batch['sheets']):
        for c, r, v in sh['cells']:
            if isinstance(v, dict) and '$dep' in v:
                (ds, dc, dr), k = v['$dep']
                v = f'={col_letters(dc)}{dr}+{k}'
            sheets[si]['cells'].append([c, r, v])
    titles = [sh['title'] for sh in batch['sheets']]
    for it in items:
        s, c, r = it['at']
        sheets[s]['cells'].append([c, r, it.get('formula') or render_formula(it['spec'], titles)])
    return sheets


def _grid_of(batch):
    g = {}
    for si, sh in enumerate(batch['sheets']):
        for c, r, v in sh['cells']:
            g[(si, c if isinstance(c, int) else col_index(c), r)] = vdec(v)
    return g


def _judge(batch, it, grid, got, step, out):
    spec = it['spec']
    exp, fixed = expected_of(spec, grid)
    titles = [sh['title'] for sh in batch['sheets']]
    if exp is None:
        out['skipped'] += 1
        return
    out['evals'] += 1
    n = len(ref_cells(spec['pairs'][0][0], spec['home']))
    if exp[0] == 'error' or (fixed is not None and (0 < len(fixed) < n or n == 1)):
        out['nontrivial'] += 1
    ok = conforms(got, exp)
    if len(out['samples']) < 2 and ok:
        out['samples'].append({'formula': render_formula(spec, titles), 'step': step, 'result': repr(got), 'expected': show_exp(exp)})
    if ok:
        return
    if it.get('keymode') == 'single':
        key = single_cell_key(spec, grid, got, exp)
        ref, crit = spec['pairs'][spec.get('probe', 0)]
        c = cell_value(grid, ref_cells(ref, spec['home'])[0])
        o = operand_of(crit, grid, spec['home'])
        ctx = f"cell={show_val(c)}" + ('' if crit['src'] == 'lit' else f", criterion operand={show_val(o)}")
    else:
        key = it['key'] + '.' + outcome_of(got, exp)
        ctx = it.get('ctx', '')
    if step:
        ctx += f" after override step {step}"
    out['fails'].append({'key': key, 'func': spec['func'] + it.get('variant', ''), 'item': it['id'], 'step': step,
                         'what': f"{render_formula(spec, titles)} [{ctx}] -> {got!r}, expected {show_exp(exp)}"})


def _shape_of(batch, it):
    import re
    text = it.get('formula') or render_formula(it['spec'], [sh['title'] for sh in batch['sheets']])
    return re.sub(r'([A-Z]+)\$?\d+:(\$?[A-Z]+)\$?\d+', r'\1#:\2#', text)


def _values_whole(batch, items, d, tag=[0], singles=True):
    """translate the whole workbook once.  On a translation error find the formulas that cause it so that one bad formula
    does not hide the rest: one representative per formula shape (same text up to the row numbers of its ranges) is
    translated alone, formulas of a failing shape inherit its error, the others are translated again (then bisected)."""
    tag[0] += 1
    p = lib.Pipe({'sheets': _sheet_specs(batch, items)}, d, safety=False, name=f'wb{tag[0]}.xlsx')
    if p.error is None:
        return {it['id']: (p, None) for it in items}
    if len(items) <= 1:
        return {it['id']: (None, p.error) for it in items}
    shapes = {}
    if singles:
        for it in items:
            shapes.setdefault(_shape_of(batch, it), []).append(it)
    if singles and len(shapes) * 4 <= len(items):
        res, rest = {}, []
        for shape, group in shapes.items():
            r = _values_whole(batch, group[:1], d, singles=False)
            err = r[group[0]['id']][1]
            if err is not None:
                res.update({it['id']: (None, err) for it in group})
            else:
                rest += group
        if rest:
            res.update(_values_whole(batch, rest, d, singles=False))
        return res
    h = len(items) // 2
    r = _values_whole(batch, items[:h], d, singles=False)
    r.update(_values_whole(batch, items[h:], d, singles=False))
    return r


def _dec_override(p, v):
    v = vdec(v)
    return p.cls.EmptyCell() if v is BLANK else v


def _eval_batch(batch):
    """-> {'evals', 'nontrivial', 'skipped', 'fails': [...], 'samples': [...]}"""
    from excel2pycl import Cell, Executor
    out = {'evals': 0, 'nontrivial': 0, 'skipped': 0, 'fails': [], 'samples': []}
    items = batch['items']
    mode = batch.get('mode', 'whole')
    titles = [sh['title'] for sh in batch['sheets']]
    base_grid = _grid_of(batch)
    steps = batch.get('steps') or []
    with lib.scratch() as d:
        if mode == 'whole':
            pipes = _values_whole(batch, items, d)
        elif mode == 'entry':
            pipes = {}
            for k, it in enumerate(items):
                s, c, r = it['at']
                p = lib.Pipe({'sheets': _sheet_specs(batch, items)}, d, entry=(titles[s], col_letters(c), str(r)), safety=False,
                             name=f'e{k}.xlsx')
                pipes[it['id']] = (p, p.error)
        else:                                      # 'reuse': ONE Parser object, entry cell moved from item to item
            from excel2pycl import Parser
            import os
            path = os.path.join(d, 'reuse.xlsx')
            lib.write_workbook({'sheets': _sheet_specs(batch, items)}, path)
            parser = Parser().disable_safety_check().set_excel_file_path(path)
            pipes = {}
            for it in items:
                s, c, r = it['at']
                parser.set_entrypoint_cell(Cell(titles[s], col_letters(c), str(r)))
                text = lib.call_catch(parser.get_translation)
                if isinstance(text, codec.Raised):
                    pipes[it['id']] = (None, text)
                    continue

                class _P:
                    pass
                p = _P()
                p.cls = lib.load_class_from_text(text)
                p.executor = Executor().set_executed_class(class_object=p.cls)
                pipes[it['id']] = (p, None)
        seen_exec, broken = set(), {}
        grid = dict(base_grid)
        for step in range(len(steps) + 1):
            if step:
                for s, c, r, v in steps[step - 1]:
                    grid[(s, c, r)] = vdec(v)
            for it in items:
                p, err = pipes[it['id']]
                if err is not None:
                    if step == 0:
                        _judge(batch, it, grid, err, 0, out)
                    continue
                if step:
                    key = (id(p.executor), step)
                    if key not in seen_exec:
                        seen_exec.add(key)
                        r = lib.call_catch(p.executor.set_cells,
                                           [Cell(s, c - 1, r - 1, _dec_override(p, v)) for s, c, r, v in steps[step - 1]])
                        if isinstance(r, codec.Raised):
                            broken[id(p.executor)] = r
                s, c, r = it['at']
                got = broken.get(id(p.executor)) or lib.call_catch(p.executor.get_cell, Cell(s, c - 1, r - 1))
                got = got if isinstance(got, codec.Raised) else got.value
                if isinstance(got, p.cls.EmptyCell):
                    got = 0
                _judge(batch, it, grid, got, step, out)
    return out


def _safe_eval_batch(batch):
    """a crash of the harness or of the library outside the guarded calls is a finding, not the end of the run"""
    try:
        return _eval_batch(batch)
    except BaseException as e:  # noqa
        import traceback
        where = traceback.extract_tb(e.__traceback__)[-1]
        return {'evals': len(batch['items']), 'nontrivial': 0, 'skipped': 0, 'samples': [],
                'fails': [{'key': f'C12.unguarded_exception.{type(e).__name__}', 'func': '', 'item': batch['items'][0]['id'] if batch['items'] else 0,
                           'step': len(batch.get('steps') or []),
                           'what': f'{type(e).__name__}: {str(e)[:200]} at {where.filename}:{where.lineno} while evaluating a batch of '
                                   f"{len(batch['items'])} formulas"}]}


def _place(items, home, c0, rows):
    """formula cells in a compact block right of the data: column c0 onwards, `rows` rows per column"""
    for k, it in enumerate(items):
        it['at'] = [it.get('sheet', home), c0 + k // rows, 1 + k % rows]
        it['id'] = k
    return items


def _chunks(seq, n):
    return [seq[i:i + n] for i in range(0, len(seq), n)]


def _run_batches(batches):
    if not batches:
        return []
    if len(batches) == 1:
        return [_safe_eval_batch(batches[0])]
    ctx = multiprocessing.get_context('fork')
    with ctx.Pool(min(NPROC, len(batches))) as pool:
        return pool.map(_safe_eval_batch, batches, chunksize=1)


def _referenced(batch, it):
    """positions one item reads (ranges, criterion cells and what those depend on)"""
    spec, need = it['spec'], set()
    home = spec['home']
    for ref, crit in spec['pairs']:
        need.update(ref_cells(ref, home))
        if crit['src'] != 'lit':
            s, c, r = crit['ref']
            need.add((home if s is None else s, c, r))
    if spec.get('target'):
        need.update(ref_cells(spec['target'], home))
    grid = _grid_of(batch)
    for _ in range(4):
        for pos in list(need):
            v = grid.get(pos)
            if isinstance(v, tuple) and v and v[0] == 'dep':
                need.add(tuple(v[1]))
    return need


def _minimal_payload(batch, fail):
    """smallest batch that still shows the failure: one formula, only the cells it reads, only the steps needed"""
    it = dict(next(i for i in batch['items'] if i['id'] == fail['item']))
    steps = (batch.get('steps') or [])[:fail['step']]
    need = _referenced(batch, it)
    for st in steps:
        need.update((s, c, r) for s, c, r, _ in st)
    candidates = []
    trimmed = {'sheets': [{'title': sh['title'], 'cells': [x for x in sh['cells']
                                                            if (si, x[0] if isinstance(x[0], int) else col_index(x[0]), x[1]) in need]}
                          for si, sh in enumerate(batch['sheets'])],
               'items': [it], 'mode': batch.get('mode', 'whole'), 'steps': steps}
    candidates.append(trimmed)
    candidates.append({'sheets': batch['sheets'], 'items': [it], 'mode': batch.get('mode', 'whole'), 'steps': steps})
    candidates.append({'sheets': batch['sheets'], 'items': batch['items'], 'mode': batch.get('mode', 'whole'), 'steps': steps,
                       'only': it['id']})
    for cand in candidates:
        r = _safe_eval_batch(cand)
        if any(f['item'] == it['id'] and f['key'] == fail['key'] for f in r['fails']):
            return {'kind': 'batch', 'batch': cand, 'key': fail['key']}
    return {'kind': 'batch', 'batch': candidates[-1], 'key': fail['key']}


def _collect(name, bound, rule, exhaustive, batches, t0, all_funcs=None):
    """run the batches, merge, dedupe failures per key (noting which functions are affected), minimise witnesses"""
    results = _run_batches(batches)
    evals = sum(r['evals'] for r in results)
    nontrivial = sum(r['nontrivial'] for r in results)
    per_key = {}
    for b, r in zip(batches, results):
        for f in r['fails']:
            e = per_key.setdefault(f['key'], {'first': (b, f), 'funcs': set(), 'n': 0})
            e['funcs'].add(f['func'])
            e['n'] += 1
    fails = []
    for key in sorted(per_key):
        e = per_key[key]
        b, f = e['first']
        k = key
        if all_funcs and e['funcs'] != set(all_funcs):
            k = key + '.in_' + '+'.join(sorted(e['funcs']))
        if len(fails) < 25:
            payload = _minimal_payload(b, f)
            payload['key'] = k
            fails.append({'key': k, 'what': f"{f['what']}  ({e['n']} failing evaluations under this key)", 'replay': payload})
        else:
            fails.append({'key': k, 'what': f['what'], 'replay': None})
    samples = [s for r in results for s in r['samples']][:3]
    return {'name': name, 'bound': bound, 'rule': rule, 'exhaustive': exhaustive, 'evaluations': evals,
            'distinct_nontrivial': nontrivial, 'failures': fails[:40], 'samples': samples, 'seconds': time.time() - t0}


# ------------------------------------------------------------------ check 1-3: criterion form x cell kind (one-cell ranges)
MATRIX_VALUES = [5, 7, 3, 4, 0, -3, 2.5, 5.0, 1, 1000, 999.5, -1, True, False,
                 'x', 'X', 'y', 'abc', 'ABC', 'ab', 'b', 'abd', 'яблоко', 'ЯБЛОКО', 'hello world', LONGTEXT, LONGTEXT.upper(),
                 '<>x', '>3', 'mar', 'March', 'a.c', '5', '2.5', '-3',
                 DT(2021, 6, 25), DT(2021, 6, 25, 12, 0), DT(2051, 1, 1), DT(1999, 12, 31), DT(2024, 2, 29), BLANK]
# criterion cells live in column E (5) of the matrix sheet
CRITCELLS = {1: 3, 2: 'x', 3: DT(2021, 6, 25), 4: 2.5, 5: -3, 6: BLANK, 7: 'b', 8: True, 9: 'ABC', 10: 5, 11: 0,
             12: 1000, 13: 'яблоко', 14: DT(2051, 1, 1)}


def _matrix_sheet(values):
    cells = []
    for i, v in enumerate(values):
        if v is not BLANK:
            cells.append([1, i + 1, venc(v)])
        cells.append([2, i + 1, 10 + i])                      # target cell of row i: a distinct non-zero number
    for r, v in CRITCELLS.items():
        if v is not BLANK:
            cells.append([5, r, venc(v)])
    return {'title': 'S', 'cells': cells}


def _probe_specs(crit, row):
    """the five places a criterion can stand in, probing one cell A<row> with target B<row>"""
    a, b = mkref(1, row), mkref(2, row)
    always = lit('op_lit', '>', 0, '0')
    return [('', {'func': 'SUMIF', 'target': b, 'pairs': [[a, crit]], 'home': 0}),
            ('', {'func': 'SUMIFS', 'target': b, 'pairs': [[a, crit]], 'home': 0}),
            ('', {'func': 'COUNTIFS', 'target': None, 'pairs': [[a, crit]], 'home': 0}),
            ('#2', {'func': 'COUNTIFS', 'target': None, 'pairs': [[b, always], [a, crit]], 'home': 0, 'probe': 1}),
            ('', {'func': 'AVERAGEIFS', 'target': b, 'pairs': [[a, crit]], 'home': 0}),
            ('#cell', {'func': 'SUMIF', 'target': dict(b, bare=True), 'pairs': [[dict(a, bare=True), crit]], 'home': 0})]


PROBE_FUNCS = ['SUMIF', 'SUMIFS', 'COUNTIFS', 'COUNTIFS#2', 'AVERAGEIFS', 'SUMIF#cell']


def _matrix_batches(crits, values, variants, per_batch=420):
    sheet = _matrix_sheet(values)
    items = []
    for n, crit in enumerate(crits):
        for row in range(1, len(values) + 1):
            for k, (variant, spec) in enumerate(_probe_specs(crit, row)):
                if k in (variants(n, crit) if callable(variants) else variants):
                    items.append({'spec': spec, 'keymode': 'single', 'variant': variant})
    rows = max(len(values), 30)
    return [{'sheets': [sheet], 'items': _place(ch, 0, 7, rows), 'mode': 'whole'} for ch in _chunks(items, per_batch)]


def plain_criteria():
    cs = [lit('plain_lit', '=', v, s) for v, s in [(5, '5'), (2.5, '2.5'), (0, '0'), (1, '1'), (1000, '1000'), (3, '3'),
                                                   (1000, '1e3'), (999.5, '999.5')]]
    cs += [lit('plain_lit', '=', t) for t in ['x', 'X', 'abc', 'ab', 'яблоко', 'hello world', LONGTEXT, 'mar', 'y', 'a.c', '5']]
    cs += [lit('plain_lit', '=', True), lit('plain_lit', '=', False)]
    cs += [fromcell('plain_cell', '=', (None, 5, r)) for r in (1, 10, 4, 5, 11, 12, 2, 9, 13, 3, 14, 8)]
    cs += [fromcell('plain_expr', '=', (None, 5, 1), 'expr', plus=2), fromcell('plain_expr', '=', (None, 5, 4), 'expr', plus=1)]
    cs += [fromcell('concat', '=', (None, 5, 7), 'concat', prefix='a'), fromcell('concat', '=', (None, 5, 7), 'concat', prefix='a', sp=True)]
    return cs


def operator_literal_criteria():
    cs = []
    for op in OPS:
        for v, s in [(5, '5'), (3, '3'), (0, '0'), (2.5, '2.5'), (1000, '1000'), (1000, '1e3')]:
            cs.append(lit('op_lit', op, v, s))
        for v, s in [(-3, '-3'), (-1, '-1')]:
            cs.append(lit('op_lit', op, v, s))
        for t in ['x', 'abc', 'яблоко']:
            cs.append(lit('op_lit', op, t))
    return cs


def operator_cell_criteria():
    cs = []
    for op in OPS:
        for r in (1, 10, 4, 5, 11, 12):
            cs.append(fromcell('op_cell', op, (None, 5, r)))
        cs.append(fromcell('op_cell', op, (None, 5, 1), sp=True))
        for r in (2, 9, 13):
            cs.append(fromcell('op_cell', op, (None, 5, r)))
        for r in (3, 14):
            cs.append(fromcell('op_cell', op, (None, 5, r)))
        cs.append(fromcell('op_expr', op, (None, 5, 1), 'expr', plus=2))
    return cs


def check_criteria(name, crits, tier, what):
    t0 = time.time()
    if tier == 'thorough':
        variants = (0, 1, 2, 3, 4, 5)
    else:                                          # quick: all six places for every fourth criterion, else the two translator paths
        variants = lambda n, crit: (0, 1, 2, 3, 4, 5) if n % 4 == 0 else (0, 1) if n % 2 == 1 else (2, 4)
    batches = _matrix_batches(crits, MATRIX_VALUES, variants)
    return _collect(
        name,
        f'{len(crits)} criteria ({what}) x {len(MATRIX_VALUES)} cell values (ints, floats, 0, negatives, TRUE/FALSE, texts in both '
        f'cases, Cyrillic, > 50 characters, numeric and date-like texts, dates / date-times up to 2051, blank) x '
        f'{"all 6 places" if tier == "thorough" else "6 places for every fourth criterion, 2 of the 6 for the others"} '
        f'(SUMIF with A5:A5 and with A5, SUMIFS, COUNTIFS first and second pair, AVERAGEIFS), each on a one-cell range with a '
        f'numeric target cell',
        'one evaluation = one formula value compared with the fold of every admissible selection of the single cell; '
        'combinations the statement does not decide admit both outcomes but never an exception; a criterion whose operand '
        'cell is blank has no clause and is skipped', tier == 'thorough', batches, t0,
        all_funcs=PROBE_FUNCS if tier == 'thorough' else None)


# ------------------------------------------------------------------ check 3: wildcard patterns
WILD_ALPHABET = 'aB?*~.['
WILD_TEXTS = ['a', 'B', 'b', 'A', 'aa', 'aB', 'ab', 'Ba', 'a.', '.', '[', 'a[', '?', '*', '~', 'a?', 'a*', '~a', 'aBa', '..',
              'abc', 'a*a', 'aaaa', 'aBaBa', '[a]', 'a.B', 'B*', '?a', 'xa', 'ax', 7, BLANK]


def wildcard_criteria(tier, rng):
    pats = [''.join(p) for n in (1, 2, 3) for p in itertools.product(WILD_ALPHABET, repeat=n)]
    four = [''.join(p) for p in itertools.product(WILD_ALPHABET, repeat=4)]
    pats += four if tier == 'thorough' else rng.sample(four, 150)
    pats += ['a*a*a', '*a*B*', '?????', '????', 'a~*~?~~', '*[*', '*.*', 'a?c', 'a*c', '*c', 'x*', '*x', 'hello*', '*WORLD', 'h?llo world']
    out = []
    for p in pats:
        toks = parse_pattern(p)
        if toks is None:
            continue
        if not pattern_is_wild(toks) and '~' not in p:
            out.append(lit('plain_lit', '=', p))                # no wildcard at all: plain text with regex-special characters
        else:
            out.append(lit('wild', 'pat', p))
    return out


def check_wildcards(tier, seed):
    t0 = time.time()
    rng = random.Random(seed * 7919 + 12)
    crits = wildcard_criteria(tier, rng)
    values = (WILD_TEXTS if tier == 'thorough' else WILD_TEXTS[:22] + [7, BLANK]) + ['hello world', 'Hello World!', 'hallo world']
    variants = (2,) if tier == 'quick' else (lambda n, crit: (1, 2) if len(crit['val']) <= 3 else (2,))
    batches = _matrix_batches(crits, values, variants)
    # a few patterns in every place a criterion can stand
    batches += _matrix_batches([lit('wild', 'pat', p) for p in ['a*', '?', '*a', 'a~*', '~?', 'a?', '*', '?*', 'a.', '*~~']],
                               ['a', 'ab', 'Ba', 'a*', '?', 'a.', 'abc', 7, BLANK], (0, 1, 2, 3, 4))
    return _collect(
        'C12.monitor.criteria_wildcard',
        f'every pattern of 1..3 symbols over {{a B ? * ~ . [}} ({"all" if tier == "thorough" else "150 sampled"} of length 4) plus 15 '
        f'longer ones = {len(crits)} criteria x {len(values)} cells (texts of length 1..5 containing the pattern symbols themselves, '
        f'a number, a blank) in COUNTIFS{"" if tier == "quick" else " (and SUMIFS for patterns of up to 3 symbols)"}; 10 patterns x 9 cells in all 5 places',
        'one evaluation = one one-cell formula; the reference matcher is a whole-text dynamic-programming matcher (? one character, '
        '* any run, ~? ~* ~~ literal); patterns with an undefined escape (~ before another character or at the end) are skipped; '
        'upper/lower case in patterns and patterns against numbers / blanks admit both outcomes', tier == 'thorough', batches, t0,
        all_funcs=None)


# ------------------------------------------------------------------ check 4: select-then-fold over planted columns
FOLD_ROWS = 10
COL_A = [5, 7, 3, 0, -3, 2.5, 5, BLANK, 5.0, 1000]
COL_B = ['x', 'X', 'y', 'abc', 'x', BLANK, 'ABC', 'ab', 'Y', 'x']
COL_C = [5, 'x', True, BLANK, DT(2021, 6, 25), '5', 0, False, 2.5, 'X']
COL_D = [DT(2021, 6, 25), DT(2021, 6, 25, 12), DT(1999, 12, 31), DT(2051, 1, 1), DT(2021, 6, 25), DT(2024, 2, 29),
         DT(2000, 1, 1), DT(2021, 6, 24), DT(1900, 1, 1), DT(2021, 6, 26)]
COL_F = [1, 2, 4, 8, 16, 32.5, 64, 128, -256, 0.25]
COL_G = [3, 9, 27, 81, 243, 729, 2187, 0, 6561.5, -19683]
COL_H = [BLANK, 3, 'txt', 9, True, 27, 81, 0, DT(2020, 1, 1), 729]
COL_I = [4, 1, 6, 0, 9, 2, 7, 3, 8, 5]
COL_J = [2, 8, 3, 9, 1, 7, 0, 6, 5, 4]
FCOL = 12                                                        # first formula column of the fold sheet (data: A-D, E, F-J)
FOLD_CRIT = {1: 3, 2: 'x', 3: DT(2021, 6, 25), 4: 2.5, 9: 'ABC', 10: 5}


def _fold_sheet(title='S', row0=1, col0=1, shift=0):
    cells = []
    for j, col in enumerate([COL_A, COL_B, COL_C, COL_D, None, COL_F, COL_G, COL_H, COL_I, COL_J]):
        if col is None:
            continue
        for i in range(FOLD_ROWS):
            v = col[(i + shift) % FOLD_ROWS]
            if v is not BLANK:
                cells.append([col0 + j, row0 + i, venc(v)])
    for r, v in FOLD_CRIT.items():
        cells.append([col0 + 4, row0 + r - 1, venc(v)])
    return {'title': title, 'cells': cells}


def fold_pool(col0=1, row0=1, s=None):
    """(column offset, criterion) combinations; every criterion suits the kind of its column"""
    e = lambda r: (s, col0 + 4, row0 + r - 1)
    return [
        (0, lit('op_lit', '>', 3, '3')), (0, lit('op_lit', '<=', 5, '5')), (0, lit('op_lit', '<>', 5, '5')), (0, lit('plain_lit', '=', 5, '5')),
        (0, fromcell('op_cell', '>', e(1))), (0, fromcell('op_cell', '<', e(4))), (0, fromcell('plain_cell', '=', e(10))),
        (0, lit('op_lit', '>=', 2.5, '2.5')),
        (1, lit('plain_lit', '=', 'x')), (1, lit('plain_lit', '=', 'ABC')), (1, fromcell('plain_cell', '=', e(2))),
        (1, fromcell('op_cell', '<>', e(2))), (1, fromcell('op_cell', '=', e(9))), (1, lit('wild', 'pat', 'a*')), (1, lit('wild', 'pat', '?b*')),
        (2, lit('plain_lit', '=', 5, '5')), (2, lit('plain_lit', '=', 'x')), (2, lit('plain_lit', '=', True)), (2, lit('op_lit', '<>', 5, '5')),
        (3, fromcell('plain_cell', '=', e(3))), (3, fromcell('op_cell', '>', e(3))), (3, fromcell('op_cell', '<=', e(3))),
        (3, fromcell('op_cell', '<>', e(3))),
    ]


def _crit_tag(crit):
    return f"{crit['form']}_{OPCLASS[crit['op']]}"


COLNAME = {0: 'numbers', 1: 'texts', 2: 'mixed', 3: 'dates'}


def _quoted(crit):
    return crit['src'] == 'lit' and not (crit['form'] == 'plain_lit' and not isinstance(crit['val'], str)) or \
        (crit['src'] != 'lit' and not crit['form'].startswith('plain'))


def wild_beside_literal(combo):
    """a wildcard criterion in a formula that contains another quoted literal (static feature of the input)"""
    return any(c['op'] == 'pat' for _, c in combo) and sum(1 for _, c in combo if _quoted(c)) > 1


def fold_key(func, combo, tcol):
    if wild_beside_literal(combo):
        return 'C12.fold.wildcard_beside_another_string_literal'
    if func == 'AVERAGEIFS' and tcol == 7:
        return 'C12.fold.AVERAGEIFS.non_number_in_unselected_target'
    if len(combo) > 1:                                   # criterion forms have their own checks: here the pairing / fold is at stake
        return f"C12.fold.{func}.{len(combo)}_pairs"
    off, c = combo[0]
    return f"C12.fold.{func}.1_pair.{_crit_tag(c)}@{COLNAME[off]}"


def _fold_item(func, combo, tcol, r0, r1, col0=1, s=None, home=0, sep=',', sp=False, absolute=False):
    pairs = [[mkref(col0 + off, r0, col0 + off, r1, s, absolute), crit] for off, crit in combo]
    target = None if tcol is None else mkref(col0 + tcol, r0, col0 + tcol, r1, s, absolute)
    spec = {'func': func, 'target': target, 'pairs': pairs, 'home': home, 'sep': sep, 'sp': sp}
    return {'spec': spec, 'key': fold_key(func, combo, tcol), 'ctx': 'planted columns A-D, targets F-H'}


def check_select_fold(tier, seed):
    t0 = time.time()
    rng = random.Random(seed * 7919 + 4)
    pool = fold_pool()
    items = []
    for combo1 in pool:                                           # 1 pair, everything
        for tcol in (5, 7):
            for func in ('SUMIFS', 'AVERAGEIFS', 'SUMIF'):
                items.append(_fold_item(func, [combo1], tcol, 1, FOLD_ROWS))
        items.append(_fold_item('COUNTIFS', [combo1], None, 1, FOLD_ROWS))
        if combo1[0] == 0:
            items.append(_fold_item('SUMIF', [combo1], None, 1, FOLD_ROWS))      # SUMIF without target sums the range itself
    pairs2 = list(itertools.product(pool, repeat=2))
    for combo in pairs2:                                          # 2 pairs, everything
        for func in ('SUMIFS', 'COUNTIFS', 'AVERAGEIFS'):
            items.append(_fold_item(func, list(combo), None if func == 'COUNTIFS' else 5, 1, FOLD_ROWS))
    triples = list(itertools.product(pool, repeat=3))
    chosen = triples if tier == 'thorough' else rng.sample(triples, 700)
    for combo in chosen:
        for func in (('SUMIFS', 'COUNTIFS', 'AVERAGEIFS') if tier == 'thorough' else (rng.choice(['SUMIFS', 'COUNTIFS', 'AVERAGEIFS']),)):
            items.append(_fold_item(func, list(combo), None if func == 'COUNTIFS' else rng.choice([5, 6, 7]), 1, FOLD_ROWS))
    # sub-windows of the columns (first / last row, one row, off-by-one) and writing styles
    for _ in range(300 if tier == 'quick' else 3000):
        r0 = rng.randint(1, FOLD_ROWS)
        r1 = rng.randint(r0, FOLD_ROWS)
        combo = [rng.choice(pool) for _ in range(rng.randint(1, 3))]
        func = rng.choice(FUNCS)
        if func == 'SUMIF':
            combo = combo[:1]
        items.append(_fold_item(func, combo, None if func == 'COUNTIFS' else rng.choice([5, 6, 7]), r0, r1,
                                sep=rng.choice([',', ';']), sp=rng.random() < 0.3, absolute=rng.random() < 0.3))
    # two-dimensional ranges (row-major alignment of range and target)
    for (off, crit) in pool:
        if off == 0:
            for func in ('SUMIFS', 'AVERAGEIFS', 'COUNTIFS', 'SUMIF'):
                for (r0, r1) in ((1, 5), (2, 10), (3, 3)):
                    spec = {'func': func, 'target': None if func == 'COUNTIFS' else mkref(6, r0, 7, r1),
                            'pairs': [[mkref(9, r0, 10, r1), crit]], 'home': 0}
                    items.append({'spec': spec, 'key': f"C12.fold.{func}.two_dimensional.{_crit_tag(crit)}", 'ctx': 'I:J against F:G'})
                    if func in ('SUMIFS', 'COUNTIFS'):
                        spec = dict(spec, pairs=[[mkref(9, r0, 10, r1), crit], [mkref(6, r0, 7, r1), lit('op_lit', '<', 100, '100')]])
                        items.append({'spec': spec, 'key': f"C12.fold.{func}.two_dimensional.{_crit_tag(crit)}", 'ctx': 'I:J and F:G against F:G'})
    # a wildcard next to another quoted literal does not survive the lexer (one root cause, reported once): keep 12 of them
    wild = [it for it in items if it['key'] == 'C12.fold.wildcard_beside_another_string_literal'][:12]
    items = [it for it in items if it['key'] != 'C12.fold.wildcard_beside_another_string_literal']
    sheet = _fold_sheet()
    batches = [{'sheets': [sheet], 'items': _place(ch, 0, FCOL, 30), 'mode': 'whole'} for ch in _chunks(items, 400) + [wild]]
    items = items + wild
    return _collect(
        'C12.monitor.select_fold',
        f'4 planted criteria columns of {FOLD_ROWS} rows (numbers with duplicates / 0 / negative / blank, texts in both cases with '
        f'blank, mixed number-text-logical-date-blank, dates) x {len(pool)} (column, criterion) combinations: all 1-pair and 2-pair '
        f'formulas, {"all" if tier == "thorough" else "700 sampled"} 3-pair formulas, x SUMIF / SUMIFS / COUNTIFS / AVERAGEIFS x targets '
        f'(powers of two, powers of three, mixed with text / logical / blank); random sub-windows, ; and , separators, spaces, $; '
        f'2-column ranges; {len(items)} formulas',
        'one evaluation = one formula value against the independent select-then-fold (exact rational sum / count / mean, relative '
        'tolerance 1e-9); skipped when a selected target cell is not a number (for the mean: also blank) or when more than 6 '
        'positions are undecided; an empty selection must give an error value for AVERAGEIFS; non-trivial = the selection is '
        'neither empty nor everything', False, batches, t0)


# ------------------------------------------------------------------ check 5: mis-sized ranges
def check_misaligned(tier, seed):
    t0 = time.time()
    items = []
    crits = [lit('op_lit', '>', 0, '0'), lit('plain_lit', '=', 5, '5'), lit('op_lit', '<>', 5, '5')]
    tcrits = [lit('plain_lit', '=', 'x'), lit('plain_lit', '=', 'ABC')]

    def add(func, tlen, lens, how, two_d=False):
        # target F1:F<tlen>; k-th criteria range in column A (numbers) / B (texts) / A, rows 1..lens[k]
        pairs = []
        for k, n in enumerate(lens):
            col = [1, 2, 1][k]
            crit = (crits if col == 1 else tcrits)[(k + tlen + n) % 2]
            pairs.append([mkref(col, 1, col, n), crit])
        target = mkref(6, 1, 6, tlen)
        if two_d:
            target = mkref(6, 1, 7, tlen)
        if func == 'COUNTIFS':
            if len(pairs) < 2:
                return
            target = None
        spec = {'func': func, 'target': target, 'pairs': pairs, 'home': 0}
        items.append({'spec': spec, 'key': f'C12.misaligned.{func}.{how}', 'ctx': how})
    for func in ('SUMIFS', 'COUNTIFS', 'AVERAGEIFS'):
        for n in (1, 2, 5, 9):
            for d in (-1, 1):
                if n + d < 1 or n + d > FOLD_ROWS:
                    continue
                w = 'shorter' if d < 0 else 'longer'
                add(func, n, [n + d], f'criteria_range_{w}_than_target')
                add(func, n, [n, n + d], f'second_criteria_range_{w}')
                add(func, n, [n + d, n], f'first_criteria_range_{w}')
                add(func, n, [n, n, n + d], f'third_criteria_range_{w}')
                add(func, n, [n + d, n + d], f'all_criteria_ranges_equal_but_{w}_than_target')
                add(func, n, [n + d, n + d, n + d], f'all_criteria_ranges_equal_but_{w}_than_target')
        add(func, 3, [3], 'two_column_target_one_column_range_half_the_cells', two_d=True)
        add(func, 5, [10], 'range_twice_the_target')
        add(func, 10, [1], 'one_cell_range')
        add(func, 1, [10], 'one_cell_target')
    batches = [{'sheets': [_fold_sheet()], 'items': _place(ch, 0, FCOL, 30), 'mode': 'whole'} for ch in _chunks(items, 120)]
    return _collect(
        'C12.monitor.misaligned',
        f'SUMIFS / COUNTIFS / AVERAGEIFS with target lengths 1, 2, 5, 9 and a criteria range one cell shorter or longer in the '
        f'first / second / third pair, or all criteria ranges equal but different from the target, one-cell and double-size '
        f'ranges, 2-column target against 1-column range; {len(items)} formulas',
        'one evaluation = one formula whose ranges have different numbers of cells; it must end in a library exception '
        '(ExcelInPythonException / E2PyclException, at translation or evaluation) or an Excel error value, never in a number '
        'and never in a bare Python exception; SUMIF is excluded (Excel re-sizes its target, the statement says error: no clause)',
        True, batches, t0)


# ------------------------------------------------------------------ check 6: overrides through Executor.set_cells
def check_overrides(tier, seed):
    t0 = time.time()
    rng = random.Random(seed * 7919 + 6)
    e = lambda r: (None, 5, r)
    A, B, D, F, G = 1, 2, 4, 6, 7

    def spec(func, tcol, pairs, r1=FOLD_ROWS):
        return {'func': func, 'target': None if tcol is None else mkref(tcol, 1, tcol, r1),
                'pairs': [[mkref(c, 1, c, r1), crit] for c, crit in pairs], 'home': 0}
    specs = [
        ('crit_cell_gt', spec('SUMIFS', F, [(A, fromcell('op_cell', '>', e(1)))])),
        ('crit_cell_gt', spec('COUNTIFS', None, [(A, fromcell('op_cell', '>', e(1)))])),
        ('crit_cell_gt', spec('SUMIF', F, [(A, fromcell('op_cell', '>', e(1)))])),
        ('crit_cell_gt', spec('AVERAGEIFS', F, [(A, fromcell('op_cell', '>', e(1)))])),
        ('crit_cell_le', spec('AVERAGEIFS', G, [(A, fromcell('op_cell', '<=', e(1)))])),
        ('crit_cell_ne', spec('SUMIFS', F, [(A, fromcell('op_cell', '<>', e(10)))])),
        ('crit_cell_plain', spec('SUMIFS', F, [(B, fromcell('plain_cell', '=', e(2)))])),
        ('crit_cell_plain', spec('SUMIF', None, [(A, fromcell('plain_cell', '=', e(10)))])),
        ('two_crit_cells', spec('COUNTIFS', None, [(B, fromcell('op_cell', '<>', e(2))), (A, fromcell('op_cell', '>=', e(4)))])),
        ('two_crit_cells', spec('SUMIFS', G, [(A, fromcell('op_cell', '>', e(1))), (A, fromcell('op_cell', '<', e(10)))])),
        ('crit_cell_date', spec('SUMIFS', F, [(D, fromcell('op_cell', '>', e(3)))])),
        ('crit_cell_date', spec('COUNTIFS', None, [(D, fromcell('op_cell', '<>', e(3)))])),
        ('crit_cell_date', spec('SUMIF', F, [(D, fromcell('plain_cell', '=', e(3)))])),
        ('crit_cell_date', spec('AVERAGEIFS', G, [(D, fromcell('op_cell', '<=', e(3)))])),
        ('crit_expr', spec('SUMIFS', F, [(A, fromcell('op_expr', '>', e(1), 'expr', plus=2))])),
        ('crit_formula_cell', spec('SUMIFS', F, [(A, fromcell('op_cell', '>', e(12)))])),        # E12 is the formula =E1+2
        ('crit_formula_cell', spec('COUNTIFS', None, [(A, fromcell('plain_cell', '=', e(12)))])),
        ('beyond_used_rows', spec('SUMIFS', F, [(A, fromcell('op_cell', '>', e(1)))], r1=14)),
        ('beyond_used_rows', spec('COUNTIFS', None, [(A, lit('op_lit', '<>', 5, '5'))], r1=14)),
        ('beyond_used_rows', spec('AVERAGEIFS', G, [(A, lit('op_lit', '>=', 5, '5'))], r1=14)),
        ('unused_column', {'func': 'COUNTIFS', 'target': None, 'pairs': [[mkref(24, 1, 24, 5), fromcell('op_cell', '>', e(1))]], 'home': 0}),
        ('unused_column', {'func': 'SUMIFS', 'target': mkref(25, 1, 25, 5), 'pairs': [[mkref(24, 1, 24, 5), lit('op_lit', '>', 3, '3')]],
                           'home': 0}),
        ('literal_crit', spec('SUMIFS', F, [(A, lit('op_lit', '>', 3, '3'))])),
        ('literal_crit', spec('COUNTIFS', None, [(B, lit('plain_lit', '=', 'x'))])),
        ('literal_crit', spec('AVERAGEIFS', F, [(A, lit('op_lit', '<=', 5, '5')), (B, lit('op_lit', '<>', 5, '5'))])),
    ]
    sheet = _fold_sheet()
    sheet['cells'].append([5, 12, {'$dep': [[0, 5, 1], 2]}])
    num = [0, 5, 2.5, -3, 1000, 4.999, 7, 3, 6, 1]
    pool = ([('critcell', (0, 5, 1), v) for v in num] + [('critcell', (0, 5, 10), v) for v in (5, 7, 0, 2.5)] +
            [('critcell', (0, 5, 4), v) for v in (0, 5, 100)] + [('critcell', (0, 5, 2), v) for v in ('X', 'abc', 'y', 'Ab')] +
            [('critcell', (0, 5, 3), v) for v in (DT(2000, 1, 1), DT(2021, 6, 25, 12), DT(2051, 1, 1))] +
            [('critcell', (0, 5, 12), v) for v in (4, 0)] +
            [('rangecell', (0, A, r), v) for r in (1, 4, 7, 10) for v in (6, 0, 5, BLANK, 2.5)] +
            [('blankcell', (0, A, 8), v) for v in (6, 5, 0)] + [('blankcell', (0, B, 6), v) for v in ('x', 'q')] +
            [('rangecell', (0, B, r), v) for r in (1, 5, 10) for v in ('x', 'y', BLANK, 'ABC')] +
            [('targetcell', (0, F, r), v) for r in (1, 6, 10) for v in (512, 0, -1, 0.5)] +
            [('targetcell', (0, G, r), v) for r in (2, 9) for v in (7, 100)] +
            [('beyond', (0, A, r), v) for r in (11, 13, 14) for v in (9, 5, 1)] + [('beyond', (0, F, r), v) for r in (11, 13, 14) for v in (2048, 4096)] +
            [('beyond', (0, G, 12), 77), ('beyond', (0, 24, 3), 7), ('beyond', (0, 24, 5), 2), ('beyond', (0, 25, 3), 50),
             ('beyond', (0, 25, 1), 60), ('beyond', (0, 24, 1), 10)] +
            [('rangecell', (0, D, r), v) for r in (1, 3, 9) for v in (DT(2021, 6, 25), DT(2030, 1, 1), DT(2021, 6, 25, 0, 0, 1))])
    # values of type datetime.date (a date without a time of day) are equal to that day's midnight
    date_only = ([('rangecell', (0, D, r), v) for r in (2, 5, 8) for v in (datetime.date(2021, 6, 25), datetime.date(2021, 6, 26),
                                                                          datetime.date(1999, 1, 1))] +
                 [('critcell', (0, 5, 3), v) for v in (datetime.date(2021, 6, 25), datetime.date(2021, 6, 24), datetime.date(2051, 1, 1))])
    batches = []
    nexec = 16 if tier == 'quick' else 160
    for k in range(nexec):
        steps, classes = [], []
        with_date_only = k % 4 == 3
        for _ in range(rng.randint(3, 7)):
            chosen = rng.sample(pool, rng.randint(1, 3)) + (rng.sample(date_only, 1) if with_date_only else [])
            if rng.random() < 0.25:                              # the same cell twice in one call / in consecutive calls: last one wins
                c = rng.choice(chosen)
                chosen.append(rng.choice([p for p in pool + (date_only if with_date_only else []) if p[1] == c[1]]))
            last = {}
            for cls, pos, v in chosen:
                last[pos] = (cls, v)
            steps.append([[pos[0], pos[1], pos[2], venc(v)] for pos, (cls, v) in last.items()])
            classes.append(sorted({cls for cls, _ in last.values()}))
        items = []
        for tag, sp in specs:
            key = 'C12.override.date_only_values' if with_date_only and tag == 'crit_cell_date' else f"C12.override.{tag}.{sp['func']}"
            items.append({'spec': sp, 'key': key, 'ctx': 'one Executor, values read before and after set_cells'})
        mode = 'whole' if k % 4 else 'entry'
        if mode == 'entry':
            items = rng.sample(items, 6)
        batches.append({'sheets': [sheet], 'items': _place(items, 0, FCOL, 30), 'mode': mode, 'steps': steps})
    return _collect(
        'C12.monitor.overrides',
        f'{nexec} Executors (3 of 4 on a whole-file translation with {len(specs)} formulas, 1 of 4 on entry-point translations of 6 of '
        f'them), each read once and then after each of 3..7 set_cells calls of 1..4 cells drawn from {len(pool)} overrides: the '
        f'criterion cell of ">"&E1 / "<>"&E10 / E2 / a date cell / a formula cell =E1+2 and its precedent, cells inside the criteria '
        f'and target ranges, blank cells inside the ranges, cells below the used rows (ranges reaching row 14), cells of unused '
        f'columns X / Y, a planted cell overridden with an empty cell, the same cell overridden twice; every fourth Executor also '
        f'receives datetime.date values (no time of day) in the date column / the date criterion cell',
        'one evaluation = one formula value after one step, against the select-then-fold on the planted cells with all overrides '
        'so far applied (latest value of a cell wins)', False, batches, t0)


# ------------------------------------------------------------------ check 7: API contexts
def check_contexts(tier, seed):
    t0 = time.time()
    rng = random.Random(seed * 7919 + 8)
    batches = []
    pool0 = fold_pool()
    some = [pool0[i] for i in (0, 2, 4, 6, 8, 11, 13, 19, 20)]

    def items_for(combos, home, s=None, col0=1, row0=1, tag=''):
        out = []
        for off, crit in combos:
            for func in FUNCS:
                it = _fold_item(func, [(off, crit)], None if func == 'COUNTIFS' else 5, row0, row0 + FOLD_ROWS - 1, col0=col0, s=s, home=home)
                it['key'] = f"C12.context.{tag}.{func}"
                it['ctx'] = tag
                out.append(it)
        return out

    # (a) two sheets with the same formula texts at the same addresses and different data; (b) qualified references
    sheets = [_fold_sheet('S'), _fold_sheet('T', shift=3), _fold_sheet('My Sheet', shift=6)]
    sheets[1]['cells'] = [x for x in sheets[1]['cells'] if not (x[0] == 5 and x[1] == 1)] + [[5, 1, 4]]      # T!E1 = 4
    items = []
    for home in (0, 1, 2):
        for it in items_for(some, home, tag='same_text_on_several_sheets'):
            it['sheet'] = home
            items.append(it)
    placed = []
    for home in (0, 1, 2):
        mine = [it for it in items if it['sheet'] == home]
        _place(mine, home, FCOL, 40)
        placed += mine
    for k, it in enumerate(placed):
        it['id'] = k
    batches.append({'sheets': sheets, 'items': placed, 'mode': 'whole'})
    items = []
    for s in (1, 2):
        combos = [(off, dict(crit, ref=[s, crit['ref'][1], crit['ref'][2]]) if crit['src'] != 'lit' else crit) for off, crit in some]
        q = 'quoted_title' if s == 2 else 'plain_title'
        items += items_for(combos, 0, s=s, tag=f'ranges_and_criterion_cell_qualified_with_{q}')
        # range on the other sheet, criterion cell unqualified (own sheet)
        items += items_for([c for c in some if c[1]['src'] != 'lit'], 0, s=s, tag=f'ranges_qualified_with_{q}_criterion_cell_unqualified')
    batches.append({'sheets': sheets, 'items': _place(items, 0, FCOL, 40), 'mode': 'whole'})
    # (c) the same formula text in several cells of one sheet, neighbours differing only in the criterion
    items = []
    for rep in range(3):
        items += items_for(some[:5], 0, tag='same_text_repeated')
    rng.shuffle(items)
    batches.append({'sheets': [_fold_sheet()], 'items': _place(items, 0, FCOL, 30), 'mode': 'whole'})
    # (d) entry-point translation and (e) one Parser re-used for several entry cells
    items = items_for(some, 0, tag='entry_point')
    batches.append({'sheets': [_fold_sheet()], 'items': _place(rng.sample(items, 8 if tier == 'quick' else len(items)), 0, FCOL, 30), 'mode': 'entry'})
    items = items_for(some, 0, tag='parser_reused')
    batches.append({'sheets': [_fold_sheet()], 'items': _place(rng.sample(items, 8 if tier == 'quick' else len(items)), 0, FCOL, 30), 'mode': 'reuse'})
    # (f) far rows and columns: the data block moved to rows 96.., 996.., columns Z / AAA / ZZ / XFA
    for (row0, col0, mode) in [(96, 1, 'whole'), (996, 1, 'whole'), (1, 20, 'whole'), (1, 699, 'entry'), (1, 16375, 'entry'),
                               (1048560, 1, 'entry')] + ([(1, 699, 'whole'), (1, 16375, 'whole'), (99, 26, 'whole')] if tier == 'thorough' else []):
        fp = fold_pool(col0=col0, row0=row0)
        combos = [fp[i] for i in (0, 4, 6, 8, 10, 13, 20)]
        items = items_for(combos, 0, col0=col0, row0=row0, tag=f'block_at_{col_letters(col0)}{row0}')
        if mode == 'entry' and tier == 'quick':
            items = items[:8] if col0 < 1000 and row0 < 100000 else [items[0], items[5], items[10], items[19]]
        left = col0 + 14 > 16384
        for k, it in enumerate(items):
            it['at'] = [0, (col0 - 2 - k // 10) if left else (col0 + 11 + k // 10), row0 + k % 10]
            it['id'] = k
        batches.append({'sheets': [_fold_sheet(row0=row0, col0=col0)], 'items': items, 'mode': mode})
    # (g) ranges longer than 1000 cells
    n = 1203
    cells = []
    for i in range(n):
        cells.append([1, i + 1, (i * 7) % 11])
        cells.append([2, i + 1, ['x', 'Y', 'abc', 'X'][(i * 5) % 4 if i % 9 else 0]])
        cells.append([3, i + 1, i + 1])
    cells += [[5, 1, 4], [5, 2, 'x']]
    items = []
    for last in (999, 1000, 1001, n):
        for off, crit in [(0, lit('op_lit', '>', 3, '3')), (0, fromcell('op_cell', '<=', (None, 5, 1))), (1, lit('plain_lit', '=', 'x')),
                          (1, lit('wild', 'pat', 'a*')), (0, lit('plain_lit', '=', 10, '10'))]:
            for func in FUNCS:
                spec = {'func': func, 'target': None if func == 'COUNTIFS' else mkref(3, 1, 3, last),
                        'pairs': [[mkref(1 + off, 1, 1 + off, last), crit]], 'home': 0}
                items.append({'spec': spec, 'key': f'C12.context.long_range.{func}.{_crit_tag(crit)}', 'ctx': f'{last} rows'})
        spec = {'func': 'SUMIFS', 'target': mkref(3, 1, 3, last), 'home': 0,
                'pairs': [[mkref(1, 1, 1, last), lit('op_lit', '>', 3, '3')], [mkref(2, 1, 2, last), lit('plain_lit', '=', 'x')]]}
        items.append({'spec': spec, 'key': 'C12.context.long_range.SUMIFS.two_pairs', 'ctx': f'{last} rows'})
    for k, it in enumerate(items):
        it['at'] = [0, 7 + k // 40, 1 + k % 40]
        it['id'] = k
    batches.append({'sheets': [{'title': 'S', 'cells': cells}], 'items': items, 'mode': 'whole'})
    # (h) line breaks between arguments (raw formula text next to its structured spec)
    items = items_for(some[:4], 0, tag='line_breaks')
    for it in items:
        it['formula'] = render_formula(it['spec'], ['S']).replace(',', ',\n ')
    batches.append({'sheets': [_fold_sheet()], 'items': _place(items, 0, FCOL, 30), 'mode': 'whole'})
    nform = sum(len(b['items']) for b in batches)
    return _collect(
        'C12.monitor.contexts',
        f'{nform} formulas over the planted columns in API situations: identical formula texts on three sheets (one titled with a '
        f'space) with different data; ranges and criterion cells qualified with another sheet; the same text repeated in one sheet; '
        f'entry-point translation; one Parser re-used for successive entry cells; the data block at rows 96.. / 996.. / 1048560.., '
        f'columns T.. / ZW.. / XEW..XFD; ranges of 999, 1000, 1001 and 1203 cells; line breaks between arguments',
        'one evaluation = one formula value against the select-then-fold on the cells the formula denotes (own sheet for '
        'unqualified references)', False, batches, t0)


# ------------------------------------------------------------------ check 8: the runtime helpers, both copies
PREDS = {
    'gt3': lambda x: isinstance(x, (int, float)) and x > 3,
    'le2': lambda x: isinstance(x, (int, float)) and x <= 2,
    'eq0': lambda x: isinstance(x, (int, float)) and x == 0,
    'ne5': lambda x: not (isinstance(x, (int, float)) and x == 5),
    'is_x': lambda x: isinstance(x, str) and x.lower() == 'x',
    'not_x': lambda x: not (isinstance(x, str) and x.lower() == 'x'),
    'any': lambda x: True,
    'none': lambda x: False,
}
HELPER_VALUES = [0, 1, 5, 7, 2.5, -3, 'x', 'X', 'y', BLANK, True]


def _shape(vals, shape, conv):
    vals = [conv(v) for v in vals]
    if shape == 'col':
        return [[v] for v in vals]
    if shape == 'row':
        return [list(vals)]
    if shape == 'two' and len(vals) % 2 == 0:
        return [vals[i:i + 2] for i in range(0, len(vals), 2)]
    return [[v] for v in vals]


def helper_expected(func, target, pairs):
    n = len(target) if func != 'COUNTIFS' else len(pairs[0][0])
    if func != 'SUM_IF' and any(len(r) != n for r, _ in pairs):
        return ('error',)
    if func == 'SUM_IF' and len(pairs[0][0]) != len(target):
        return None
    sel = [i for i in range(n) if all(PREDS[p](0 if r[i] is BLANK else r[i]) for r, p in pairs)]
    if func == 'COUNTIFS':
        return ('vals', {Fraction(len(sel))})
    vals = []
    for i in sel:
        v = target[i]
        if v is BLANK and func != 'AVERAGEIFS':
            vals.append(Fraction(0))
        elif ckind(v) == 'num':
            vals.append(frac(v))
        else:
            return None
    if func == 'AVERAGEIFS':
        return ('nonnum',) if not vals else ('vals', {sum(vals) / len(vals)})
    return ('vals', {sum(vals, Fraction(0))})


def helper_call(which, func, target, pairs, shape):
    cls = lib.get_class(which)
    inst = cls()
    conv = lambda v: cls.EmptyCell() if v is BLANK else v
    args = []
    for r, p in pairs:
        args += [_shape(r, shape, conv), PREDS[p]]
    if func == 'SUMIFS':
        got = lib.call_catch(inst._sumifs, _shape(target, shape, conv), *args)
    elif func == 'AVERAGEIFS':
        got = lib.call_catch(inst._averageifs, _shape(target, shape, conv), *args)
    elif func == 'COUNTIFS':
        got = lib.call_catch(inst._countifs, *args)
    else:
        got = lib.call_catch(inst._sum_if, args[0], args[1], _shape(target, shape, conv))
    if isinstance(got, cls.EmptyCell):
        got = 0
    return got


def helper_feature(func, target, pairs):
    rv = [v for r, _ in pairs for v in r]
    if len(target) > 1000 or len(rv) > 1000 * len(pairs):
        return 'long'
    if any(not (v is BLANK or ckind(v) == 'num') for v in target):
        return 'non_number_in_unselected_target'
    if any(v is BLANK for v in rv):
        return 'blank_in_range'
    if any(isinstance(v, bool) for v in rv):
        return 'logical_in_range'
    if any(v is BLANK for v in target):
        return 'blank_in_target'
    if any(isinstance(v, str) for v in rv):
        return 'text_in_range'
    return 'numbers'


def check_helpers(tier, seed):
    t0 = time.time()
    rng = random.Random(seed * 7919 + 9)
    powers = [1, 2, 4, 8, 16, 32.5, 64, 128, -256, 0.25]
    cases = []
    for n in (1, 2, 3):                                           # every column up to 3 cells, one pair, every predicate
        for col in itertools.product(HELPER_VALUES, repeat=n):
            for p in PREDS:
                for func in ('SUMIFS', 'COUNTIFS', 'AVERAGEIFS', 'SUM_IF'):
                    cases.append((func, powers[:n], [(list(col), p)], 'col'))
    tvals = powers + [BLANK, 'txt', True, 0]
    for _ in range(4000 if tier == 'quick' else 60000):
        n = rng.choice([1, 2, 3, 4, 6, 8, 12])
        k = rng.randint(1, 3)
        func = rng.choice(['SUMIFS', 'COUNTIFS', 'AVERAGEIFS', 'SUM_IF'])
        if func == 'SUM_IF':
            k = 1
        pairs = [([rng.choice(HELPER_VALUES) for _ in range(n)], rng.choice(list(PREDS))) for _ in range(k)]
        target = [rng.choice(tvals) if rng.random() < 0.3 else rng.choice(powers) * rng.choice([1, 3, 5]) for _ in range(n)]
        if rng.random() < 0.12 and func != 'SUM_IF':             # one range with a different number of cells
            j = rng.randrange(k)
            d = rng.choice([-1, 1, 2])
            r = pairs[j][0]
            pairs[j] = ((r + r)[:max(0, n + d)] if d > 0 else r[:max(0, n + d)], pairs[j][1])
            if func == 'COUNTIFS' and k == 1:
                continue
        cases.append((func, target, pairs, rng.choice(['col', 'row', 'two'])))
    for n in (1000, 1001, 1500):
        for func in ('SUMIFS', 'COUNTIFS', 'AVERAGEIFS', 'SUM_IF'):
            col = [(i * 7) % 11 for i in range(n)]
            cases.append((func, [i + 1 for i in range(n)], [(col, 'gt3')] + ([] if func == 'SUM_IF' else [([(i * 3) % 5 for i in range(n)], 'le2')]), 'col'))
    evals = nontrivial = 0
    per_key = {}
    samples = []
    for func, target, pairs, shape in cases:
        exp = helper_expected(func, target, pairs)
        if exp is None:
            continue
        gots = {w: helper_call(w, func, target, pairs, shape) for w in ('runtime', 'abstract')}
        evals += 1
        if exp[0] != 'vals' or 0 not in exp[1]:
            nontrivial += 1
        bad = [w for w in gots if not conforms(gots[w], exp)]
        if len(samples) < 2 and not bad and len(target) < 5:
            samples.append({'func': func, 'target': [venc(v) for v in target], 'pairs': [[[venc(v) for v in r], p] for r, p in pairs],
                            'result': repr(gots['runtime'])})
        if not bad:
            continue
        feature = 'sizes_differ' if exp[0] == 'error' else helper_feature(func, target, pairs)
        key = f"C12.helper.{func}.{feature}.{outcome_of(gots[bad[0]], exp)}" + ('' if len(bad) == 2 else f'.only_{bad[0]}')
        size = len(target) + sum(len(r) for r, _ in pairs)
        if key not in per_key or size < per_key[key][0]:
            per_key[key] = (size, {'key': key, 'what': f"{bad}: _{func.lower()} target={[show_val(v) for v in target][:8]} pairs="
                                   f"{[([show_val(v) for v in r][:8], p) for r, p in pairs]} shape={shape} -> {gots[bad[0]]!r}, expected {show_exp(exp)}",
                                   'replay': {'kind': 'helper', 'func': func, 'target': [venc(v) for v in target],
                                              'pairs': [[[venc(v) for v in r], p] for r, p in pairs], 'shape': shape}})
    fails = [per_key[k][1] for k in sorted(per_key)]
    return {'name': 'C12.monitor.helpers',
            'bound': f'_sumifs / _countifs / _averageifs / _sum_if of BOTH runtime copies called directly with total Python predicates '
                     f'({", ".join(PREDS)}): every column of 1..3 cells over {len(HELPER_VALUES)} values (numbers, texts, TRUE, empty cell) x 8 '
                     f'predicates x 4 functions; {4000 if tier == "quick" else 60000} seeded cases with 1..3 pairs, 1..12 cells, column / row / '
                     f'2-column matrices, targets containing text / logical / empty cells, 12 % with one mis-sized range; 1000, 1001 and '
                     f'1500-cell columns',
            'rule': 'one evaluation = both copies called on one argument tuple; expected: fold over the positions whose cells (empty '
                    'cell presented as 0) satisfy every predicate, a library exception when the numbers of cells differ; skipped when a '
                    'selected target cell is not a number or _sum_if gets a target of another size',
            'exhaustive': False, 'evaluations': evals, 'distinct_nontrivial': nontrivial, 'failures': fails[:25], 'samples': samples,
            'seconds': time.time() - t0}


# ------------------------------------------------------------------ entry points
def run(tier='quick', seed=0):
    checks = [
        check_criteria('C12.monitor.criteria_plain', plain_criteria(), tier,
                       'plain numbers incl. 1e3, texts, TRUE/FALSE, criterion cells holding numbers / texts / dates / logicals, '
                       'E1+2, "a"&E7'),
        check_criteria('C12.monitor.criteria_operator_literal', operator_literal_criteria(), tier,
                       'each of = <> > < >= <= written literally with whole, decimal, exponent (1e3) and negative numbers and '
                       'with Latin / Cyrillic texts'),
        check_criteria('C12.monitor.criteria_operator_cell', operator_cell_criteria(), tier,
                       'each of = <> > < >= <= assembled with & from cells holding whole / decimal / negative numbers, 0, texts, '
                       'dates, with and without spaces around &, and from the expression E1+2'),
        check_wildcards(tier, seed),
        check_select_fold(tier, seed),
        check_misaligned(tier, seed),
        check_overrides(tier, seed),
        check_contexts(tier, seed),
        check_helpers(tier, seed),
    ]
    return {'checks': checks}


def replay(payload):
    k = (payload or {}).get('kind')
    if k == 'batch':
        r = _safe_eval_batch(payload['batch'])
        only = payload['batch'].get('only')
        fails = [f for f in r['fails'] if only is None or f['item'] == only]
        if fails:
            return {'fails': True, 'text': '; '.join(f"{f['key']}: {f['what']}" for f in fails[:3])}
        return {'fails': False, 'text': f"{r['evals']} evaluation(s) conform: " + '; '.join(str(s) for s in r['samples'][:2])}
    if k == 'helper':
        target = [vdec(v) for v in payload['target']]
        pairs = [([vdec(v) for v in r], p) for r, p in payload['pairs']]
        exp = helper_expected(payload['func'], target, pairs)
        gots = {w: helper_call(w, payload['func'], target, pairs, payload['shape']) for w in ('runtime', 'abstract')}
        bad = [w for w in gots if exp is not None and not conforms(gots[w], exp)]
        return {'fails': bool(bad), 'text': f"_{payload['func'].lower()} target={payload['target']} pairs={payload['pairs']} -> {gots!r}; "
                                            f"expected {show_exp(exp) if exp else 'no clause'}"}
    return {'fails': False, 'text': 'nothing to replay'}
