"""K1: verification-condition generation by forward symbolic execution of the real functions' ASTs.

See DESIGN.md 2.2 and Appendix A.  The executor models a construct exactly, or raises NotFormed;
it never silently approximates.  One query per (path, assertion); loops are cut by the contract's
invariants; calls are modular when the callee has a contract.

This file: state, contracts, registry.  Expression semantics: symexpr.py.  Statements, loops,
calls and the per-function driver: symstmt.py.  Spec-expression evaluation: symspec.py.
"""
import itertools
import time

import z3

from . import sorts as T
from .sorts import V, is_, ln, at


class NotFormed(Exception):
    """The function uses a construct outside the supported subset, or the contract no longer fits it."""


_ctr = itertools.count()


def fresh(prefix, sort=None):
    return z3.Const(f'{prefix}!{next(_ctr)}', sort if sort is not None else V)


# ----------------------------------------------------------------------------- python-level values
class PyVal:
    """A value known statically (not a z3 term)."""


class Closure(PyVal):
    def __init__(self, node, env, name=None, self_val=None):
        self.node, self.env, self.name, self.self_val = node, env, name, self_val


class Static(PyVal):
    """A statically resolved reference: module, class, builtin function, exception class ..."""

    def __init__(self, path):
        self.path = path

    def __repr__(self):
        return f'Static({self.path})'


class PyTuple(PyVal):
    """A sequence of statically known length whose items may be any values (*args, unpacking, zip)."""

    def __init__(self, items):
        self.items = list(items)


EXC_SUPER = {
    'IndexError': 'LookupError', 'KeyError': 'LookupError', 'LookupError': 'Exception',
    'ZeroDivisionError': 'ArithmeticError', 'ArithmeticError': 'Exception', 'OverflowError': 'ArithmeticError',
    'ValueError': 'Exception', 'TypeError': 'Exception', 'AttributeError': 'Exception',
    'E2PyclParserException': 'E2PyclException', 'E2PyclSafetyException': 'E2PyclParserException',
    'E2PyclCellException': 'E2PyclException', 'E2PyclExecutorException': 'E2PyclException',
    'E2PyclException': 'Exception', 'ExcelInPythonException': 'Exception', 'ParserError': 'ValueError',
    'Exception': 'BaseException', 'RecursionError': 'RuntimeError', 'RuntimeError': 'Exception',
    'AssertionError': 'Exception', 'BaseException': None,
}


def exc_isa(name, base):
    seen = 0
    while name is not None and seen < 20:
        if name == base:
            return True
        name = EXC_SUPER.get(name, 'Exception')
        seen += 1
    return False


# ----------------------------------------------------------------------------- state
def _has_quant(e):
    if not z3.is_expr(e):
        return False
    todo, seen = [e], set()
    while todo:
        x = todo.pop()
        i = x.get_id()
        if i in seen:
            continue
        seen.add(i)
        if z3.is_quantifier(x):
            return True
        todo.extend(x.children())
    return False


class State:
    __slots__ = ('env', 'heap', 'pc', 'axioms', 'maxid', 'marks', 'known', 'ghost', 'ymd', 'bg')

    def __init__(self):
        self.env = {}
        self.heap = {}
        self.pc = ()        # quantifier-free path facts
        self.axioms = ()    # quantified facts (excluded from feasibility checks)
        self.maxid = None
        self.marks = {}     # snapshots: name -> State
        self.known = {}     # id of a list/tuple term -> python list of its items (statically known length)
        self.ghost = {}
        self.bg = ()        # background axioms (spec-function definitions, ln >= 0): in every VC, not in feasibility checks
        self.ymd = {}       # id of an ordinal term -> (y, m, d) constants already introduced for it

    def copy(self):
        s = State()
        s.env = dict(self.env)
        s.heap = dict(self.heap)
        s.pc, s.axioms, s.maxid = self.pc, self.axioms, self.maxid
        s.marks = self.marks
        s.known = self.known
        s.ghost = self.ghost
        s.ymd = self.ymd
        s.bg = self.bg
        return s

    def add(self, *facts):
        s = self.copy()
        for f in facts:
            if f is None:
                continue
            if _has_quant(f):
                s.axioms = s.axioms + (f,)
            else:
                s.pc = s.pc + (f,)
        return s

    def setenv(self, name, val):
        s = self.copy()
        s.env[name] = val
        return s

    def mark(self, name):
        s = self.copy()
        s.marks = dict(self.marks)
        s.marks[name] = self
        return s

    def know(self, term, items):
        s = self.copy()
        s.known = dict(self.known)
        s.known[term.get_id()] = (term, list(items))
        return s

    def known_items(self, term):
        if isinstance(term, PyTuple):
            return term.items
        if z3.is_expr(term):
            k = self.known.get(term.get_id())
            if k is not None:
                return k[1]
        return None

    def all_facts(self):
        return list(self.pc) + list(self.axioms) + list(self.bg)

    def field(self, name):
        if name not in self.heap:
            raise NotFormed(f'heap field {name} is not declared (add it to the contract fields)')
        return self.heap[name]


class Flow:
    __slots__ = ('kind', 'st', 'val')

    def __init__(self, kind, st, val=None):
        self.kind, self.st, self.val = kind, st, val   # fall | ret | brk | cont | exc (val = class name)


class VC:
    def __init__(self, name, facts, goal, decisive, info='', st=None):
        self.name, self.facts, self.goal, self.decisive, self.info = name, facts, goal, decisive, info
        self.status, self.seconds, self.model, self.backend = 'pending', 0.0, None, ''
        self.st = st
        self.cex = None


# ----------------------------------------------------------------------------- solver helpers
FEAS_TIMEOUT_MS = 1000
_feas_cache = {}
STATS = {'feas_calls': 0, 'feas_time': 0.0}


def feasible(st, cond=None):
    """Over-approximate satisfiability of the path facts: unsat from the quantifier-free facts, or from all facts
    within a short budget, prunes the path; sat / unknown / timeout count as feasible (sound: pruning only on unsat)."""
    facts = list(st.pc)
    if cond is not None:
        c = z3.simplify(cond)
        if z3.is_false(c):
            return False
        if not z3.is_true(c):
            facts.append(c)
    if not facts:
        return True
    key = (tuple(f.get_id() for f in facts), len(st.axioms))
    if key in _feas_cache:
        return _feas_cache[key]
    t0 = time.time()
    s = z3.Solver()
    s.set('timeout', FEAS_TIMEOUT_MS)
    s.add(*facts)
    r = s.check() != z3.unsat
    if r and st.axioms:
        s.set('timeout', FEAS_AXIOM_TIMEOUT_MS)
        s.add(*st.axioms)
        r = s.check() != z3.unsat
    STATS['feas_calls'] += 1
    STATS['feas_time'] += time.time() - t0
    _feas_cache[key] = r
    return r


FEAS_AXIOM_TIMEOUT_MS = 250
from .contract import Contract, SpecFn, Registry  # noqa: E402,F401  (z3-free definitions)
