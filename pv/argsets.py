"""Argument pools for calling runtime helpers (encoded with pv.codec conventions). Used by the C20
differential stand-in and by conformance checks."""
import itertools
import random

E = {'$e': 1}


def F(x):
    return {'$f': repr(float(x))}


def DT(*a):
    a = list(a) + [0] * (7 - len(a))
    return {'$dt': a}


SCALARS = [0, 1, -1, 2, 5, 7, 12, 100, True, False, None, E, F(0.5), F(-1.5), F(2.0), F(1.7), '', 'a', 'A', 'abc',
           'a?c', 'a*', '~?x', '[x]', '5', '1.5', '#N/A', '#NULL!', 'Hello World', DT(2020, 2, 29), DT(2019, 12, 8),
           DT(2021, 1, 31, 10, 30), {'$d': [2020, 1, 1]}]
LISTS = [[], [1, 2, 3], [[1], [2], [3]], [[1, 'a'], [2, 'b'], [3, 'c']], [1, 'a', None, E, True, F(2.5)],
         [[1, 2], [3, [4, 5]]], ['#N/A', 1], [True, 0, 'x', 5], [[DT(2020, 1, 1)], [DT(2020, 1, 2)]],
         [[3], [2], [1]], [['a'], ['B'], ['c']], [0, 0, 1, 9]]
LAMS = [{'$lam': 'lambda x: True'}, {'$lam': 'lambda x: bool(x)'}, {'$lam': 'lambda x: isinstance(x, int) and x > 1'},
        {'$lam': 'lambda: 1/0'}, {'$lam': 'lambda: "#N/A"'}, {'$lam': 'lambda: 5'}]
POOL = SCALARS + LISTS + LAMS


def generic(nparams, seed, limit=400):
    rnd = random.Random(seed)
    if nparams == 0:
        return [[]]
    if len(POOL) ** nparams <= limit:
        return [list(t) for t in itertools.product(POOL, repeat=nparams)]
    out = []
    for _ in range(limit):
        out.append([rnd.choice(POOL) for _ in range(nparams)])
    return out
