"""C08 - evaluation is pure and repeatable; all query APIs agree (DESIGN 5 C08)."""
import ast

from pv import propkit as K, source
from pv.core import PropResult, Ob

LEVEL = 'proof'
EXPLANATION = ('K1: Executor.get_cell frame (assigns only the queried cell value, the dirty flag and the instance argument '
               'map; overrides, sheet sizes, titles untouched; the address of the queried cell is kept), get_sheet (exactly '
               'last_row x last_column entries, entry [r][c] is Cell(sheet, c, r) passed through the single-cell query, nested '
               'loop invariants); K3: no runtime helper other than __init__ / set_arguments assigns instance state; addressing '
               'equivalence from handle_cell (C02); schedule monitor bounded.')
K1_EX = ['Executor.get_cell/frame', 'Executor.get_cell/clean', 'Executor.get_sheet']


def _runtime_frame(res):
    members = source.class_members('runtime')
    bad = []
    n = 0
    for name, node in members.items():
        if not isinstance(node, ast.FunctionDef) or name in ('__init__', 'set_arguments'):
            continue
        n += 1
        for x in ast.walk(node):
            tgt = []
            if isinstance(x, (ast.Assign, ast.AnnAssign, ast.AugAssign)):
                tgt = x.targets if isinstance(x, ast.Assign) else [x.target]
            elif isinstance(x, ast.Delete):
                tgt = x.targets
            for t in tgt:
                for y in ast.walk(t):
                    if isinstance(y, ast.Attribute) and isinstance(y.value, ast.Name) and y.value.id == 'self':
                        bad.append(f'{name}: assigns self.{y.attr} (line {x.lineno})')
            if isinstance(x, ast.Call) and isinstance(x.func, ast.Attribute) and \
                    x.func.attr in ('append', 'extend', 'update', 'pop', 'clear', 'setdefault', 'add', 'remove', 'insert') and \
                    isinstance(x.func.value, ast.Attribute) and isinstance(x.func.value.value, ast.Name) and \
                    x.func.value.value.id == 'self':
                bad.append(f'{name}: mutates self.{x.func.value.attr} via .{x.func.attr}() (line {x.lineno})')
            if isinstance(x, ast.Call) and isinstance(x.func, ast.Name) and x.func.id == 'setattr':
                bad.append(f'{name}: setattr (line {x.lineno})')
    o = Ob('C08.Runtime.frame', 'K3', decisive=False, function='runtime: every helper')
    o.count = n
    o.status = 'failed' if bad else 'discharged'
    o.detail = ('; '.join(bad[:5]) if bad else
                f'{n} helpers of the emitted runtime: none assigns, deletes or mutates instance state (only __init__ and '
                'set_arguments do), so evaluation cannot depend on earlier queries')
    if bad:
        o.witness = None
    res.add(o)


def run(ctx):
    res = PropResult('C08')
    K.k1_block(res, ctx, 'contracts.c04', K1_EX, 'C08.')
    K.k1_block(res, ctx, 'contracts.c02', ['handle_cell'], 'C08.')
    _runtime_frame(res)
    K.canary_contract(res, 'contracts.c04', 'Executor.get_cell/clean', 'frame', 'self._cells != old(self._cells)')
    K.monitor_if_present(res, ctx, 'mon_c08')
    res.trusted_base += ['A-STATIC', 'R-ALLOC']
    res.assumptions += ['A-ALIAS: the Cell objects handed to set_cells are not handed to another executor or mutated '
                        '(known finding C08-K1 otherwise)', 'TODAY() is excluded from repeatability by nature',
                        'a raising cell: only the exception class is compared']
    return res


def replay(p):
    return K.replay_any(p)
