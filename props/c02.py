"""C02 - every reference form denotes exactly the intended cells of the intended sheet (DESIGN 5 C02)."""
from pv import propkit as K, schema, native
from pv.core import PropResult, Ob

LEVEL = 'proof'
EXPLANATION = ('K1: handle_cell (title / column letters / row text -> 0-based integers, unknown title and row 0 rejected), '
               'Cell.uid, Excel._fill_cell (blank outside stored data, no IndexError for any integers), vertical / horizontal '
               'range and rectangular matrix loops (row-major, with loop invariants), the get_range / get_matrix dispatch and '
               'get_similar_second, Excel.get_cells (three nested loops: a fresh filled cell for every stored position, nothing else); K2: openpyxl column_index_from_string equals bijective base-26 on its whole domain; K-S: '
               'reference translators emit the cells in the order of the returned cells, with the sheet of the prefix or the '
               'formula\'s own sheet; the reference regexes (back-references, look-aheads) are bounded only.')
MOD = 'contracts.c02'
K1 = ['handle_cell', 'Excel._fill_cell', 'Excel.fill_cell', 'Excel._get_vertical_range', 'Excel._get_horizontal_range',
      'Excel._get_matrix', 'Excel.get_matrix/rect', 'Excel.get_matrix/column', 'Excel.get_range', 'Excel.get_similar_second',
      'Excel.get_cells']
TITLES = ('S', 'Other sheet', "T2")
CELLS = [[1, 1, 1, 5], [1, 2, 2, 7], [2, 1, 1, 9]]
TABLE = [
    ('ref.cell', '=B3', 'CELL(0, 1, 2)', 'relative single cell on the own sheet'),
    ('ref.absolute', '=$B$3', 'CELL(0, 1, 2)', '$ markers do not change the cell'),
    ('ref.mixed_absolute', '=B$3+$B3', 'CELL(0, 1, 2) + CELL(0, 1, 2)', ''),
    ('ref.multi_letter_column', '=AB12', 'CELL(0, 27, 11)', ''),
    ('ref.three_letter_column', '=XFD1048576', 'CELL(0, 16383, 1048575)', 'last column, last row'),
    ('ref.quoted_sheet', "='Other sheet'!B3", 'CELL(1, 1, 2)', 'quoted title with a blank'),
    ('ref.unquoted_sheet', '=T2!B3', 'CELL(2, 1, 2)', 'unquoted title (looks like a cell name)'),
    ('ref.rectangle_row_major', '=SUM(B2:C3)', 'self._sum(self._only_numeric_list(self._flatten_list([AREA(0, 1, 1, 2, 2)])))',
     'rows outermost'),
    ('ref.rectangle_other_sheet', "=SUM('Other sheet'!A1:B2)",
     'self._sum(self._only_numeric_list(self._flatten_list([AREA(1, 0, 0, 1, 1)])))', ''),
    ('ref.column_range', '=SUM(B2:B4)', 'self._sum(self._only_numeric_list(self._flatten_list([AREA(0, 1, 1, 1, 3)])))', ''),
    ('ref.row_range', '=SUM(B2:D2)', 'self._sum(self._only_numeric_list(self._flatten_list([AREA(0, 1, 1, 3, 1)])))', ''),
    ('ref.absolute_rectangle', '=SUM($B$2:$C$3)', 'self._sum(self._only_numeric_list(self._flatten_list([AREA(0, 1, 1, 2, 2)])))', ''),
    ('ref.whole_column_other_sheet', "=SUM('Other sheet'!B:B)",
     'self._sum(self._only_numeric_list(self._flatten_list([[[CELL(1, 1, 0)], [CELL(1, 1, 1)], *self._rows_below(1, 1, 1, 2)]])))',
     'every stored row of that column, then the rows that values set by hand have added below them'),
    ('ref.whole_columns_row_major', "=SUM('Other sheet'!A:B)",
     'self._sum(self._only_numeric_list(self._flatten_list([[[CELL(1, 0, 0), CELL(1, 1, 0)], [CELL(1, 0, 1), CELL(1, 1, 1)], '
     '*self._rows_below(1, 0, 1, 2)]])))', 'A:B is row-major as well, extended below in the same way'),
]


def _column_letters(res):
    o = Ob('C02.column_index_from_string.equals_colnum', 'K2', function='openpyxl.utils.column_index_from_string')
    r = native.call('c02k2', 'column_letters')
    o.count = r['n']
    o.status = 'failed' if r['bad'] else 'discharged'
    o.detail = (f'differs for {r["bad"][:5]}' if r['bad'] else
                f'equals bijective base-26 for all {r["n"]} names A..ZZZ (its whole domain); rejects the next name')
    if r['bad']:
        o.confirmed = True
    res.add(o)


def run(ctx):
    res = PropResult('C02')
    K.k1_block(res, ctx, MOD, K1, 'C02.')
    K.k1_block(res, ctx, 'contracts.c02:registry_uid', ['Cell.uid'], 'C02.')
    _column_letters(res)
    schema.run_table(res, 'C02', TABLE, cells=CELLS, titles=TITLES)
    K.canary_contract(res, MOD, 'Excel._fill_cell', 'value',
                      'cell.value == lookup(self._data, cell.title, cell.column, cell.row)')
    K.monitor_if_present(res, ctx, 'mon_c02')
    res.trusted_base += ['L-SUBST', 'R-VIEW list model (uninterpreted length / element views with emitted axioms)',
                         'R-ALLOC object identity discipline']
    res.assumptions += ['the three reference regexes (back-references, look-ahead tails) are outside K1: bounded monitor '
                        'C02.monitor.*', 'A:C areas (generator + zip(*columns)) are outside the K1 subset: K-S schema on a '
                        'two-row sheet + bounded monitor', 'A-ALIAS']
    return res


def replay(p):
    return K.replay_any(p)
