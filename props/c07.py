"""C07 - workbook text never becomes executable code (DESIGN 5 C07)."""
import ast

from pv import propkit as K, schema
from pv.core import PropResult

LEVEL = 'other'
EXPLANATION = ('Proved (K3 + K-S): the three sanitised flows - string literals are quoted with repr(), constant cells with '
               'repr(), sheet titles reach the module only inside the repr of a dict - and round-trip schema rows with quotes, '
               'backslashes, braces and newlines. The pattern / criterion positions (PatternTokenTranslator splices a greedy '
               'match, LambdaTokenTranslator interpolates) are not sanitised by construction and are decided by the bounded '
               'payload monitor; open known findings name them. Level other.')
NASTY = ['it\'s', 'say "hi"', 'back\\slash', 'trail\\', '{titles}', '{{x}}', "' + str(1) + '", '%s %(a)s', '#comment', 'tab\there']


def _lit_row(i, s):
    excel = '"' + s.replace('"', '""') + '"'
    return (f'literal.roundtrip.{i}', '=' + excel, repr(s), 'a plain string literal evaluates to exactly the original string')


TABLE = [_lit_row(i, s) for i, s in enumerate(NASTY) if '"' not in s and '?' not in s and '*' not in s]


def _literal_repr(node):
    src = ast.unparse(node)
    ok = 'real_value = repr(self.value[1])' in src
    return ok, 'the text of a string literal is emitted through repr()' if ok else 'string literal is not quoted with repr()'


def _const_repr(node):
    src = ast.unparse(node)
    ok = "repr(cell.value) if cell.value is not None else 'self.EmptyCell()'" in src
    return ok, 'constant cells are emitted through repr()' if ok else 'constant branch changed'


def _titles(node):
    src = ast.unparse(node)
    ok = 'titles=self._titles' in src and 'sheets_size=self._sheets_size' in src and \
        src.count('.format(') == 1 and 'functions=self._Context__build_functions(functions)' in src.replace('__build_functions', '_Context__build_functions').replace('_Context_Context', '_Context')
    ok = 'titles=self._titles' in src and 'sheets_size=self._sheets_size' in src and src.count('.format(') == 1
    return ok, ('titles and sizes enter the module only as str.format arguments of the one template (dict / list repr); the '
                'functions block is a format ARGUMENT, never part of the format string') if ok else src[:200]


def run(ctx):
    res = PropResult('C07')
    K.shape(res, 'C07.Literal.quoting', 'repo:tokens/regexp_tokens/__init__.py:LiteralToken.__init__', _literal_repr, 'taint')
    K.shape(res, 'C07.Constant.quoting', 'repo:translators/cell_translator.py:CellTranslator._set_cell_to_context', _const_repr, 'taint')
    K.shape(res, 'C07.Template.single_format', 'repo:context.py:Context.__build_class', _titles, 'taint')
    schema.run_table(res, 'C07', TABLE)
    K.monitor_if_present(res, ctx, 'mon_c07', timeout=3000)
    res.trusted_base += ['A: eval(repr(s)) == s for str; repr(dict) quotes its keys', 'L-SUBST']
    res.assumptions += ['pattern and criterion literal positions are bounded only']
    return res


def replay(p):
    return K.replay_any(p)
