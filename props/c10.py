"""C10 - comparisons are exact and lawful (DESIGN 5 C10)."""
import z3

from pv import propkit as K
from pv.core import PropResult

LEVEL = 'proof'
EXPLANATION = ('K1: _by_operator and _compare (emitted runtime, extracted EmptyCell methods) proved against the '
               'statement for all operand values of the scalar sorts; LEMMA: the six laws follow from the postconditions; '
               'K4 grid through =A2<op>B2 as the bounded stand-in for the translator link.')
MOD = 'contracts.rt'
K1 = ['_by_operator', '_compare/num', '_compare/text', '_compare/date']


def _laws(res):
    from contracts.rt import opres_z

    def build_bool():
        lt, eq = z3.Bools('lt eq')
        r = {o: opres_z(z3.StringVal(o), lt, eq) for o in ('<', '<=', '>', '>=', '==', '!=')}
        one = z3.Or(z3.And(r['<'], z3.Not(r['==']), z3.Not(r['>'])), z3.And(z3.Not(r['<']), r['=='], z3.Not(r['>'])),
                    z3.And(z3.Not(r['<']), z3.Not(r['==']), r['>']))
        goal = z3.And(one, r['!='] == z3.Not(r['==']), r['<='] == z3.Not(r['>']), r['>='] == z3.Not(r['<']))
        return [z3.Not(z3.And(lt, eq))], goal
    K.lemma(res, 'C10.laws.from_postcondition', build_bool,
            'result == opres(op, LT, EQ) with LT and EQ never both true gives: exactly one of <, =, > holds, <> is not =, '
            '<= is not >, >= is not <')

    def build_conv(kind):
        def b():
            if kind == 'real':
                x, y = z3.Reals('x y')
            elif kind == 'text':
                x, y = z3.Strings('x y')
            else:
                x, y = z3.Ints('x y')
            lt_ab, eq_ab, lt_ba, eq_ba = x < y, x == y, y < x, y == x
            goal = z3.And(opres_z(z3.StringVal('<'), lt_ab, eq_ab) == opres_z(z3.StringVal('>'), lt_ba, eq_ba),
                          z3.Not(z3.And(lt_ab, eq_ab)))
            return [], goal
        return b
    for kind in ('real', 'text', 'instant'):
        K.lemma(res, f'C10.laws.converse.{kind}', build_conv(kind),
                f'a<b exactly when b>a for the {kind} order used in the postcondition; LT and EQ exclude each other')


CONFORMANCE = {"_compare/num": [{"operator": "<", "left_operand": 1, "right_operand": {"$f": "1.5"}}, {"operator": "!=", "left_operand": {"$e": 1}, "right_operand": ""}, {"operator": "==", "left_operand": {"$e": 1}, "right_operand": 0}, {"operator": ">=", "left_operand": True, "right_operand": "abc"}, {"operator": "<", "left_operand": {"$e": 1}, "right_operand": {"$dt": [2020, 1, 1, 0, 0, 0, 0]}}, {"operator": "<=", "left_operand": {"$f": "-868.5"}, "right_operand": -868}, {"operator": ">", "left_operand": {"$e": 1}, "right_operand": -1}], "_compare/text": [{"operator": "<", "left_operand": "abc", "right_operand": "abd"}, {"operator": "==", "left_operand": "", "right_operand": {"$e": 1}}, {"operator": "<", "left_operand": "10", "right_operand": "9"}, {"operator": ">", "left_operand": "a", "right_operand": 5}], "_compare/date": [{"operator": "==", "left_operand": {"$d": [2020, 1, 1]}, "right_operand": {"$dt": [2020, 1, 1, 0, 0, 0, 0]}}, {"operator": "<", "left_operand": {"$dt": [2020, 1, 1, 12, 0, 0, 0]}, "right_operand": {"$d": [2020, 1, 2]}}, {"operator": ">", "left_operand": {"$d": [2020, 1, 1]}, "right_operand": {"$e": 1}}], "_by_operator": [{"operator": "<>", "left_operand": 1, "right_operand": 2}, {"operator": "<", "left_operand": "a", "right_operand": 1}, {"operator": "!=", "left_operand": {"$e": 1}, "right_operand": None}]}


def run(ctx):
    res = PropResult('C10')
    K.k1_block(res, ctx, MOD, K1, 'C10.')
    K.ord_lex(res, 'C10')
    _laws(res)
    K.canary_contract(res, MOD, '_compare/num', 'numeric_exact',
                      'implies(is_num(left_operand) and is_num(right_operand), result == opres(operator, '
                      'R(left_operand) <= R(right_operand), R(left_operand) == R(right_operand)))')
    K.conformance(res, 'contracts.rt', CONFORMANCE)
    K.monitor_if_present(res, ctx, 'mon_c10')
    res.trusted_base += ['pv prelude: Python comparison dispatch incl. reflected operands and subclass priority',
                         'A-REAL: floats as reals (exact for comparing given doubles); float(int) exact for |i| <= 2**53']
    res.assumptions += ['A-REAL', 'A-STR', 'A-STATIC', 'numeric-looking texts are compared as numbers by the runtime (pinned test '
                        'test_compare_str_as_number relies on it); the text clauses are stated for texts that neither int() '
                        'nor float() accepts']
    return res


def replay(p):
    return K.replay_any(p)
