"""C17 - text functions obey the substring algebra (DESIGN 5 C17)."""
import z3

from pv import propkit as K, schema
from pv.core import PropResult

LEVEL = 'proof'
EXPLANATION = ('K1 (string theory): _left, _right, _mid proved for every text and integer counts; LEMMA REBUILD from the two '
               'postconditions; _excel_value_to_string (the text form of a text, a blank, a boolean, a whole number, a date) proved; '
               'K-S: argument binding, & and CONCATENATE join the text forms of their operands in order; '
               'SEARCH and VALUE (re, chains of str.replace, strptime) are bounded only.')
MOD = 'contracts.rt'
K1 = ['_left', '_right', '_mid', '_excel_value_to_string']
TABLE = [
    ('LEFT.binding', '=LEFT("abc",900001)', "self._left('abc', 900001)", ''),
    ('LEFT.default', '=LEFT("abc")', "self._left('abc', None)", 'omitted count'),
    ('RIGHT.binding', '=RIGHT("abc",900001)', "self._right('abc', 900001)", ''),
    ('MID.binding', '=MID("abc",900001,900002)', "self._mid('abc', 900001, 900002)", ''),
    ('AMP.order', '=900001&900002', 'self._excel_value_to_string(900001) + self._excel_value_to_string(900002)', 'text forms joined in order'),
    ('AMP.chain', '=900001&900002&900003', 'self._excel_value_to_string(900001) + self._excel_value_to_string(900002) + self._excel_value_to_string(900003)',
     'a chain is emitted flat (CPython groups + from the left as Excel groups &)'),
    ('CONCATENATE.order', '=CONCATENATE(900001,"x",900002)',
     "self._excel_value_to_string(900001) + self._excel_value_to_string('x') + self._excel_value_to_string(900002)", ''),
    ('SEARCH.binding', '=SEARCH("a","abc",900001)', "self._search('a', 'abc', 900001)", ''),
    ('SEARCH.default_start', '=SEARCH("a","abc")', "self._search('a', 'abc', None)", ''),
    ('VALUE.binding', '=VALUE("12")', "self._value(str('12'))", ''),
]


def _rebuild(res):
    def build():
        t = z3.String('t')
        n = z3.Int('n')
        ln = z3.Length(t)
        left = z3.SubString(t, 0, z3.If(n <= ln, n, ln))                       # _left.post.first_n
        k, cnt = n + 1, ln
        mid = z3.SubString(t, k - 1, z3.If(cnt <= ln - k + 1, cnt, ln - k + 1))   # _mid.post.n_from_k
        return [0 <= n, n < ln], z3.Concat(left, mid) == t
    K.lemma(res, 'C17.REBUILD', build, 'for 0 <= n < len(t): LEFT(t,n) & MID(t,n+1,len(t)) == t, from the postconditions '
            'first_n of _left and n_from_k of _mid')


CONFORMANCE = {"_mid": [{"text": "hello", "start_num": 2, "num_chars": 3}, {"text": "hello", "start_num": 0, "num_chars": 3}, {"text": "", "start_num": 1, "num_chars": 0}, {"text": "abc", "start_num": 4, "num_chars": 2}, {"text": "abc", "start_num": 3, "num_chars": 9}, {"text": "abc", "start_num": 1, "num_chars": -1}], "_left": [{"text": "hello", "num_chars": 2}, {"text": "", "num_chars": 2}, {"text": "abc", "num_chars": 0}, {"text": "abc", "num_chars": -1}, {"text": "abc", "num_chars": 7}], "_right": [{"text": "hello", "num_chars": 2}, {"text": "", "num_chars": 0}, {"text": "abc", "num_chars": 3}, {"text": "abc", "num_chars": 9}]}


def run(ctx):
    res = PropResult('C17')
    K.k1_block(res, ctx, MOD, K1, 'C17.')
    _rebuild(res)
    schema.run_table(res, 'C17', TABLE)
    K.canary_contract(res, MOD, '_mid', 'n_from_k',
                      'implies(I(start_num) >= 1 and I(num_chars) >= 0, is_str(result) and '
                      'S(result) == substr(text, I(start_num), max(0, min(I(num_chars), slen(text) - I(start_num) + 1))))')
    K.canary_contract(res, MOD, '_excel_value_to_string', 'date_is_its_serial_number',
                      'implies(is_datetime(value), result == int_text(tord(value) - 693595))')
    K.conformance(res, 'contracts.rt', CONFORMANCE)
    K.monitor_if_present(res, ctx, 'mon_c17', drop={
        'C17.value.python_only_number_syntax': 'VALUE("inf") / "nan" / "1_000": the statement speaks of numeric text only; what VALUE does '
                                               'with other text has no clause'})
    res.trusted_base += ['z3 sequence theory (str.substr, str.++, str.len)', 'L-SUBST']
    res.assumptions += ['A-STR: strings are sequences of code points', 'texts are str and counts are int (the operand kinds of '
                        'the statement); SEARCH and VALUE are decided only to the monitor\'s bound']
    return res


def replay(p):
    return K.replay_any(p)
