"""C20 - the importable runtime base class and the emitted runtime agree (DESIGN 5 C20)."""
import ast
import time

from pv import native, source, argsets
from pv.core import Ob, Bounded, PropResult

LEVEL = 'proof'
EXPLANATION = ('K2 same helper set + K3 AST identity per helper (identical code in identically bound environments '
               'computes identical results); helpers whose ASTs differ fall to a bounded differential run.')


def _norm(node):
    return ast.dump(source.strip_doc_and_annotations(node), include_attributes=False)


def _nparams(node):
    if isinstance(node, ast.ClassDef):
        return None
    a = node.args
    n = len(a.args) + len(a.posonlyargs)
    static = any(isinstance(d, ast.Name) and d.id == 'staticmethod' for d in node.decorator_list)
    return n if static else n - 1


def _free_names(node):
    names = set()
    for n in ast.walk(node):
        if isinstance(n, ast.Name):
            names.add(n.id)
    return names


def run(ctx):
    res = PropResult('C20')
    rt = source.class_members('runtime')
    ab = source.class_members('abstract')
    _, _, fields = source.runtime()
    res.trusted_base += ['CPython ast module (parsing, dump)', 'pv.source extraction (drops docstrings, annotations)',
                         'A-STATIC: no reflection / monkey-patching; identical code in identical environments '
                         'computes identical results']
    # TEMPLATE.fields: the emitted runtime is a literal prefix of every generated module
    o = Ob('C20.TEMPLATE.fields', 'K3', decisive=True, function='repo:context.py:Context.__class_template')
    o.status = 'discharged' if fields == ['functions', 'sheets_size', 'titles'] else 'failed'
    o.detail = f'replacement fields of the class template: {fields}'
    res.add(o)

    # K2 same set
    o = Ob('C20.Helpers.same_set', 'K2', function='runtime vs abstract class body')
    only_rt, only_ab = sorted(set(rt) - set(ab)), sorted(set(ab) - set(rt))
    o.count = len(set(rt) | set(ab))
    if only_rt or only_ab:
        o.status, o.detail = 'failed', f'only in generated class: {only_rt}; only in abstract class: {only_ab}'
        o.witness = None
    else:
        o.status, o.detail = 'discharged', f'{len(rt)} members in both classes'
    res.add(o)

    # Imports.same_binding
    irt, iab = source.module_imports('runtime'), source.module_imports('abstract')
    o = Ob('C20.Imports.same_binding', 'K3', decisive=False)
    used = set()
    for n in rt.values():
        used |= _free_names(n)
    for n in ab.values():
        used |= _free_names(n)
    bad = sorted(k for k in used if (k in irt or k in iab) and irt.get(k) != iab.get(k))
    o.status = 'failed' if bad else 'discharged'
    o.detail = f'library names bound differently in the two modules: {bad}' if bad else \
        f'{len([k for k in used if k in irt])} library names bound identically'
    res.add(o)

    differing = []
    for name in sorted(set(rt) & set(ab)):
        o = Ob(f'C20.Helper.{name}.identical', 'K3', decisive=False, function=f'runtime:{name} / abstract:{name}')
        res.functions_under_contract[f'runtime:{name}'] = source.src_hash(f'runtime:{name}')
        if _norm(rt[name]) == _norm(ab[name]):
            o.status, o.detail = 'discharged', 'ASTs identical after dropping docstrings and annotations'
        else:
            o.status, o.detail = 'unknown', 'ASTs differ; decided by the differential stand-in below'
            differing.append(name)
        res.add(o)

    # differing helpers: differential execution (bounded)
    for name in differing:
        t0 = time.time()
        n = _nparams(rt[name])
        b = Bounded(f'C20.Helper.{name}.differential', bound=f'generic argument pool, {n} parameter(s), '
                    f'<= {ctx.pick(400, 4000)} argument tuples', rule='one evaluation = both copies called on the same '
                    'arguments; distinct = distinct argument tuples on which at least one copy returns a value')
        ob = next(x for x in res.obligations if x.name == f'C20.Helper.{name}.identical')
        if n is None:
            ob.status, ob.detail = 'failed', 'nested class bodies differ'
            continue
        sets = argsets.generic(n, ctx.seed, ctx.pick(400, 4000))
        # texts that the text-handling helpers treat specially (wildcards, escapes, operator prefixes, error values): every
        # pair of them in the first two positions, the remaining positions None
        special = ['a~bc', '~.x', 'a~', '~a', 'a~b', 'xa~bcx', 'a*b', 'a~*b', '~?', 'a?b', '~~', '~~?', '=5', '<>x', '>3', 'TRUE', '', 'x', 'A', '#N/A', 5, 0, 2.5, None, True]
        if n >= 2:
            sets = [[a, b_] + [None] * (n - 2) for a in special for b_ in special] + sets
        elif n == 1:
            sets = [[a] for a in special] + sets
        if name == '_regexp':
            sets = [[p] for p in ['a?', 'a??b', '*x', 'a~?b', 'a~*', '[a]', 'plain', '', '?', 'x*y?z', '~~?']] + sets
            # every pattern of length <= 4 over the wildcard / escape / regexp-special alphabet (an escape rule that differs
            # between the copies needs '~' next to one particular kind of character)
            import itertools
            sets = [[''.join(t)] for k in range(1, 5) for t in itertools.product('ab~?*.[', repeat=k)] + sets
        if name == '_search':
            texts = [x for x in special if isinstance(x, str)]
            sets = [[a, b_, 1] + [None] * (n - 3) for a in texts for b_ in texts] + sets
        r = native.call('basic', 'call_both', name=name, argsets=sets)
        nontriv = 0
        for args, x, y in zip(sets, r['runtime'], r['abstract']):
            b.evaluations += 1
            if not (isinstance(x, dict) and '$exc' in x and isinstance(y, dict) and '$exc' in y):
                nontriv += 1
            if x != y and not (isinstance(x, dict) and '$repr' in x):
                if isinstance(x, dict) and '$exc' in x and isinstance(y, dict) and '$exc' in y and x['$exc'] == y['$exc']:
                    continue
                if not b.failures:
                    b.failures.append({'key': f'C20.{name}.differs',
                                       'what': f'{name}{tuple(args)!r}: generated -> {x!r}, abstract -> {y!r}',
                                       'replay': {'kind': 'call_both', 'name': name, 'args': args}})
        b.distinct_nontrivial = nontriv
        b.samples = [{'helper': name, 'args': sets[0], 'generated': r['runtime'][0], 'abstract': r['abstract'][0]}]
        b.seconds = time.time() - t0
        if b.failures:
            ob.status, ob.detail, ob.confirmed = 'failed', b.failures[0]['what'], True
            ob.witness = b.failures[0]['replay']
            ob.finding = b.failures[0]['key']
            ob.decisive = True
            b.failures = []     # reported once, through the obligation
        res.add(b)
    res.assumptions += ['A-STATIC', 'helpers with identical ASTs are not executed (reflexivity)',
                        'differing helpers are compared on a bounded argument pool only']
    res.samples.append({'helpers_compared': len(set(rt) & set(ab)), 'differing': differing})
    return res


def replay(p):
    if p.get('kind') == 'call_both':
        r = native.call('basic', 'call_both', name=p['name'], argsets=[p['args']])
        x, y = r['runtime'][0], r['abstract'][0]
        return x != y, f'{p["name"]}({p["args"]!r}): generated -> {x!r}; abstract -> {y!r}'
    return False, 'nothing to replay'
