"""C19 - the safety gate reports exactly the Python-like cells (DESIGN 5 C19)."""
import ast

from pv import propkit as K
from pv.core import PropResult

LEVEL = 'other'
EXPLANATION = ('Proved (K1): the gate runs before translation iff the check is enabled, the safety exception is raised iff the '
               'check is on and the workbook is unsafe, never when it is off, and a failed attempt never leaves a stale text '
               'marked fresh (Parser._translate incl. exceptional exits); Excel.is_safe raises iff the report is non-empty '
               '(K3 shape); Excel.parse lists every cell that has suspicious fragments under the key built from the sheet title, the '
               'cell\'s own column letter and row number (K1 with loop invariants, K5 openpyxl). Which fragments are suspicious '
               '(two re.findall patterns with lazy quantifiers) is decided by the bounded monitor, so the level is other.')
K1 = ['Parser._translate', 'Parser.enable_safety_check', 'Parser.disable_safety_check']


def _is_safe(node):
    src = ast.unparse(node)
    ok = 'if self._suspicious_cells:' in src and 'raise E2PyclSafetyException(suspicious_cells=self._suspicious_cells)' in src \
        and len([n for n in ast.walk(node) if isinstance(n, (ast.If, ast.Raise))]) == 2
    return ok, 'raises the safety exception carrying the report iff the report is non-empty' if ok else src[:200]


def _key(node):
    src = ast.unparse(node)
    ok = "suspicious_cells[f\"'{worksheet.title}'{cell.column_letter}{cell.row}\"] = suspicious_constructions" in src
    return ok, "report key is '<title>'<column letter><row number of the cell>" if ok else 'report key expression changed'


def run(ctx):
    res = PropResult('C19')
    K.k1_block(res, ctx, 'contracts.c09', K1, 'C19.')
    K.k1_block(res, ctx, 'contracts.c18', ['Excel.parse/report'], 'C19.')
    K.shape(res, 'C19.Excel.is_safe.shape', 'repo:excel.py:Excel.is_safe', _is_safe, 'gate')
    K.shape(res, 'C19.Excel.parse.report_key', 'repo:excel.py:Excel.parse', _key,
            'the key is built from the worksheet title, the cell\'s own column letter and the cell\'s own row number '
            '(openpyxl attributes of the streamed cell, K5)')
    K.monitor_if_present(res, ctx, 'mon_c19')
    res.trusted_base += ['assumed contracts of the pipeline behind the facade (see C09)', 'K5 openpyxl cell.row / cell.column_letter']
    res.assumptions += ['the call-syntax regex and the upper-case exemption are bounded only (CPython re with lazy quantifiers)']
    return res


def replay(p):
    return K.replay_any(p)
