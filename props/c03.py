"""C03 - entry-point translation is a closed, faithful slice; cycles are rejected (DESIGN 5 C03)."""
import ast
import os

from pv import propkit as K, SRC
from pv.core import PropResult, Ob

LEVEL = 'other'
EXPLANATION = ('Proved: Context.get_cell / set_cell (a reference text is produced only for a registered uid; registration adds '
               'exactly one entry and keeps the others, K1), the reference text self._cell_preprocessor(\'...\') has a single '
               'producer in the whole translator (K3), the in-progress marker is added before the descent and tested before it '
               '(K3 shape on CellTranslator._set_cell_to_context); CellTranslator._set_cell_to_context over an abstract formula translator '
               '(K1): after translating a cell its uid is a key of the translation map, earlier entries are never removed or '
               'changed (also on exceptional exits), a constant is emitted as repr(value) / EmptyCell(), the marker set is '
               'restored; CellTranslator.translate returns a reference that names a registered uid (reference and member always '
               'come together); CellTranslator.translate_file registers every cell that excel.get_cells() lists and keeps what was '
               'there (loop invariant over the list). Faithfulness (entry-point vs whole-file values) and cycle '
               'rejection over all graph shapes are decided by the bounded differential monitor, so the level is other.')
K1 = ['Context.get_cell', 'Context.set_cell', 'CellTranslator._set_cell_to_context', 'CellTranslator.translate',
      'CellTranslator.translate_file']


def _single_producer(res):
    hits = []
    for root, _, names in os.walk(SRC):
        for nm in names:
            if not nm.endswith('.py'):
                continue
            rel = os.path.relpath(os.path.join(root, nm), SRC)
            if rel == 'utilities/abstract_excel_in_python_class.py':
                continue
            tree = ast.parse(open(os.path.join(root, nm), encoding='utf-8').read())
            for fn in [n for n in ast.walk(tree) if isinstance(n, ast.FunctionDef)]:
                for c in ast.walk(fn):
                    if isinstance(c, ast.Constant) and isinstance(c.value, str) and '_cell_preprocessor(' in c.value \
                            and 'class ExcelInPython' not in c.value:
                        hits.append(f'{rel}:{fn.name}')
    hits = sorted(set(hits))
    o = Ob('C03.Ref.single_producer', 'K3', decisive=False, function='excel2pycl/src (all translators)')
    ok = hits == ['context.py:_get_cell_with_cell_preprocessor']
    o.status = 'discharged' if ok else 'failed'
    o.detail = f'producers of the reference text: {hits}' + ('' if ok else ' (expected only Context._get_cell_with_cell_preprocessor)')
    res.add(o)


def _marker(node):
    src = ast.unparse(node)
    i_check = src.find('if cell.uid in context._cells_in_translation')
    i_add = src.find('context._cells_in_translation.add(cell.uid)')
    i_lex = src.find('Lexer.parse(')
    i_dis = src.find('context._cells_in_translation.discard(cell.uid)')
    i_set = src.find('context.set_cell(cell, code)')
    ok = 0 <= i_check < i_add < i_lex < i_dis < i_set and "raise E2PyclParserException" in src[i_check:i_add]
    return ok, ('the in-progress marker is tested (parser exception) and set before the formula is descended into, and '
                'cleared before registration') if ok else 'marker discipline changed'


def _every_formula_path_checks(node):
    """every path that reaches the descent (Lexer.parse / a recursive translate) passes the marker test"""
    calls = [c for c in ast.walk(node) if isinstance(c, ast.Call) and isinstance(c.func, ast.Attribute)
             and c.func.attr in ('translate', 'parse', '_set_cell_to_context', 'get')]
    outside = []
    guard = None
    for n in ast.walk(node):
        if isinstance(n, ast.If) and 'cell.value.find' in ast.unparse(n.test):
            guard = n
    for c in calls:
        inside = guard is not None and any(c is x for x in ast.walk(guard))
        if not inside and c.func.attr != 'get':
            outside.append(ast.unparse(c)[:60])
    return (guard is not None and not outside), ('all descents happen inside the formula branch that tests the marker'
                                                 if guard is not None and not outside else f'descent outside the guarded branch: {outside}')


def run(ctx):
    res = PropResult('C03')
    K.k1_block(res, ctx, 'contracts.c03', K1, 'C03.')
    K.canary_contract(res, 'contracts.c03', 'CellTranslator.translate_file', 'every_cell_registered',
                      'all(has(old(context._cell_translations), uid_str(cells_of(excel)[j].title, cells_of(excel)[j].column, '
                      'cells_of(excel)[j].row)) for j in range(len(cells_of(excel))))')
    _single_producer(res)
    tgt = 'repo:translators/cell_translator.py:CellTranslator._set_cell_to_context'
    K.shape(res, 'C03._set_cell_to_context.marker_discipline', tgt, _marker, 'cycle rejection')
    K.shape(res, 'C03._set_cell_to_context.no_unguarded_descent', tgt, _every_formula_path_checks, 'cycle rejection')
    K.monitor_if_present(res, ctx, 'mon_c03')
    K.monitor_if_present(res, ctx, 'mon_c03x')      # cells far from the corner, folds with many arguments
    res.assumptions += ['closure lemma CLOSED: every reference occurring in registered code names a registered key, given the '
                        'single producer and PARAM (translators only concatenate child translations) - PARAM is not checked '
                        'mechanically', 'faithfulness and cycle rejection: bounded']
    return res


def replay(p):
    return K.replay_any(p)
