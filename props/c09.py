"""C09 - translation output depends only on the current workbook and settings (DESIGN 5 C09)."""
import ast
import os

from pv import propkit as K, SRC
from pv.core import PropResult, Ob

LEVEL = 'proof'
EXPLANATION = ('K1: Parser as a state machine over an abstract deterministic pipeline TR(path, entry): every setter keeps the '
               'class invariant "no change flag set => the cached text is the translation of the current path / entry / safety '
               'setting", _translate establishes it and keeps it on EVERY exceptional exit, get_translation returns and '
               'write_translation writes exactly that text; K3: no nondeterminism source on the translation path (no set '
               'iteration, hash, id, time, random, environment); determinism across processes / hash seeds / histories is '
               'bounded; thread interleavings are not decided.')
K1 = ['Parser.enable_safety_check', 'Parser.disable_safety_check', 'Parser.set_excel_file_path', 'Parser.set_entrypoint_cell',
      'Parser._translate', 'Parser.get_translation', 'Parser.write_translation']
BANNED_CALLS = {'hash', 'id', 'time', 'random', 'uuid4', 'uuid1', 'getenv', 'urandom', 'now', 'today', 'perf_counter', 'getpid',
                'lru_cache', 'cache', 'cached_property'}


def _impure(fn):
    """why a memoised function may answer differently from the plain one: it writes something other than its own locals
    (attribute / subscript store, global, nonlocal, del) - '' when nothing of the kind occurs.  A memo over a function that
    only builds new values from its arguments and immutable class data cannot make the translation depend on history."""
    local = {a.arg for a in fn.args.args + fn.args.kwonlyargs}
    for n in ast.walk(fn):
        if isinstance(n, ast.Name) and isinstance(n.ctx, ast.Store):
            local.add(n.id)
    for n in ast.walk(fn):
        if isinstance(n, (ast.Global, ast.Nonlocal, ast.Delete)):
            return f'line {n.lineno}: {type(n).__name__.lower()} statement'
        if isinstance(n, (ast.Attribute, ast.Subscript)) and isinstance(n.ctx, ast.Store):
            base = n.value
            while isinstance(base, (ast.Attribute, ast.Subscript)):
                base = base.value
            if isinstance(n, ast.Attribute) or not (isinstance(base, ast.Name) and base.id in local and
                                                    base.id not in {a.arg for a in fn.args.args}):
                return f'line {n.lineno}: stores into {ast.unparse(n)[:40]}'
    return ''


def _scan(res):
    bad, files, memo_ok, deco_lines = [], 0, [], set()
    for root, _, names in os.walk(SRC):
        if 'utilities' in root.split(os.sep) and False:
            continue
        for nm in names:
            if not nm.endswith('.py'):
                continue
            rel = os.path.relpath(os.path.join(root, nm), SRC)
            if rel in ('utilities/abstract_excel_in_python_class.py', 'utilities/executor.py', 'object_loader.py'):
                continue
            text = open(os.path.join(root, nm), encoding='utf-8').read()
            tree = ast.parse(text)
            files += 1
            template_lines = set()
            if rel == 'context.py':
                for n in ast.walk(tree):
                    if isinstance(n, ast.Constant) and isinstance(n.value, str) and 'class ExcelInPython' in n.value:
                        template_lines = set(range(n.lineno, n.end_lineno + 1))
            hash_lines = set()
            for fn in ast.walk(tree):
                if isinstance(fn, ast.FunctionDef) and fn.name == '__hash__':
                    # defining how an object hashes is not a nondeterminism source by itself (iteration over hashed
                    # containers is what the scan looks for)
                    hash_lines |= set(range(fn.lineno, fn.end_lineno + 1))
            for n in ast.walk(tree):
                if getattr(n, 'lineno', None) in template_lines or getattr(n, 'lineno', None) in hash_lines:
                    continue
                if isinstance(n, ast.For) or isinstance(n, ast.comprehension):
                    it = n.iter
                    if isinstance(it, (ast.Set, ast.SetComp)) or (isinstance(it, ast.Call) and isinstance(it.func, ast.Name)
                                                                    and it.func.id in ('set', 'frozenset')):
                        bad.append(f'{rel}:{getattr(n, "lineno", it.lineno)} iterates over a set')
                if isinstance(n, ast.Call):
                    f = n.func
                    name = f.id if isinstance(f, ast.Name) else f.attr if isinstance(f, ast.Attribute) else ''
                    if name in BANNED_CALLS and not (name in ('lru_cache', 'cache') and n.lineno in deco_lines):
                        bad.append(f'{rel}:{n.lineno} calls {name}()')
                if isinstance(n, (ast.FunctionDef, ast.ClassDef)):
                    for d in n.decorator_list:
                        dn = d.id if isinstance(d, ast.Name) else d.attr if isinstance(d, ast.Attribute) else \
                            (d.func.id if isinstance(d, ast.Call) and isinstance(d.func, ast.Name) else
                             d.func.attr if isinstance(d, ast.Call) and isinstance(d.func, ast.Attribute) else '')
                        if dn in BANNED_CALLS:
                            why = _impure(n) if dn in ('lru_cache', 'cache') and isinstance(n, ast.FunctionDef) else 'memo'
                            if why:
                                bad.append(f'{rel}:{n.lineno} {n.name} is decorated with @{dn} (process-wide memo; {why})')
                            else:
                                memo_ok.append(f'{rel}:{n.name}')
                            deco_lines.add(d.lineno)
    o = Ob('C09.Translate.no_nondeterminism', 'K3', decisive=False, function='excel2pycl/src (translation path)')
    o.count = files
    o.status = 'failed' if bad else 'discharged'
    o.detail = ('; '.join(bad[:6]) if bad else
                f'{files} modules of the translation path: no iteration over a set, no hash / id / time / random / uuid / '
                'environment read, no process-wide memo decorator' +
                (f' except on functions that write nothing but their own locals: {memo_ok} (assumption: the class data they '
                 'read - token sets, subclass lists - is fixed after import)' if memo_ok else ''))
    res.add(o)


def run(ctx):
    res = PropResult('C09')
    K.k1_block(res, ctx, 'contracts.c09', K1, 'C09.')
    _scan(res)
    K.canary_contract(res, 'contracts.c09', 'Parser.set_entrypoint_cell', 'invariant',
                      'not Bv(self._entrypoint_cell_has_been_changed)')
    K.monitor_if_present(res, ctx, 'mon_c09')
    res.trusted_base += ['ASSUMED contracts of the pipeline behind the facade (Excel.parse, Excel.is_safe, Context, '
                         'CellTranslator.translate / translate_file, Context.build_class): the class text is a function '
                         'TR(path, entry triple) of the workbook and the entry cell, may fail, and the gate raises the safety '
                         'exception iff the workbook is unsafe; these functions are abstracted, not proved, here']
    res.assumptions += ['the entry Cell object is not mutated by the caller between set_entrypoint_cell and the translation',
                        'concurrent translations in other threads: not decided (no contract within reach expresses '
                        'interleavings); a thread smoke test is part of the bounded monitor if present',
                        'A-STATIC']
    return res


def replay(p):
    return K.replay_any(p)
