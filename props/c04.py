"""C04 - overrides mean edit-the-cell-and-recalculate; the last write wins (DESIGN 5 C04)."""
from pv import propkit as K
from pv.core import PropResult

LEVEL = 'proof'
EXPLANATION = ('K1 chain: Executor.set_cells (the override store maps each uid to the last supplied cell, other entries '
               'kept) -> _set_cells_to_executed_instance (the instance argument map receives the value of every stored '
               'cell) -> ExcelInPython.set_arguments (last occurrence wins, other keys kept) -> _cell_preprocessor (override '
               'first, the generated method is not even evaluated for an overridden cell, else blank) -> Executor.get_cell '
               '(replays pending overrides, then evaluates). History monitor as bounded stand-in for the composition with '
               'the translator (dependants read through _cell_preprocessor).')
K1_RT = ['set_arguments', 'set_arguments/frame', '_cell_preprocessor']
K1_EX = ['Executor.set_cells/normalised', 'Executor._set_cells_to_executed_instance', 'Executor.get_cell/clean',
         'Executor.get_cell/dirty']


def run(ctx):
    res = PropResult('C04')
    K.k1_block(res, ctx, 'contracts.rt', K1_RT, 'C04.')
    K.k1_block(res, ctx, 'contracts.c04', K1_EX, 'C04.')
    K.canary_contract(res, 'contracts.rt', '_cell_preprocessor', 'override_first',
                      'implies(has(self._arguments, cell_uid), is_empty(result))')
    K.monitor_if_present(res, ctx, 'mon_c04')
    res.trusted_base += ['A-STATIC: self.__dict__ / self.__class__.__dict__ modelled as the attribute tables of the instance '
                         'and of the generated class', 'A-ORDER', 'str(int) as an uninterpreted injective-free function '
                         '(uids are compared as built, never decoded)']
    res.assumptions += ['A-ALIAS: a Cell handed to set_cells is not mutated afterwards by the caller',
                        'Executor.set_cells is proved for cells with normalised (integer) identifiers; A1-style identifiers '
                        'are normalised by handle_cell (C02 contract)',
                        'a whole-column area is enumerated at translation time: an override below the stored rows is not '
                        'part of SUM(A:A) (known finding if the monitor reports it)']
    return res


def replay(p):
    return K.replay_any(p)
