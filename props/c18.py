"""C18 - the workbook is read at true coordinates, with true types and sizes (DESIGN 5 C18)."""
import ast

from pv import propkit as K, schema
from pv.core import PropResult

LEVEL = 'proof'
EXPLANATION = ('K1 under the K5 contract of openpyxl\'s read-only stream (row i of iter_rows is sheet row i+1, element j is column '
               'j+1, missing cells padded): Excel.parse, three nested loops with invariants, stores the value of every cell at '
               'data[sheet][row][column], reports per sheet (row count, longest row) and not a running maximum; Excel._fill_cell '
               'reads that store and blank outside (C02 contract); K3: a constant cell is emitted as repr(value) / EmptyCell(). '
               'The K5 contract itself and ArrayFormula values are covered by the bounded sparse-layout monitor.')
import datetime
CELLS = [[0, 1, 1, 7], [0, 2, 1, {'$f': '2.5'}], [0, 3, 1, True], [0, 4, 1, 'te"x\'t'], [0, 5, 1, {'$dt': [2020, 2, 29, 10, 30, 0, 0]}],
         [0, 6, 1, False], [0, 7, 1, 0], [0, 8, 1, {'$f': '1.0'}]]
TABLE = [
    ('const.int', '=A1', 'CELL(0, 0, 0)', 'reference to a constant'),
]


def _const_branch(node):
    src = ast.unparse(node)
    ok = "repr(cell.value) if cell.value is not None else 'self.EmptyCell()'" in src
    return ok, 'constant cells are emitted as repr(value), blanks as self.EmptyCell()' if ok else 'constant branch changed'


def run(ctx):
    res = PropResult('C18')
    K.k1_block(res, ctx, 'contracts.c18', ['Excel.parse/data', 'Excel.parse/sizes', 'Excel.parse/titles'], 'C18.')
    K.k1_block(res, ctx, 'contracts.c02', ['Excel._fill_cell'], 'C18.')
    K.canary_contract(res, 'contracts.c18', 'Excel.parse/data', 'one_entry_per_sheet', 'is_list(result) and len(result) == 1')
    K.shape(res, 'C18.CellTranslator.constant_is_repr', 'repo:translators/cell_translator.py:CellTranslator._set_cell_to_context',
            _const_branch, 'eval(repr(v)) == v for int / float / bool / str / datetime (A)')
    K.shape(res, 'C18.Excel.parse.returns_what_was_read', 'repo:excel.py:Excel.parse',
            lambda node: (all(t in ast.unparse(node) for t in ("'data': worksheets_data", "'titles': worksheets_titles",
                                                               "'suspicious_cells': suspicious_cells", "'sheets_size': sheets_size")),
                          'the constructor receives exactly the four accumulators the loop contracts speak about'),
            'dropped by the #head2 extraction: wb.close() and this constructor call')
    K.monitor_if_present(res, ctx, 'mon_c18')
    res.trusted_base += ['K5 openpyxl read-only iter_rows() after reset_dimensions(): i-th row is sheet row i+1, j-th element '
                         'column j+1, missing cells padded (conformance: bounded monitor)', 'eval(repr(v)) == v for the stored types']
    res.assumptions += ['ArrayFormula cell values are outside the K1 contract of Excel.parse (bounded)']
    return res


def replay(p):
    return K.replay_any(p)
